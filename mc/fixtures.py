"""Tiny atmospheres, opacity tables and observations (DESIGN.md 2.9).

Everything here builds *fresh real TauREx objects*; process-wide singletons are reset by
reset_caches() at the start of every case.
"""
import os
import pickle
import shutil
import tempfile
import atexit

import numpy as np

from mc import core

_TMP = None


def tmpdir():
    """Per-process scratch directory outside /repo and /verif, removed at exit."""
    global _TMP
    if _TMP is None or not os.path.isdir(_TMP):
        base = os.environ.get('VERIF_TMP') or tempfile.gettempdir()
        _TMP = tempfile.mkdtemp(prefix='taurex_verif_', dir=base)
        atexit.register(shutil.rmtree, _TMP, True)
    return _TMP


def fresh_dir(name):
    d = os.path.join(tmpdir(), name)
    if os.path.isdir(d):
        shutil.rmtree(d)
    os.makedirs(d)
    return d


def rng(*salt):
    """Deterministic generator from (VERIF_SEED, salt)."""
    import zlib
    s = zlib.crc32(repr((core.SEED,) + tuple(salt)).encode()) & 0xffffffff
    return np.random.RandomState(s)


def reset_caches():
    """Re-initialise every process-wide singleton to its construction state."""
    from taurex.cache import OpacityCache, CIACache, GlobalCache
    from taurex.cache.ktablecache import KTableCache
    GlobalCache().init()
    OpacityCache().init()
    CIACache().init()
    KTableCache().init()


# ----------------------------------------------------------------------------------------------
# in-memory opacity tables
# ----------------------------------------------------------------------------------------------
def _tiny_classes():
    from taurex.opacity.interpolateopacity import InterpolatingOpacity
    from taurex.opacity.ktables.ktable import KTable

    class TinyOp(InterpolatingOpacity):
        """In-memory cross-section table: xsec[nP, nT, nW] in cm^2, pressures in Pa."""

        def __init__(self, name, wn, T, P, xsec, mode='linear', keep_dtype=False):
            InterpolatingOpacity.__init__(self, 'tiny:' + name, interpolation_mode=mode)
            self._n = name
            # keep_dtype: the axes stay as they are handed over (an integer np.arange axis, a float32 axis read from a
            # file) instead of being converted to float64
            self._wn = np.array(wn) if keep_dtype else np.array(wn, dtype=float)
            self._T = np.array(T) if keep_dtype else np.array(T, dtype=float)
            self._P = np.array(P) if keep_dtype else np.array(P, dtype=float)
            self._x = np.array(xsec, dtype=float)

        moleculeName = property(lambda s: s._n)
        xsecGrid = property(lambda s: s._x)
        wavenumberGrid = property(lambda s: s._wn)
        temperatureGrid = property(lambda s: s._T)
        pressureGrid = property(lambda s: s._P)
        resolution = property(lambda s: 1.0)

    class TinyK(KTable, TinyOp):
        """In-memory k-table: kcoeff[nP, nT, nW, ng]."""

        def __init__(self, name, wn, T, P, k, weights, mode='linear', keep_dtype=False, stored='pTwg'):
            TinyOp.__init__(self, name, wn, T, P, k, mode, keep_dtype)
            self._w = np.array(weights, dtype=float)
            if stored == 'pTgw':
                # the coefficients are kept in memory in the axis order (P, T, g, wn) of another file convention and
                # exposed as a transposed VIEW of that array: same numbers, same shape, not C-contiguous
                self._x = np.ascontiguousarray(self._x.transpose(0, 1, 3, 2)).transpose(0, 1, 3, 2)

        weights = property(lambda s: s._w)
    return TinyOp, TinyK


_CLS = None


def TinyOp(*a, **k):
    global _CLS
    if _CLS is None:
        _CLS = _tiny_classes()
    return _CLS[0](*a, **k)


def TinyK(*a, **k):
    global _CLS
    if _CLS is None:
        _CLS = _tiny_classes()
    return _CLS[1](*a, **k)


T_GRIDS = {2: [200.0, 2500.0], 3: [200.0, 900.0, 2500.0], 4: [200.0, 500.0, 1300.0, 2500.0]}
P_GRIDS = {2: [1e-2, 1e6], 3: [1e-2, 3e1, 1e6], 4: [1e-2, 1e0, 1e3, 1e6]}     # Pa
WN_GRIDS = {3: [1000.0, 2000.0, 4000.0], 4: [1000.0, 2000.0, 3000.0, 4000.0],
            7: [500.0, 1000.0, 1500.0, 2500.0, 3000.0, 4500.0, 6000.0]}


def table(nP, nT, nW, mag, salt='t', pattern='generic', per_wn=None):
    """Table of shape (nP,nT,nW) in cm^2 with all entries distinct.  mag: central magnitude in
    m^2 (converted: the implementation divides by 1e4); pattern selects the structure;
    per_wn: optional per-wavenumber multipliers (for 'mixed per wavenumber' letters)."""
    r = rng('table', salt, nP, nT, nW, pattern)
    if pattern == 'generic':
        x = 10 ** r.uniform(-0.5, 0.5, size=(nP, nT, nW))
    elif pattern == 'incT':
        x = np.ones((nP, nT, nW)) * (1 + np.arange(nT))[None, :, None] * \
            (1 + 0.1 * np.arange(nP))[:, None, None] * (1 + 0.01 * np.arange(nW))[None, None, :]
    elif pattern == 'decT':
        x = np.ones((nP, nT, nW)) * (1.0 / (1 + np.arange(nT)))[None, :, None] * \
            (1 + 0.1 * np.arange(nP))[:, None, None] * (1 + 0.01 * np.arange(nW))[None, None, :]
    elif pattern == 'saddle':
        i, j, k = np.meshgrid(np.arange(nP), np.arange(nT), np.arange(nW), indexing='ij')
        x = 1.0 + ((i + j) % 2) * 3.0 + 0.01 * k + 0.001 * i + 0.0001 * j
    elif pattern == 'flat':
        x = np.ones((nP, nT, nW))
    elif pattern == 'wide':
        x = 10 ** r.uniform(-20, 0, size=(nP, nT, nW))
    else:
        raise ValueError(pattern)
    x = x * mag * 1e4
    if per_wn is not None:
        x = x * np.asarray(per_wn, dtype=float)[None, None, :]
    return x


# ----------------------------------------------------------------------------------------------
# files on disk
# ----------------------------------------------------------------------------------------------
def write_pickle_xsec(path, name, wn, T, P_pa, xsec_cm2):
    d = {'name': name, 'wno': np.array(wn, float), 't': np.array(T, float),
         'p': np.array(P_pa, float) / 1e5, 'xsecarr': np.array(xsec_cm2, float)}
    with open(path, 'wb') as f:
        pickle.dump(d, f)


def write_pickle_ktable(path, name, wn, T, P_pa, k_cm2, weights, kdtype=float, gorder='asc'):
    """kdtype: the type the coefficients are stored with in the file (files converted from other formats hold float32).
    gorder='desc': the quadrature points are listed from the last abscissa to the first - abscissae (`samples`), weights
    and the g-axis of the coefficients all in that same order, i.e. the same physical table."""
    ng = len(weights)
    samples = np.cumsum(weights) - np.array(weights, float) / 2.0
    if gorder == 'desc':
        weights = np.array(weights, float)[::-1]
        k_cm2 = np.array(k_cm2)[..., ::-1]
        samples = samples[::-1]
    d = {'name': name, 'bin_centers': np.array(wn, float), 'bin_edges': np.array(wn, float),
         'ngauss': ng, 't': np.array(T, float), 'p': np.array(P_pa, float) / 1e5,
         'kcoeff': np.array(k_cm2, dtype=kdtype), 'weights': np.array(weights, float),
         'samples': np.array(samples, float), 'resolution': 1.0, 'method': 'verif'}
    with open(path, 'wb') as f:
        pickle.dump(d, f)


# ----------------------------------------------------------------------------------------------
# in-memory CIA
# ----------------------------------------------------------------------------------------------
_CIA = None


def TinyCIA(pair, wn, T, xsec):
    """In-memory collision-induced absorption table xsec[nT, nW] (m^5): linear in T between
    nodes, zero outside the temperature grid (the documented rule for CIA objects)."""
    global _CIA
    if _CIA is None:
        from taurex.cia.cia import CIA

        class _TinyCIA(CIA):
            def __init__(self, pair, wn, T, xsec):
                CIA.__init__(self, 'tinycia:' + pair, pair)
                self._wn = np.array(wn, float)
                self._T = np.array(T, float)
                self._x = np.array(xsec, float)

            wavenumberGrid = property(lambda s: s._wn)
            temperatureGrid = property(lambda s: s._T)

            def compute_cia(self, temperature):
                if temperature < self._T[0] or temperature > self._T[-1]:
                    return np.zeros_like(self._wn)
                return np.array([np.interp(temperature, self._T, self._x[:, i])
                                 for i in range(len(self._wn))])
        _CIA = _TinyCIA
    return _CIA(pair, wn, T, xsec)


def cia_ref(xsec, Tg, T):
    """Reference for TinyCIA: linear in T, zero outside."""
    Tg = np.asarray(Tg, float)
    x = np.asarray(xsec, float)
    if T < Tg[0] or T > Tg[-1]:
        return np.zeros(x.shape[1])
    hi = 1
    while hi < len(Tg) - 1 and Tg[hi] < T:
        hi += 1
    f = (T - Tg[hi - 1]) / (Tg[hi] - Tg[hi - 1])
    return x[hi - 1] + f * (x[hi] - x[hi - 1])


# ----------------------------------------------------------------------------------------------
# tiny forward models
# ----------------------------------------------------------------------------------------------
def gas_profile(mol, prof):
    """prof: ('const', x) | ('array', [..])"""
    if prof[0] == 'const':
        from taurex.data.profiles.chemistry import ConstantGas
        return ConstantGas(mol, mix_ratio=prof[1])
    if prof[0] == 'array':
        from taurex.data.profiles.chemistry.gas.arraygas import ArrayGas
        return ArrayGas(mol, mix_ratio_array=list(prof[1]))
    raise ValueError(prof)


def temp_profile(spec, N):
    """spec: ('iso', T) | ('array', [T_0..]) (interpolated by TemperatureArray if len != N)
    | named letters 'dec', 'inc', 'nonmono', 'hot1'"""
    from taurex.data.profiles.temperature import Isothermal
    from taurex.data.profiles.temperature.temparray import TemperatureArray
    if spec[0] == 'iso':
        return Isothermal(T=float(spec[1]))
    if spec[0] == 'array':
        return TemperatureArray(tp_array=list(spec[1]))
    if spec[0] == 'npoint':
        # three-node profile, no smoothing: the interior node sits between the two topmost layer pressures when
        # spec[1] is given as that pressure, so that T_top moves the top layer alone and T_surface the lowest layers
        from taurex.data.profiles.temperature import NPoint
        kw = dict(T_surface=1600.0, T_top=700.0, temperature_points=[1000.0], pressure_points=[float(spec[1])],
                  smoothing_window=0)
        kw.update(spec[2] if len(spec) > 2 else {})
        return NPoint(**kw)
    name = spec[0]
    if name == 'dec':
        arr = np.linspace(1800.0, 600.0, N)
    elif name == 'inc':
        arr = np.linspace(500.0, 2100.0, N)
    elif name == 'nonmono':
        arr = np.array([1500.0, 700.0, 1900.0, 400.0, 1100.0, 2300.0, 900.0] * 20)[:N]
    elif name == 'hot1':
        arr = np.full(N, 700.0)
        arr[N // 2] = 2200.0
    elif name == 'steps':            # adjacent layers pairwise at exactly the same temperature
        arr = np.repeat(np.linspace(1700.0, 500.0, (N + 1) // 2), 2)[:N]
    elif name == 'aba':              # the same temperature below and above a warmer middle (equal values NOT adjacent)
        arr = np.full(N, 1000.0)
        arr[N // 2] = 1500.0
    elif name == 'grad-iso':         # a hot gradient at depth under an exactly isothermal upper atmosphere
        k = max(N // 2, 1)
        arr = np.concatenate([np.linspace(2200.0, 1400.0, k), np.full(N - k, 1000.0)])[:N]
    elif name == 'outside':          # partly outside the 200..2500 K table range
        arr = np.linspace(3000.0, 150.0, N)
    else:
        raise ValueError(spec)
    return TemperatureArray(tp_array=[float(a) for a in arr])


def build_model(spec):
    """Build a fresh forward model from a JSON-able spec (see mc/checks/c01.py for the keys).
    Opacities must have been registered with the caches before model() is called."""
    from taurex.data import Planet
    from taurex.data.stellar import BlackbodyStar
    from taurex.data.profiles.chemistry import TaurexChemistry
    from taurex.model import TransmissionModel, EmissionModel, DirectImageModel
    N = spec['N']
    pmax, pmin = spec.get('prange', (1e6, 1e-1))
    pr, pm = spec.get('planet', (1.0, 1.0))
    sr, st = spec.get('star', (1.0, 5000.0))
    planet = Planet(planet_mass=pm, planet_radius=pr)
    star = BlackbodyStar(temperature=st, radius=sr, distance=spec.get('distance', 1.0))
    fill, ratio = spec.get('fill', (['H2', 'He'], 0.17))
    if spec.get('chemfile') is not None:
        # a tabulated composition (one column per gas, one row per layer) that lists only part of the atmosphere: the
        # columns do not add up to one
        from taurex.data.profiles.chemistry import ChemistryFile
        cf = spec['chemfile']
        fn = os.path.join(fresh_dir('chemfile'), 'mix.txt')
        np.savetxt(fn, np.tile(np.array(cf['values'], dtype=float), (N, 1)))
        chem = ChemistryFile(gases=list(cf['gases']), filename=fn)
    else:
        chem = TaurexChemistry(fill_gases=list(fill), ratio=ratio)
        for mol, prof in spec.get('gases', []):
            chem.addGas(gas_profile(mol, prof))
    kw = dict(planet=planet, star=star, chemistry=chem, nlayers=N, atm_min_pressure=pmin,
              atm_max_pressure=pmax, temperature_profile=temp_profile(spec.get('T', ('iso', 1000.0)), N))
    if spec.get('parray') is not None:
        # tabulated layer pressures (surface first), handed over exactly as given (an integer array stays one)
        from taurex.data.profiles.pressure.arraypressure import ArrayPressureProfile
        kw = dict(planet=planet, star=star, chemistry=chem, pressure_profile=ArrayPressureProfile(spec['parray']),
                  temperature_profile=temp_profile(spec.get('T', ('iso', 1000.0)), N))
    kind = spec.get('kind', 'transmission')
    if kind == 'transmission':
        m = TransmissionModel(new_path_method=(spec.get('path', 'old') == 'new'), **kw)
    elif kind == 'emission':
        m = EmissionModel(ngauss=spec.get('ngauss', 4), **kw)
    elif kind == 'directimage':
        m = DirectImageModel(ngauss=spec.get('ngauss', 4), **kw)
    else:
        raise ValueError(kind)
    for c in spec.get('contribs', ['abs']):
        m.add_contribution(make_contrib(c))
    m.build()
    return m


def make_contrib(c):
    """c: 'abs' | 'ray' | ['cia', [pairs](, 'ctor'|'append'|'setter')] | ['clouds', P] | ['flat', {kw}] | ['lee', {kw}] | 'hm'"""
    from taurex import contributions as C
    if c == 'abs':
        return C.AbsorptionContribution()
    if c == 'ray':
        return C.RayleighContribution()
    if c == 'hm':
        return C.HydrogenIon()
    if isinstance(c, (list, tuple)):
        if c[0] == 'cia':
            via = c[2] if len(c) > 2 else 'ctor'
            if via == 'append':         # default-constructed, pairs appended to the public list one by one
                k = C.CIAContribution()
                for pair in c[1]:
                    k.ciaPairs.append(pair)
                return k
            if via == 'setter':
                k = C.CIAContribution()
                k.ciaPairs = list(c[1])
                return k
            return C.CIAContribution(cia_pairs=list(c[1]))
        if c[0] == 'clouds':
            return C.SimpleCloudsContribution(clouds_pressure=c[1])
        if c[0] == 'flat':
            return C.FlatMieContribution(**c[1])
        if c[0] == 'lee':
            return C.LeeMieContribution(**c[1])
    raise ValueError(c)


def install_ktables(tabs, weights, wn, Tg, Pg, mode='linear', dirname='ktables'):
    """Write pickle k-table files (one per molecule; kcoeff[nP,nT,nW,ng] in cm^2) into a fresh
    directory and switch the process to correlated-k mode through the real discovery path."""
    from taurex.cache import GlobalCache
    from taurex.cache.ktablecache import KTableCache
    d = fresh_dir(dirname)
    for mol, k in tabs.items():
        write_pickle_ktable(os.path.join(d, '%s.pickle' % mol), mol, wn, Tg, Pg, k, weights)
    GlobalCache()['xsec_interpolation'] = mode
    GlobalCache()['opacity_method'] = 'ktables'
    KTableCache().set_ktable_path(d)
    KTableCache().clear_cache()
    return d


class debug_logging(object):
    """Inside the block the code under test runs at log level DEBUG, as under `taurex -g` (what it writes goes to a
    null handler); afterwards the process is quiet again."""

    def __enter__(self):
        import logging
        from taurex.log.logger import root_logger
        self._handlers = list(root_logger.handlers)
        root_logger.handlers = [logging.NullHandler()]
        logging.disable(logging.NOTSET)
        root_logger.setLevel(logging.DEBUG)
        return self

    def __exit__(self, *exc):
        import logging
        from taurex.log.logger import root_logger
        root_logger.setLevel(logging.ERROR)
        root_logger.handlers = self._handlers
        logging.disable(logging.CRITICAL)
        return False
