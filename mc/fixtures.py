"""Tiny atmospheres, opacity tables and observations (DESIGN.md 2.9).

Everything here builds *fresh real TauREx objects*; process-wide singletons are reset by
reset_caches() at the start of every case.
"""
import os
import pickle
import shutil
import tempfile
import atexit

import numpy as np

from mc import core

_TMP = None


def tmpdir():
    """Per-process scratch directory outside /repo and /verif, removed at exit."""
    global _TMP
    if _TMP is None or not os.path.isdir(_TMP):
        base = os.environ.get('VERIF_TMP') or tempfile.gettempdir()
        _TMP = tempfile.mkdtemp(prefix='taurex_verif_', dir=base)
        atexit.register(shutil.rmtree, _TMP, True)
    return _TMP


def fresh_dir(name):
    d = os.path.join(tmpdir(), name)
    if os.path.isdir(d):
        shutil.rmtree(d)
    os.makedirs(d)
    return d


def rng(*salt):
    """Deterministic generator from (VERIF_SEED, salt)."""
    import zlib
    s = zlib.crc32(repr((core.SEED,) + tuple(salt)).encode()) & 0xffffffff
    return np.random.RandomState(s)


def reset_caches():
    """Re-initialise every process-wide singleton to its construction state."""
    from taurex.cache import OpacityCache, CIACache, GlobalCache
    from taurex.cache.ktablecache import KTableCache
    GlobalCache().init()
    OpacityCache().init()
    CIACache().init()
    KTableCache().init()


# ----------------------------------------------------------------------------------------------
# in-memory opacity tables
# ----------------------------------------------------------------------------------------------
def _tiny_classes():
    from taurex.opacity.interpolateopacity import InterpolatingOpacity
    from taurex.opacity.ktables.ktable import KTable

    class TinyOp(InterpolatingOpacity):
        """In-memory cross-section table: xsec[nP, nT, nW] in cm^2, pressures in Pa."""

        def __init__(self, name, wn, T, P, xsec, mode='linear'):
            InterpolatingOpacity.__init__(self, 'tiny:' + name, interpolation_mode=mode)
            self._n = name
            self._wn = np.array(wn, dtype=float)
            self._T = np.array(T, dtype=float)
            self._P = np.array(P, dtype=float)
            self._x = np.array(xsec, dtype=float)

        moleculeName = property(lambda s: s._n)
        xsecGrid = property(lambda s: s._x)
        wavenumberGrid = property(lambda s: s._wn)
        temperatureGrid = property(lambda s: s._T)
        pressureGrid = property(lambda s: s._P)
        resolution = property(lambda s: 1.0)

    class TinyK(KTable, TinyOp):
        """In-memory k-table: kcoeff[nP, nT, nW, ng]."""

        def __init__(self, name, wn, T, P, k, weights, mode='linear'):
            TinyOp.__init__(self, name, wn, T, P, k, mode)
            self._w = np.array(weights, dtype=float)

        weights = property(lambda s: s._w)
    return TinyOp, TinyK


_CLS = None


def TinyOp(*a, **k):
    global _CLS
    if _CLS is None:
        _CLS = _tiny_classes()
    return _CLS[0](*a, **k)


def TinyK(*a, **k):
    global _CLS
    if _CLS is None:
        _CLS = _tiny_classes()
    return _CLS[1](*a, **k)


T_GRIDS = {2: [200.0, 2500.0], 3: [200.0, 900.0, 2500.0], 4: [200.0, 500.0, 1300.0, 2500.0]}
P_GRIDS = {2: [1e-2, 1e6], 3: [1e-2, 3e1, 1e6], 4: [1e-2, 1e0, 1e3, 1e6]}     # Pa
WN_GRIDS = {3: [1000.0, 2000.0, 4000.0], 4: [1000.0, 2000.0, 3000.0, 4000.0],
            7: [500.0, 1000.0, 1500.0, 2500.0, 3000.0, 4500.0, 6000.0]}


def table(nP, nT, nW, mag, salt='t', pattern='generic', per_wn=None):
    """Table of shape (nP,nT,nW) in cm^2 with all entries distinct.  mag: central magnitude in
    m^2 (converted: the implementation divides by 1e4); pattern selects the structure;
    per_wn: optional per-wavenumber multipliers (for 'mixed per wavenumber' letters)."""
    r = rng('table', salt, nP, nT, nW, pattern)
    if pattern == 'generic':
        x = 10 ** r.uniform(-0.5, 0.5, size=(nP, nT, nW))
    elif pattern == 'incT':
        x = np.ones((nP, nT, nW)) * (1 + np.arange(nT))[None, :, None] * \
            (1 + 0.1 * np.arange(nP))[:, None, None] * (1 + 0.01 * np.arange(nW))[None, None, :]
    elif pattern == 'decT':
        x = np.ones((nP, nT, nW)) * (1.0 / (1 + np.arange(nT)))[None, :, None] * \
            (1 + 0.1 * np.arange(nP))[:, None, None] * (1 + 0.01 * np.arange(nW))[None, None, :]
    elif pattern == 'saddle':
        i, j, k = np.meshgrid(np.arange(nP), np.arange(nT), np.arange(nW), indexing='ij')
        x = 1.0 + ((i + j) % 2) * 3.0 + 0.01 * k + 0.001 * i + 0.0001 * j
    elif pattern == 'flat':
        x = np.ones((nP, nT, nW))
    elif pattern == 'wide':
        x = 10 ** r.uniform(-20, 0, size=(nP, nT, nW))
    else:
        raise ValueError(pattern)
    x = x * mag * 1e4
    if per_wn is not None:
        x = x * np.asarray(per_wn, dtype=float)[None, None, :]
    return x


# ----------------------------------------------------------------------------------------------
# files on disk
# ----------------------------------------------------------------------------------------------
def write_pickle_xsec(path, name, wn, T, P_pa, xsec_cm2):
    d = {'name': name, 'wno': np.array(wn, float), 't': np.array(T, float),
         'p': np.array(P_pa, float) / 1e5, 'xsecarr': np.array(xsec_cm2, float)}
    with open(path, 'wb') as f:
        pickle.dump(d, f)


def write_pickle_ktable(path, name, wn, T, P_pa, k_cm2, weights):
    ng = len(weights)
    d = {'name': name, 'bin_centers': np.array(wn, float), 'bin_edges': np.array(wn, float),
         'ngauss': ng, 't': np.array(T, float), 'p': np.array(P_pa, float) / 1e5,
         'kcoeff': np.array(k_cm2, float), 'weights': np.array(weights, float),
         'samples': np.cumsum(weights), 'resolution': 1.0, 'method': 'verif'}
    with open(path, 'wb') as f:
        pickle.dump(d, f)
