"""Shared machinery of the bounded exhaustive explorer (DESIGN.md section 2).

A *check module* (mc/checks/cNN.py) exposes

    ID        : 'Cnn'
    RULE      : str  - how cases are enumerated and what makes one non-trivial
    ASSUME    : [str]
    explore(ctx)     - enumerates the bounded space; calls ctx.run_cases(fn_name, cases)
                       (E1, product spaces) and/or ctx.bfs(...) (E2, histories)

and top-level *case functions*  fn(case) -> mc.core.R  which build fresh real objects, call the
implementation, and compare with the oracle.  Case functions must be deterministic functions of
(case, SEED); they are executed in worker processes and again, twice, in the parent for every
violation (nondeterminism of a violating case is a harness error, exit 2).
"""
import hashlib
import importlib
import itertools
import json
import math
import os
import sys
import time
import traceback

import numpy as np

VERIF = os.path.dirname(os.path.dirname(os.path.abspath(__file__)))
SEED = int(os.environ.get('VERIF_SEED', '0') or 0)
RTOL = 1e-9


# ----------------------------------------------------------------------------------------------
# case results
# ----------------------------------------------------------------------------------------------
def jsonable(x):
    if isinstance(x, dict):
        return {str(k): jsonable(v) for k, v in x.items()}
    if isinstance(x, (list, tuple)):
        return [jsonable(v) for v in x]
    if isinstance(x, np.ndarray):
        return jsonable(x.tolist())
    if isinstance(x, (np.floating,)):
        return jsonable(float(x))
    if isinstance(x, (np.integer,)):
        return int(x)
    if isinstance(x, (np.bool_,)):
        return bool(x)
    if isinstance(x, float):
        if math.isnan(x):
            return 'nan'
        if math.isinf(x):
            return 'inf' if x > 0 else '-inf'
        return x
    if isinstance(x, (int, str, bool)) or x is None:
        return x
    if isinstance(x, bytes):
        return x.decode('latin1')
    return repr(x)


def ohash(*objs):
    """Canonical hash of an observed output (floats rounded to 10 significant digits)."""
    h = hashlib.sha1()

    def feed(o):
        if isinstance(o, np.ndarray):
            if o.dtype.kind in 'fc':
                with np.errstate(all='ignore'):
                    a = np.asarray(o, dtype=float)
                    feed(str(a.shape))
                    for v in a.ravel():
                        h.update(('%.9e' % v).encode())
            else:
                feed(o.tolist())
        elif isinstance(o, (float, np.floating)):
            h.update(('%.9e' % float(o)).encode())
        elif isinstance(o, (list, tuple)):
            h.update(b'[')
            for v in o:
                feed(v)
            h.update(b']')
        elif isinstance(o, dict):
            for k in sorted(o, key=str):
                feed(str(k))
                feed(o[k])
        else:
            h.update(repr(o).encode())
    for o in objs:
        feed(o)
    return h.hexdigest()[:16]


def close(a, b, rtol=RTOL, atol=0.0):
    """Element-wise |a-b| <= rtol*max(|a|,|b|)+atol, NaN never close, equal infinities close."""
    a = np.asarray(a, dtype=float)
    b = np.asarray(b, dtype=float)
    if a.shape != b.shape:
        try:
            a, b = np.broadcast_arrays(a, b)
        except ValueError:
            return False
    with np.errstate(all='ignore'):
        same_inf = np.isinf(a) & np.isinf(b) & (np.sign(a) == np.sign(b))
        ok = np.abs(a - b) <= rtol * np.maximum(np.abs(a), np.abs(b)) + atol
    return bool(np.all(ok | same_inf))


def maxrel(a, b):
    a = np.asarray(a, dtype=float)
    b = np.asarray(b, dtype=float)
    with np.errstate(all='ignore'):
        d = np.abs(a - b) / np.maximum(np.maximum(np.abs(a), np.abs(b)), 1e-300)
    if d.size == 0:
        return 0.0
    return float(np.nanmax(d)) if not np.all(np.isnan(d)) else float('nan')


class R(object):
    """Result of one case: oracle comparisons made, violations, observed outcome."""

    def __init__(self, case=None):
        self.case = case
        self.checks = 0          # oracle comparisons (-> transitions)
        self.violations = []     # dicts {sub, sig, detail}
        self.outcome = None      # hash of the observed output
        self.nontrivial = False
        self.counters = {}
        self.key = None          # E2: canonical state key
        self.extra = None        # E2: anything the parent needs (small, picklable)

    def count(self, name, n=1):
        self.counters[name] = self.counters.get(name, 0) + n

    def fail(self, sub, sig, **detail):
        self.violations.append({'sub': sub, 'sig': sig, 'detail': jsonable(detail)})

    def check(self, cond, sub, sig=None, **detail):
        self.checks += 1
        self.count(sub)
        if not cond:
            self.fail(sub, sig or sub, **detail)
        return bool(cond)

    def eq(self, got, want, sub, sig=None, rtol=RTOL, atol=0.0, **detail):
        rtol = max(rtol, getattr(self, 'rtol_floor', 0.0))      # a case whose inputs are single-precision numbers
        ok = False
        try:
            ok = close(got, want, rtol, atol)
        except Exception:
            ok = False
        if not ok:
            detail = dict(detail)
            detail.update(got=got, want=want, maxrel=maxrel_safe(got, want), rtol=rtol, atol=atol)
        return self.check(ok, sub, sig, **detail)

    def observe(self, *objs):
        self.outcome = ohash(self.outcome, *objs)


def maxrel_safe(a, b):
    try:
        return maxrel(a, b)
    except Exception:
        return None


def raises(fn, *exc):
    """Returns the exception instance if fn() raises one of exc, None if it returns,
    re-raises anything else."""
    try:
        fn()
    except exc as e:
        return e
    return None


# ----------------------------------------------------------------------------------------------
# product-space enumeration with deviation bounds (engine E1)
# ----------------------------------------------------------------------------------------------
def product_cases(dims, core=(), d=2, full=False, cap=None):
    """dims: ordered dict name -> list of letters (first = default).  Returns the list of
    cases (dicts name->letter index... here: name->letter) consisting of
      * the full cartesian product over the `core` dimensions (others at default), and
      * every case with <= d deviations from the all-default case,
    or the full product when full=True.  Order: by number of deviations, then lexicographic in
    letter index (simplest first)."""
    names = list(dims)
    sizes = [len(dims[n]) for n in names]
    seen = set()
    out = []

    def add(idx):
        if idx not in seen:
            seen.add(idx)
            out.append(idx)
    if full:
        for idx in itertools.product(*[range(s) for s in sizes]):
            add(idx)
    else:
        for k in range(0, d + 1):
            for pos in itertools.combinations(range(len(names)), k):
                for letters in itertools.product(*[range(1, sizes[p]) for p in pos]):
                    idx = [0] * len(names)
                    for p, l in zip(pos, letters):
                        idx[p] = l
                    add(tuple(idx))
        cpos = [names.index(c) for c in core]
        for letters in itertools.product(*[range(sizes[p]) for p in cpos]):
            idx = [0] * len(names)
            for p, l in zip(cpos, letters):
                idx[p] = l
            add(tuple(idx))
    out.sort(key=lambda idx: (sum(1 for i in idx if i), idx))
    if cap is not None and len(out) > cap:
        out = out[:cap]
    return [dict((n, dims[n][i]) for n, i in zip(names, idx)) for idx in out]


def n_dev(dims, case):
    return sum(1 for n in dims if case[n] != dims[n][0])


# ----------------------------------------------------------------------------------------------
# worker side
# ----------------------------------------------------------------------------------------------
_MOD = None


def _quiet():
    import warnings
    warnings.simplefilter('ignore')
    try:
        from taurex.log import disableLogging
        disableLogging()
    except Exception:
        pass
    import logging
    logging.disable(logging.CRITICAL)


def _worker_init(modname, seed, repo):
    global _MOD, SEED
    if repo and repo not in sys.path[:1]:
        sys.path.insert(0, repo)
    os.environ['VERIF_SEED'] = str(seed)
    SEED = seed
    _quiet()
    _MOD = importlib.import_module(modname)


def call_case(mod, fn_name, case):
    """Run one case function; an exception escaping it is a harness error unless the case
    function converts it (case functions catch what the property allows to be raised)."""
    import random
    random.seed(SEED)
    np.random.seed(SEED % (2 ** 32))
    fn = getattr(mod, fn_name)
    try:
        r = fn(case)
    except Exception as e:
        # an exception escaping a case function: if the innermost frames are in the code under
        # test, the implementation raised where the property demands a value (violation);
        # otherwise it is a bug of the harness itself.
        r = R(case)
        where = None
        for fs in reversed(traceback.extract_tb(e.__traceback__)):
            fn_ = fs.filename.replace('\\', '/')
            if '/taurex/' in fn_ and '/verif/' not in fn_:
                where = '%s:%s' % (fn_.split('/taurex/', 1)[1], fs.name)
                break
        if where is not None:
            r.fail('no-exception', 'raised/%s@%s' % (type(e).__name__, where),
                   exc=repr(e), tb=traceback.format_exc()[-2000:])
        else:
            r.fail('harness', 'harness/exception/%s' % type(e).__name__,
                   exc=repr(e), tb=traceback.format_exc()[-2000:])
    if r.case is None:
        r.case = case
    return r


def _worker_chunk(args):
    fn_name, chunk = args
    out = []
    for i, case in chunk:
        r = call_case(_MOD, fn_name, case)
        out.append((i, pack(r)))
    return out


def _isolated_job(args):
    fn_name, case, times = args
    out = []
    for _ in range(times):
        r = call_case(_MOD, fn_name, case)
        out.append([v['sig'] for v in r.violations])
    return out


def _sequence_job(args):
    fn_name, cases = args
    r = None
    for case in cases:
        r = call_case(_MOD, fn_name, case)
    return [v['sig'] for v in r.violations]


def isolated_sequence(modname, seed, repo, fn_name, cases):
    """The cases one after the other in ONE fresh worker process; ('ok', signatures of the LAST case) or ('died', None)."""
    import multiprocessing as mp
    from concurrent.futures import ProcessPoolExecutor
    from concurrent.futures.process import BrokenProcessPool
    ex = ProcessPoolExecutor(1, mp_context=mp.get_context('spawn'), initializer=_worker_init,
                             initargs=(modname, seed, repo))
    try:
        return 'ok', ex.submit(_sequence_job, (fn_name, list(cases))).result()
    except BrokenProcessPool:
        return 'died', None
    finally:
        ex.shutdown(wait=False, cancel_futures=True)


def isolated_calls_many(modname, seed, repo, jobs, times=2, parallel=6):
    """isolated_calls for a list of (fn_name, case), several fresh processes at a time (one process per job)."""
    from concurrent.futures import ThreadPoolExecutor
    if not jobs:
        return []
    with ThreadPoolExecutor(max(1, min(parallel, len(jobs)))) as tp:
        return list(tp.map(lambda j: isolated_calls(modname, seed, repo, j[0], j[1], times), jobs))


def isolated_calls(modname, seed, repo, fn_name, case, times=2):
    """The case function `times` times in ONE fresh worker process: ('ok', [[signatures] per call]) or ('died', None)
    when the process does not survive (a crash inside compiled code of the implementation)."""
    import multiprocessing as mp
    from concurrent.futures import ProcessPoolExecutor
    from concurrent.futures.process import BrokenProcessPool
    ex = ProcessPoolExecutor(1, mp_context=mp.get_context('spawn'), initializer=_worker_init,
                             initargs=(modname, seed, repo))
    try:
        return 'ok', ex.submit(_isolated_job, (fn_name, case, times)).result()
    except BrokenProcessPool:
        return 'died', None
    finally:
        ex.shutdown(wait=False, cancel_futures=True)


def pack(r):
    return {'checks': r.checks, 'violations': r.violations, 'outcome': r.outcome,
            'nontrivial': r.nontrivial, 'counters': r.counters, 'key': r.key, 'extra': r.extra}


# ----------------------------------------------------------------------------------------------
# context (parent side)
# ----------------------------------------------------------------------------------------------
class Ctx(object):
    def __init__(self, mod, tier, seed, workers, repo):
        self.mod = mod
        self.modname = mod.__name__
        self.prop = mod.ID
        self.tier = tier
        self.seed = seed
        self.workers = workers
        self.repo = repo
        self.t0 = time.time()
        self.evaluations = 0
        self.transitions = 0
        self.state_keys = set()
        self.outcomes = set()
        self.nontrivial = set()
        self.counters = {}
        self.samples = []
        self.caps = []
        self.bounds = {}
        self.exhaustive = True
        self.viol = {}          # sig -> {first: {...}, count}
        self.traces = 0
        self._pool = None
        self.notes = []

    # -- pool ----------------------------------------------------------------------------
    def pool(self):
        if self._pool is None and self.workers > 1:
            import multiprocessing as mp
            from concurrent.futures import ProcessPoolExecutor
            # an executor (not multiprocessing.Pool): the death of a worker process - a crash inside compiled code of
            # the implementation - is reported (BrokenProcessPool) instead of leaving the run waiting for ever
            self._pool = ProcessPoolExecutor(self.workers, mp_context=mp.get_context('spawn'), initializer=_worker_init,
                                             initargs=(self.modname, self.seed, self.repo))
        return self._pool

    def close(self):
        if self._pool is not None:
            try:
                self._pool.shutdown(wait=False, cancel_futures=True)
            except Exception:
                pass
            self._pool = None

    def _run_chunks(self, fn_name, chunks, results):
        """All chunks through the worker processes.  When a worker dies the pool is rebuilt and the chunks that were lost
        with it are run again, split in two once they have been lost twice; a single case that kills its process is a
        violation ('crash/worker-process-died')."""
        from concurrent.futures import as_completed
        from concurrent.futures.process import BrokenProcessPool
        queue = [(c, 0) for c in chunks]
        breaks = 0
        while queue:
            ex = self.pool()
            futs = {}
            for c, lost in queue:
                futs[ex.submit(_worker_chunk, (fn_name, c))] = (c, lost)
            queue = []
            broken = False
            for f in as_completed(futs):
                c, lost = futs[f]
                try:
                    out = f.result()
                except BrokenProcessPool:
                    broken = True
                    if len(c) == 1 and lost >= 1:
                        i, case = c[0]
                        results[i] = {'checks': 1, 'violations': [{'sub': 'no-crash', 'sig': 'crash/worker-process-died/%s' % fn_name,
                                                                     'detail': {'case': jsonable(case)}}],
                                      'outcome': None, 'nontrivial': False, 'counters': {}, 'key': None, 'extra': None}
                    elif lost >= 1 and len(c) > 1:
                        h = len(c) // 2
                        queue += [(c[:h], lost), (c[h:], lost)]
                    else:
                        queue.append((c, lost + 1))
                    continue
                for i, p in out:
                    results[i] = p
            if broken:
                breaks += 1
                self.close()
                self.counters['worker-process-deaths'] = self.counters.get('worker-process-deaths', 0) + 1
                if breaks > 40:
                    for c, lost in queue:
                        for i, case in c:
                            results[i] = {'checks': 1, 'violations': [{'sub': 'no-crash',
                                                                         'sig': 'crash/worker-process-died/%s' % fn_name,
                                                                         'detail': {'case': jsonable(case), 'unresolved': True}}],
                                          'outcome': None, 'nontrivial': False, 'counters': {}, 'key': None, 'extra': None}
                    self.exhaustive = False
                    self.notes.append('more than 40 worker deaths in %s: remaining cases not run' % fn_name)
                    return

    # -- E1 ------------------------------------------------------------------------------
    def run_cases(self, fn_name, cases, phase=None, chunk=None, serial=False, state_of=None):
        """Evaluate fn_name on every case (in worker processes when worthwhile).  Returns the
        list of packed results in case order."""
        cases = list(cases)
        n = len(cases)
        if n == 0:
            return []
        indexed = list(enumerate(cases))
        results = [None] * n
        prefix_of = {}      # case index -> (its chunk, position): the cases one worker ran immediately before it
        if self.workers <= 1:
            for i, case in indexed:
                results[i] = pack(call_case(self.mod, fn_name, case))
        else:
            # never in this (the reporting) process: a crash inside compiled code of the implementation must not take
            # the report with it.  serial: one chunk, in order, in one worker.
            if serial:
                chunk = n
            elif chunk is None:
                chunk = max(1, min(256, n // (self.workers * 8) or 1))
            chunks = [indexed[k:k + chunk] for k in range(0, n, chunk)]
            self._run_chunks(fn_name, chunks, results)
            for c_ in chunks:
                for pos_, (i_, _) in enumerate(c_):
                    prefix_of[i_] = (c_, pos_)
        tag = phase or fn_name
        for i, p in enumerate(results):
            self.evaluations += 1
            self.transitions += p['checks']
            self.traces += 1
            if state_of == 'bfs':
                key = ohash(tag, p['key']) if p['key'] is not None else None
            else:
                key = state_of(cases[i]) if state_of else ohash(tag, jsonable(cases[i]))
            if key is not None:
                self.state_keys.add(key)
            if p['outcome'] is not None:
                self.outcomes.add(p['outcome'])
            if p['nontrivial'] and key is not None:
                self.nontrivial.add(key)
            for k, v in p['counters'].items():
                self.counters[tag + '.' + k if phase else k] = \
                    self.counters.get(tag + '.' + k if phase else k, 0) + v
            for v in p['violations']:
                first = v['sig'] not in self.viol
                self._violation(fn_name, cases[i], v)
                if first and i in prefix_of:
                    c_, pos_ = prefix_of[i]
                    self.viol[v['sig']]['prefix'] = [cs for _, cs in c_[:pos_]]
        # samples: first, middle, last
        for j in sorted(set([0, n // 2, n - 1])):
            if len(self.samples) < 12:
                self.samples.append({'fn': fn_name, 'case': jsonable(cases[j])})
        return results

    def _violation(self, fn_name, case, v):
        sig = v['sig']
        e = self.viol.get(sig)
        if e is None:
            self.viol[sig] = {'fn': fn_name, 'case': case, 'sub': v['sub'], 'sig': sig,
                              'detail': v['detail'], 'count': 1, 'alts': []}
        else:
            e['count'] += 1
            # further exemplars of the same signature (the smallest and the latest seen): when the first one turns out to
            # depend on what ran before it in its worker, one of these may still fail on its own
            cand = {'fn': fn_name, 'case': case, 'detail': v['detail'], 'size': len(json.dumps(jsonable(case)))}
            alts = e['alts']
            if not alts:
                alts.append(cand)
            elif cand['size'] < alts[0]['size']:
                alts[0] = cand
            elif len(alts) < 2:
                alts.append(cand)
            else:
                alts[1] = cand

    # -- E2 ------------------------------------------------------------------------------
    def bfs(self, fn_name, roots, ops_of, depth, phase=None, max_states=None):
        """Level-synchronous explicit-state search.  A state is represented by the operation
        history that reaches it (fresh real objects are built and the history is replayed by
        the case function `fn_name(case={'hist': [...]} )`, which returns R with r.key = the
        canonical state key and r.extra = whatever ops_of needs).  ops_of(hist, extra) lists the
        operations enabled in that state.  Every (state, op) transition is executed on the real
        code; states with equal keys are merged."""
        seen = {}
        frontier = []
        res = self.run_cases(fn_name, [{'hist': list(h)} for h in roots], phase=phase,
                             state_of='bfs')
        for h, p in zip(roots, res):
            if p['key'] not in seen:
                seen[p['key']] = list(h)
                frontier.append((list(h), p['extra']))
        ntrans = 0
        completed = 0
        for level in range(1, depth + 1):
            cand = []
            for h, extra in frontier:
                for op in ops_of(h, extra):
                    cand.append(h + [op])
            if not cand:
                completed = level
                break
            res = self.run_cases(fn_name, [{'hist': h} for h in cand], phase=phase,
                                 state_of='bfs')
            ntrans += len(cand)
            frontier = []
            for h, p in zip(cand, res):
                k = p['key']
                if k is None:
                    continue
                if k not in seen:
                    seen[k] = h
                    frontier.append((h, p['extra']))
            completed = level
            if max_states is not None and len(seen) > max_states:
                self.caps.append('bfs %s: state cap %d hit at depth %d' % (phase or fn_name, max_states, level))
                self.exhaustive = False
                break
        self.bounds[(phase or fn_name) + '.depth'] = completed
        self.counters[(phase or fn_name) + '.bfs_states'] = len(seen)
        self.counters[(phase or fn_name) + '.bfs_transitions'] = ntrans
        return seen


# ----------------------------------------------------------------------------------------------
# known findings
# ----------------------------------------------------------------------------------------------
def load_known():
    p = os.path.join(VERIF, 'known_findings.json')
    if not os.path.exists(p):
        return []
    with open(p) as f:
        return json.load(f).get('findings', [])


def known_for(prop, sig, known):
    for k in known:
        if k.get('property') == prop and k.get('status') == 'known' and k.get('signature') == sig:
            return k
    return None
