"""History phase shared by the forward-model checks (C01, C02, C19, C20): the same live model object
is driven through every sequence of parameter updates (through the public fitting-parameter
setters) up to a depth bound, evaluated after every update, and compared with a FRESH model on
which only the net settings were applied once (differential oracle, DESIGN 2.2).  Histories are
not merged: a stale buffer or cache is hidden state that a key built from the settings cannot see,
so every history is executed (stateless enumeration)."""
import itertools
import numpy as np

from mc import core, fixtures as fx


def histories(alphabet, depth, reduced=None, reduced_depth=0):
    """alphabet: list of [name, value].  All sequences of length 1..depth over the alphabet, plus all
    sequences of length depth+1..reduced_depth over the `reduced` sub-alphabet."""
    out = []
    for d in range(1, depth + 1):
        out += [list(h) for h in itertools.product(alphabet, repeat=d)]
    if reduced:
        for d in range(depth + 1, reduced_depth + 1):
            out += [list(h) for h in itertools.product(reduced, repeat=d)]
    return out


AS_NUMPY = [False]



def range_ordered(hist, pmax=1e6, pmin=1e-1):
    """False for a history in which, after one of its letters (a __multi__ letter counts as a whole), the minimum
    pressure of the atmosphere is not below the maximum: such a range is not an atmosphere and nothing is demanded of
    it."""
    cur = {'atm_max_pressure': pmax, 'atm_min_pressure': pmin}
    for op in hist:
        subs = op[1] if op[0] == '__multi__' else [op]
        for name, value in subs:
            if name in cur:
                cur[name] = value
        if not cur['atm_min_pressure'] < cur['atm_max_pressure']:
            return False
    return True


def apply_op(m, op):
    name, value = op
    if name == '__multi__':
        # several parameters written between two evaluations (a sampler writes the whole vector at once)
        for sub in value:
            apply_op(m, sub)
        return
    if AS_NUMPY[0] and isinstance(value, float):
        value = np.array([value], dtype=np.float64)[0]      # an element of a float64 array, as a sampler hands it over
    if name == 'star_temperature':
        m.star.temperature = value
    elif name == 'star_radius':
        m.star._radius = value
    else:
        m[name] = value


def evaluate(m, wngrid=None):
    g, s, t, _ = m.model() if wngrid is None else m.model(wngrid=wngrid)
    return np.array(g, float), np.array(s, float), np.array(t, float)


def spec_with_net(spec, net):
    """Move as many net settings as fixtures.build_model can express into the model specification (constructor
    arguments); what remains is applied through the setters afterwards.  Returns (spec, rest)."""
    import copy
    spec = copy.deepcopy(spec)
    rest = dict(net)

    def take(k_):
        return rest.pop(k_)
    if 'T' in rest and list(spec.get('T', ['iso']))[0] == 'iso':
        spec['T'] = ['iso', float(take('T'))]
    pr, pm = spec.get('planet', (1.0, 1.0))
    if 'planet_radius' in rest:
        pr = float(take('planet_radius'))
    if 'planet_mass' in rest:
        pm = float(take('planet_mass'))
    spec['planet'] = [pr, pm]
    pmax, pmin = spec.get('prange', (1e6, 1e-1))
    if 'atm_max_pressure' in rest:
        pmax = float(take('atm_max_pressure'))
    if 'atm_min_pressure' in rest:
        pmin = float(take('atm_min_pressure'))
    spec['prange'] = [pmax, pmin]
    if 'star_temperature' in rest:
        sr, st = spec.get('star', (1.0, 5000.0))
        spec['star'] = [sr, float(take('star_temperature'))]
    gases = []
    for mol, prof in spec.get('gases', []):
        if mol in rest and prof[0] == 'const':
            prof = ['const', float(take(mol))]
        gases.append([mol, prof])
    spec['gases'] = gases
    fill, ratio = spec.get('fill', (['H2', 'He'], 0.17))
    if len(fill) == 2 and not isinstance(ratio, (list, tuple)) and '%s_%s' % (fill[1], fill[0]) in rest:
        ratio = float(take('%s_%s' % (fill[1], fill[0])))
    elif isinstance(ratio, (list, tuple)):
        ratio = list(ratio)
        for i_, g_ in enumerate(fill[1:]):
            if '%s_%s' % (g_, fill[0]) in rest and i_ < len(ratio):
                ratio[i_] = float(take('%s_%s' % (g_, fill[0])))
    spec['fill'] = [list(fill), ratio]
    contribs = []
    for c in spec.get('contribs', ['abs']):
        if isinstance(c, (list, tuple)) and c[0] == 'clouds' and 'clouds_pressure' in rest:
            c = ['clouds', float(take('clouds_pressure'))]
        elif isinstance(c, (list, tuple)) and c[0] in ('flat', 'lee'):
            kw = dict(c[1])
            for k_ in list(rest):
                if k_.startswith('flat_' if c[0] == 'flat' else 'lee_mie_'):
                    kw[k_] = take(k_)
            c = [c[0], kw]
        contribs.append(c)
    spec['contribs'] = contribs
    return spec, rest


def evaluate_entry(m, entry, wngrid=None):
    """The model evaluated through one of its per-source entry points: every flux (and transmittance / optical depth)
    array it returns, in a fixed order."""
    kw = {} if wngrid is None else {'wngrid': wngrid}
    out = []
    if entry == 'contrib':
        g, d = m.model_contrib(**kw)
        for name in sorted(d):
            out += [np.array(d[name][0], float), np.array(d[name][1], float)]
    else:
        g, d = m.model_full_contrib(**kw)
        for name in sorted(d):
            for comp in sorted(d[name], key=lambda c: c[0]):
                out += [np.array(comp[1], float), np.array(comp[2], float)]
    return [np.array(g, float)] + out


def run_history(r, hist, build, tag, extra_eval=None, env_apply=None, as_numpy=False, entry='model', build_with=None):
    """build() -> fresh model with caches installed (must call fx.reset_caches itself when the
    opacity tables are process-wide).  The live model and every fresh model share the installed
    opacity tables (they are inputs, not state under test)."""
    AS_NUMPY[0] = bool(as_numpy)
    # a bystander built before anything happens to the live object: never touched, it must give the same answer
    # at the end as at the beginning (no state shared between objects of one process)
    twin = build()
    twin_first = evaluate(twin)
    live = build()
    first = evaluate(live)          # populate every cache with the initial settings
    net = {}
    names = []
    win = [None]
    env = [None]        # latest ['__env__', value]: process-wide configuration (e.g. which opacity files are installed),
    #                     re-applied after every build() because build() resets the process to its default environment

    def ev(m):
        return evaluate(m, None if win[0] is None else np.array(win[0], dtype=float))
    for k, op in enumerate(hist):
        if op[0] == '__window__':
            # from now on the model is evaluated on this requested grid (None: the full native grid)
            win[0] = op[1]
            names.append('window%s' % ('-full' if op[1] is None else len(op[1])))
        elif op[0] == '__env__':
            env[0] = op[1]
            env_apply(op[1])
            names.append('env-%s' % op[1])
        else:
            apply_op(live, op)
        if op[0] in ('__window__', '__env__'):
            pass
        elif op[0] == '__multi__':
            for sub in op[1]:
                net[sub[0]] = sub[1]
            names.append('+'.join(sub[0] for sub in op[1]))
        else:
            net[op[0]] = op[1]
            names.append(op[0])
        sig = '%s/ops=%s' % (tag, '>'.join(names))
        # every parameter written so far reads back as the value it was given
        for n_, v_ in net.items():
            if n_ in live.fittingParameters:
                try:
                    back = float(live.fittingParameters[n_][2]())
                except Exception:
                    continue
                r.check(back == float(v_) or abs(back - float(v_)) <= 1e-12 * abs(float(v_)), 'parameter-reads-back',
                        'history-readback/%s/%s' % (tag, n_), param=n_, written=v_, read=back, hist=hist[:k + 1])
        if entry != 'model' and k == len(hist) - 1:
            # the FIRST evaluation after the last update goes through a per-source entry point (nothing has refreshed
            # the live model yet): it must see the new settings exactly as a fresh model does
            try:
                got_e = evaluate_entry(live, entry, None if win[0] is None else np.array(win[0], dtype=float))
                # the comparison model gets the settings as constructor arguments where possible and is evaluated once
                # through model() first: nothing about it is "not refreshed yet" (a live model and a fresh one that was
                # updated the same way would share a stale first evaluation)
                if build_with is not None:
                    fresh_e, rest_e = build_with(dict(net))
                else:
                    fresh_e, rest_e = build(), net
                if env[0] is not None:
                    env_apply(env[0])
                for n_ in sorted(rest_e):
                    apply_op(fresh_e, [n_, rest_e[n_]])
                ev(fresh_e)
                want_e = evaluate_entry(fresh_e, entry, None if win[0] is None else np.array(win[0], dtype=float))
            except Exception:
                got_e = want_e = None       # an invalid model: judged below through model()
            if got_e is not None:
                same_shape = len(got_e) == len(want_e) and all(a.shape == b.shape for a, b in zip(got_e, want_e))
                if r.check(same_shape, 'history-entry-point', 'history-entry-shape/%s/%s' % (entry, sig), hist=hist):
                    for a, b in zip(got_e, want_e):
                        if not r.eq(a, b, 'history-entry-point', 'history-entry/%s/%s' % (entry, sig), rtol=1e-12,
                                    atol=1e-300, hist=hist):
                            break
                if extra_eval is not None and not getattr(extra_eval, 'wants_net', False):
                    extra_eval(r, live, fresh_e, sig + '/via-' + entry)
        try:
            got = ev(live)
        except Exception as e:
            # the settings reached may describe an invalid model (e.g. mixing ratios above one): then a fresh model with
            # the same net settings must be rejected in the same way; anything else is a violation
            try:
                fresh = build()
                if env[0] is not None:
                    env_apply(env[0])
                for n_ in sorted(net):
                    apply_op(fresh, [n_, net[n_]])
                ev(fresh)
                fexc = None
            except Exception as e2:
                fexc = e2
            agreed = r.check(fexc is not None and type(fexc) is type(e), 'history-no-exception',
                             'history-exception/%s/%s' % (type(e).__name__, sig), exc=repr(e), fresh_exc=repr(fexc),
                             hist=hist[:k + 1])
            if not agreed:
                return
            # a rejected model is not the end of the object's life: the per-source entry points are asked too (they must
            # refuse as well), and the history goes on - what the next, valid, settings give must not depend on the
            # rejection in between
            for entry_ in ('contrib', 'full'):
                try:
                    evaluate_entry(live, entry_, None if win[0] is None else np.array(win[0], dtype=float))
                    r.check(False, 'history-no-exception', 'history-invalid-accepted-by-%s/%s' % (entry_, tag),
                            hist=hist[:k + 1])
                except Exception as e3:
                    r.check(type(e3) is type(e), 'history-no-exception',
                            'history-exception-differs/%s/%s/%s' % (entry_, type(e3).__name__, tag), exc=repr(e3),
                            model_exc=repr(e), hist=hist[:k + 1])
            r.count('rejected-states-continued')
            continue
        if build_with is not None:
            # the fresh model receives the net settings as constructor arguments where the check can express them so
            # (a defect that sits in the setters, or in what build() does to constructor values, is then not mirrored)
            fresh, rest = build_with(dict(net))
        else:
            fresh, rest = build(), net
        if env[0] is not None:
            env_apply(env[0])
        for n_ in sorted(rest):
            apply_op(fresh, [n_, rest[n_]])
        want = ev(fresh)
        r.eq(got[0], want[0], 'history-grid', 'history-grid/' + sig, rtol=0.0, atol=0.0, hist=hist[:k + 1])
        if got[0].shape != want[0].shape:
            return
        ok = r.eq(got[1], want[1], 'history-independence', 'history/' + sig, rtol=1e-12, atol=0.0, hist=hist[:k + 1])
        r.eq(got[2], want[2], 'history-independence-tau', 'history-tau/' + sig, rtol=1e-12, atol=1e-300,
             hist=hist[:k + 1])
        if extra_eval is not None:
            if getattr(extra_eval, 'wants_net', False):
                extra_eval(r, live, fresh, sig, dict(net))      # the settings as they were asked for
            else:
                extra_eval(r, live, fresh, sig)
        r.observe(got[1])
        if not ok:
            return
    if env[0] is not None:
        r.nontrivial = len(hist) > 1
        return          # the bystander would be evaluated in another environment than at the start
    twin_last = evaluate(twin)
    r.eq(twin_last[1], twin_first[1], 'bystander-unaffected', 'bystander/%s/ops=%s' % (tag, '>'.join(names)), rtol=0.0,
         atol=0.0, hist=hist)
    r.nontrivial = len(hist) > 1
