"""Rank simulator (DESIGN.md 2.5): a simulated MPI communicator for taurex.mpi.

How TauREx reaches MPI.  Everything goes through the thin wrapper module ``taurex.mpi``.  The
post-processing code looks the functions up *at call time* as attributes of that module
(``from taurex import mpi`` inside ``OnlineVariance.parallelVariance``,
``Optimizer.generate_profiles`` and ``Optimizer.compute_derived_trace``, then ``mpi.allgather(..)``),
and ``taurex.mpi.only_master_rank`` resolves ``get_rank`` through the module globals, so replacing the
module attributes is seen by all of them.  A few modules bind the names at import time
(``taurex.output.hdf5``: get_rank, only_master_rank; ``taurex.optimizer.multinest``: get_rank,
barrier; ``taurex.log.logger.TauRexHandler`` caches the rank in its constructor);  install() therefore
also rebinds every attribute of an already imported ``taurex*`` module that *is* one of the
original functions.  The replacements dispatch on the calling thread: a thread that is not a
simulated rank gets the original behaviour (single process), so the patch may stay installed.

Semantics.  R ranks = R threads started by Comm.run(fn); the rank is thread-local; nothing is shared
by the simulator except the deposit slots.  Every collective (allgather / allreduce / broadcast /
barrier) is a full barrier:

  1. turnstile - ranks deposit ``pickle.dumps(value)`` strictly in the forced arrival order of
     the communicator ('asc': 0,1,..  'desc': R-1,..,0);
  2. when all R deposits are present every rank builds *its own* ``pickle.loads`` of every deposit
     (mpi4py's lower-case collectives pickle: the receiver never sees the sender's object, not
     even its own - object identity such as ``x is np.nan`` does not survive);
  3. the slots are recycled when all R ranks have read.

allgather returns the list in rank order; allreduce('sum') folds it with Python ``+`` in rank order
(list concatenation for lists, as mpi4py does for Python objects); broadcast returns the root's.
Because every interaction is a full barrier the computation is a Kahn network - its result cannot
depend on thread timing; checks nevertheless run every configuration under both forced orders and
demand bit-identical observations (bits()).

Failure semantics (never a hang).  All waits carry a deadline.
  * ranks are in different collectives at the same step (kind / reduction op / root differ)
        -> CollectiveMismatch on every rank;
  * a rank returned or raised while another waits for it in a collective
        -> the waiting ranks get CollectiveMismatch immediately (a real MPI job would hang);
  * no progress until the deadline -> Deadlock;
  * a rank thread that does not terminate at all -> reported by run() as 'deadlock' (the thread is
    a daemon and is abandoned).
Result.verdict is 'ok' | 'raised' (some rank raised before/without anyone waiting for it - and all
others finished) | 'mismatch' | 'deadlock';  Result.primary = (rank, exception) of the first failure.

Not modelled: MPI progress/failure semantics, shared-memory windows (allocate_as_shared is left
alone: without mpi4py it returns its argument), non-world communicators.
"""
import pickle
import sys
import threading
import time
import traceback

import numpy as np

NAMES = ('get_rank', 'nprocs', 'allgather', 'allreduce', 'broadcast', 'barrier')

_TL = threading.local()          # .comm, .rank of the calling thread when it is a simulated rank
_ORIG = {}                       # name -> original function of taurex.mpi
_REBOUND = []                    # (module, attribute, original) rebinding done by install()
_LOCK = threading.Lock()
_DEEP = {}
_DEEP_NAMES = ('allgather', 'allreduce', 'broadcast', 'barrier')


class SimError(Exception):
    pass


class CollectiveMismatch(SimError):
    pass


class Deadlock(SimError):
    pass


class PeerFailed(SimError):
    """Secondary error: raised in a waiting rank after another rank hit the primary failure."""


# ----------------------------------------------------------------------------------------------
# the replacement functions (module-level: they dispatch on the calling thread)
# ----------------------------------------------------------------------------------------------
def current():
    return getattr(_TL, 'comm', None)


def _get_rank(comm=None):
    c = current()
    if c is None:
        return _ORIG['get_rank'](comm)
    return _TL.rank


def _nprocs():
    c = current()
    if c is None:
        return _ORIG['nprocs']()
    return c.R


def _allgather(value):
    c = current()
    if c is None:
        return _ORIG['allgather'](value)
    return c.collective('allgather', value)


def _allreduce(value, op):
    c = current()
    if c is None:
        return _ORIG['allreduce'](value, op)
    if str(op).lower() != 'sum':            # taurex.mpi.convert_op knows only 'sum'
        raise NotImplementedError(op)
    vals = c.collective('allreduce', value, meta='sum')
    out = vals[0]
    for v in vals[1:]:
        out = out + v
    return out


def _broadcast(array, rank=0):
    c = current()
    if c is None:
        return _ORIG['broadcast'](array, rank)
    isarr = isinstance(array, np.ndarray)
    # taurex.mpi.broadcast uses the buffer Bcast for arrays: every rank must pass an array of the
    # root's shape and dtype; other objects travel pickled and non-roots' arguments are ignored.
    shape = (array.shape, str(array.dtype)) if isarr else None
    vals = c.collective('broadcast', (isarr, shape, array if _TL.rank == rank else None),
                        meta=('root', rank))
    root = vals[rank]
    if root[0]:
        if not isarr or shape != root[1]:
            c.fatal(CollectiveMismatch('broadcast: root sends array %r, rank %d passed %r' % (
                root[1], _TL.rank, shape if isarr else type(array).__name__)))
    elif isarr:
        c.fatal(CollectiveMismatch('broadcast: root sends a pickled object, rank %d passed an '
                                   'array (Bcast vs bcast)' % _TL.rank))
    return root[2]


def _barrier(comm=None):
    c = current()
    if c is None:
        return _ORIG['barrier'](comm)
    c.collective('barrier', None)


_REPL = {'get_rank': _get_rank, 'nprocs': _nprocs, 'allgather': _allgather,
         'allreduce': _allreduce, 'broadcast': _broadcast, 'barrier': _barrier}


def install():
    """Replace taurex.mpi.{get_rank,nprocs,allgather,allreduce,broadcast,barrier} (idempotent) and
    rebind import-time copies of them in already imported taurex modules.  Returns the list of
    (module name, attribute) pairs that were rebound outside taurex.mpi."""
    import taurex.mpi as tmpi
    with _LOCK:
        if not _ORIG:
            for n in NAMES:
                _ORIG[n] = getattr(tmpi, n)
        for n in NAMES:
            if _DEEP.get('on') and n in _DEEP_NAMES:
                continue                    # deep mode: these keep taurex.mpi's own bodies
            setattr(tmpi, n, _REPL[n])
        for mname, mod in list(sys.modules.items()):
            if mod is None or mod is tmpi or not (mname == 'taurex' or mname.startswith('taurex.')):
                continue
            for n in NAMES:
                if _DEEP.get('on') and n in _DEEP_NAMES:
                    continue
                if getattr(mod, n, None) is _ORIG[n]:
                    setattr(mod, n, _REPL[n])
                    _REBOUND.append((mod, n, _ORIG[n]))
        return [(m.__name__, n) for m, n, _ in _REBOUND]


def uninstall():
    import taurex.mpi as tmpi
    with _LOCK:
        for n, f in _ORIG.items():
            setattr(tmpi, n, f)
        for mod, n, f in _REBOUND:
            setattr(mod, n, f)
        del _REBOUND[:]
        _ORIG.clear()


# ----------------------------------------------------------------------------------------------
# deep mode: the real bodies of taurex.mpi.allgather / allreduce / broadcast / barrier run, over a stand-in mpi4py whose
# COMM_WORLD is the simulated communicator (get_rank / nprocs stay replaced: they are lru_cache'd per process in
# taurex.mpi, and all simulated ranks share one process)
# ----------------------------------------------------------------------------------------------
class _FakeWorld(object):
    def Get_rank(self):
        return _TL.rank if current() is not None else 0

    def Get_size(self):
        c = current()
        return c.R if c is not None else 1

    def Split_type(self, *a, **k):
        return self

    def allgather(self, data):
        return current().collective('allgather', data)

    def allreduce(self, value, op=None):
        vals = current().collective('allreduce', value, meta='sum')
        out = vals[0]
        for v in vals[1:]:
            out = out + v
        return out

    def bcast(self, obj, root=0):
        vals = current().collective('broadcast', ('obj', obj if _TL.rank == root else None), meta=('root', root))
        return vals[root][1]

    def Bcast(self, buf, root=0):
        vals = current().collective('broadcast', ('buf', np.array(buf) if _TL.rank == root else None),
                                    meta=('root', root))
        buf[...] = vals[root][1]

    def Barrier(self):
        current().collective('barrier', None)


def install_deep():
    """install(), then hand allgather / allreduce / broadcast / barrier back to taurex.mpi's own functions and make
    `from mpi4py import MPI` resolve to the stand-in."""
    import types
    import taurex.mpi as tmpi
    install()
    with _LOCK:
        _DEEP['on'] = True
        for n in _DEEP_NAMES:
            setattr(tmpi, n, _ORIG[n])
            for mod, n2, f in _REBOUND:
                if n2 == n:
                    setattr(mod, n2, f)
        if 'mods' not in _DEEP:
            _DEEP['mods'] = (sys.modules.get('mpi4py'), sys.modules.get('mpi4py.MPI'))
        pkg = types.ModuleType('mpi4py')
        sub = types.ModuleType('mpi4py.MPI')
        sub.COMM_WORLD = _FakeWorld()
        sub.SUM = 'sum'
        sub.COMM_TYPE_SHARED = 0
        pkg.MPI = sub
        pkg.__verif_double__ = True
        sys.modules['mpi4py'] = pkg
        sys.modules['mpi4py.MPI'] = sub


def uninstall_deep():
    with _LOCK:
        _DEEP['on'] = False
        if 'mods' in _DEEP:
            for name, m in zip(('mpi4py', 'mpi4py.MPI'), _DEEP.pop('mods')):
                if m is None:
                    sys.modules.pop(name, None)
                else:
                    sys.modules[name] = m
    uninstall()


def installed():
    import taurex.mpi as tmpi
    return bool(_ORIG) and all(getattr(tmpi, n) is _REPL[n] for n in NAMES)


# ----------------------------------------------------------------------------------------------
# communicator
# ----------------------------------------------------------------------------------------------
class Result(object):
    def __init__(self, R):
        self.out = [None] * R          # return value of fn on each rank
        self.err = [None] * R          # exception instance per rank (primary or secondary)
        self.tb = [None] * R
        self.verdict = 'ok'
        self.primary = None            # (rank, exception)
        self.where = None              # 'file:function' of the primary exception's innermost taurex frame
        self.cause = None              # (rank, SimError) when primary is the exception that caused it
        self.collectives = []          # [(kind, meta)] of every completed collective
        self.arrivals = []             # per completed collective: tuple of ranks in deposit order
        self.nbytes = 0

    @property
    def ok(self):
        return self.verdict == 'ok'

    def describe(self):
        if self.ok:
            return 'ok'
        r, e = self.primary if self.primary else (None, None)
        return '%s: rank %s: %r' % (self.verdict, r, e)


class Comm(object):
    """One simulated job.  Use one Comm per run() (after a failure it is not reusable).

    Synchronisation uses targeted wake-ups (one semaphore per turnstile position + one release
    semaphore) instead of a broadcast condition: 2R wake-ups per collective."""

    POLL = 0.25        # safety net: waits re-check the failure flags at this period

    def __init__(self, R, order='asc', timeout=60.0):
        if order not in ('asc', 'desc'):
            raise ValueError(order)
        self.R = int(R)
        self.order = order
        seq = list(range(self.R)) if order == 'asc' else list(range(self.R - 1, -1, -1))
        self._pos = dict((r, i) for i, r in enumerate(seq))
        self.sequence = tuple(seq)           # the forced deposit order
        self.timeout = float(timeout)
        self._lock = threading.RLock()
        self._sem_in = [threading.Semaphore(0) for _ in range(self.R)]   # turnstile, by position
        self._sem_in[0].release()
        self._sem_out = threading.Semaphore(0)
        self._gen = 0
        self._arrived = 0
        self._all_arrived = False
        self._left = 0
        self._slots = [None] * self.R
        self._kinds = [None] * self.R
        self._arr = []
        self._state = ['idle'] * self.R      # idle / running / in:<kind> / done / failed
        self._gone = False                   # some rank has returned or raised
        self._fatal = None                   # first failure: (rank, exception)
        self._first_raise = None             # first rank that raised an exception of its own
        self._res = None

    # -- failure bookkeeping -------------------------------------------------------------
    def _wake_all(self):
        for s in self._sem_in:
            for _ in range(self.R):
                s.release()
        for _ in range(2 * self.R):
            self._sem_out.release()

    def fatal(self, exc, rank=None):
        """Record `exc` as the primary failure (if none yet), wake everybody, raise it."""
        with self._lock:
            if self._fatal is None:
                self._fatal = (getattr(_TL, 'rank', None) if rank is None else rank, exc)
            self._wake_all()
        raise exc

    def _check(self, r, kind):
        """Called by a rank that is (about to be) blocked in the arrival part of a collective."""
        with self._lock:
            if self._fatal is not None:
                raise PeerFailed('rank %d in %s #%d: aborted after %r' % (
                    r, kind, self._gen, self._fatal[1]))
            if self._gone and not self._all_arrived:
                gone = [k for k in range(self.R) if self._state[k] in ('done', 'failed')]
                what = ', '.join('rank %d %s' % (k, 'raised' if self._state[k] == 'failed'
                                                 else 'returned') for k in gone)
                self.fatal(CollectiveMismatch(
                    'rank %d waits in %s (collective #%d) but %s without entering it'
                    % (r, kind, self._gen, what)), r)

    def _acquire(self, sem, deadline, r, kind):
        while True:
            self._check(r, kind)
            left = deadline - time.monotonic()
            if left <= 0:
                self.fatal(Deadlock('rank %d: no progress in %s (collective #%d) within %.0f s; '
                                    'states %s' % (r, kind, self._gen, self.timeout, self._state)), r)
            if sem.acquire(timeout=min(left, self.POLL)):
                self._check(r, kind)      # the token may be an abort wake-up
                return

    # -- the one primitive ---------------------------------------------------------------
    def collective(self, kind, value, meta=None):
        r = _TL.rank
        pos = self._pos[r]
        blob = pickle.dumps(value, protocol=pickle.HIGHEST_PROTOCOL)
        deadline = time.monotonic() + self.timeout
        with self._lock:
            self._state[r] = 'in:' + kind
        # turnstile: previous collective drained by everybody, and my turn in the forced order
        self._acquire(self._sem_in[pos], deadline, r, kind)
        with self._lock:
            self._slots[r] = blob
            self._kinds[r] = (kind, meta)
            self._arr.append(r)
            self._arrived += 1
            gen = self._gen
            last = self._arrived == self.R
            if last:
                self._all_arrived = True
        if last:
            for _ in range(self.R):
                self._sem_out.release()
        else:
            self._sem_in[pos + 1].release()
        self._acquire(self._sem_out, deadline, r, kind)
        blobs = list(self._slots)          # not recycled before all R ranks have read
        kinds = list(self._kinds)
        with self._lock:
            self._left += 1
            drained = self._left == self.R
            self._state[r] = 'running'
            if drained:
                if self._res is not None:
                    self._res.collectives.append(kinds[0] if len(set(map(repr, kinds))) == 1
                                                 else ('MISMATCH', kinds))
                    self._res.nbytes += sum(len(b) for b in blobs)
                    self._res.arrivals.append(tuple(self._arr))
                self._arr = []
                self._arrived = 0
                self._left = 0
                self._all_arrived = False
                self._gen += 1
                self._slots = [None] * self.R
                self._kinds = [None] * self.R
                if self._gone:
                    self._wake_all()       # whoever already queues for the next one is doomed
        if drained:
            self._sem_in[0].release()
        if len(set(map(repr, kinds))) != 1:
            self.fatal(CollectiveMismatch('collective #%d: ranks called %s' % (gen, kinds)), r)
        return [pickle.loads(b) for b in blobs]

    # -- run R ranks ---------------------------------------------------------------------
    def run(self, fn, hard_timeout=None):
        """Execute fn(rank) on R threads.  Never hangs: returns a Result whose verdict tells what
        happened."""
        if not installed():
            install()
        res = Result(self.R)
        self._res = res
        if hard_timeout is None:
            hard_timeout = 4 * self.timeout + 30.0

        def finish(r, state, e=None):
            with self._lock:
                self._state[r] = state
                self._gone = True
                if e is not None and not isinstance(e, PeerFailed):
                    if isinstance(e, SimError):
                        if self._fatal is None:
                            self._fatal = (r, e)
                    elif self._first_raise is None:
                        self._first_raise = (r, e)
                waiting = [k for k in range(self.R) if self._state[k].startswith('in:')]
                if waiting and not self._all_arrived:
                    self._wake_all()

        def body(r):
            _TL.comm = self
            _TL.rank = r
            with self._lock:
                self._state[r] = 'running'
            try:
                res.out[r] = fn(r)
                finish(r, 'done')
            except BaseException as e:          # noqa - everything is reported, nothing swallowed
                res.err[r] = e
                res.tb[r] = traceback.format_exc()
                finish(r, 'failed', e)
            finally:
                _TL.comm = None

        if self.R == 1:
            # one rank: same code path (pickling collectives included), no extra thread needed -
            # but keep the calling thread's identity clean
            prev = (getattr(_TL, 'comm', None), getattr(_TL, 'rank', None))
            body(0)
            _TL.comm, _TL.rank = prev
            self._classify(res)
            return res
        threads = [threading.Thread(target=body, args=(r,), name='rank%d' % r, daemon=True)
                   for r in range(self.R)]
        for t in threads:
            t.start()
        end = time.monotonic() + hard_timeout
        for t in threads:
            t.join(max(0.0, end - time.monotonic()))
        alive = [r for r, t in enumerate(threads) if t.is_alive()]
        if alive:
            with self._lock:
                if self._fatal is None:
                    self._fatal = (alive[0], Deadlock('rank(s) %s did not terminate within %.0f s; '
                                                      'states %s' % (alive, hard_timeout, self._state)))
                self._wake_all()
            for t in threads:
                t.join(2.0)
        self._classify(res)
        return res

    def _classify(self, res):
        """Deterministic naming of a failure: which rank *detects* a mismatch first depends on
        thread timing, so the reported location is that of the lowest rank stopped by the
        simulator, and the reported exception of the code is that of the lowest rank that raised
        one of its own."""
        own = [(k, e) for k, e in enumerate(res.err) if e is not None and not isinstance(e, SimError)]
        sim = [(k, e) for k, e in enumerate(res.err) if isinstance(e, SimError)]
        if self._fatal is not None:
            r, e = self._fatal
            res.verdict = 'deadlock' if isinstance(e, Deadlock) else 'mismatch'
            res.primary = (r, e)
            res.where = where_of(sim[0][1]) if sim else where_of(e)
            if own:
                # the interesting exception is the one of the rank that left the others waiting
                res.cause = (r, e)
                res.primary = own[0]
                res.where = where_of(own[0][1])
        elif own:
            res.verdict = 'raised'
            res.primary = own[0]
            res.where = where_of(own[0][1])


def where_of(exc):
    """'file:function' of the innermost frame of exc's traceback that lies in taurex (else in any
    file), for structural signatures."""
    tb = traceback.extract_tb(exc.__traceback__) if exc.__traceback__ is not None else []
    for fs in reversed(tb):
        f = fs.filename.replace('\\', '/')
        if '/taurex/' in f and '/verif/' not in f:
            return '%s:%s' % (f.split('/taurex/', 1)[1], fs.name)
    for fs in reversed(tb):
        return '%s:%s' % (fs.filename.replace('\\', '/').rsplit('/', 1)[-1], fs.name)
    return '?'


def run(R, fn, order='asc', timeout=60.0):
    return Comm(R, order, timeout).run(fn)


# ----------------------------------------------------------------------------------------------
# bit-exact canonical form of observations (for the two-arrival-orders determinism demand)
# ----------------------------------------------------------------------------------------------
def bits(o):
    if isinstance(o, np.ndarray):
        if o.dtype == object:
            return ('objarr', o.shape, tuple(bits(v) for v in o.ravel().tolist()))
        return ('arr', o.shape, str(o.dtype), np.ascontiguousarray(o).tobytes())
    if isinstance(o, (np.floating, float)):
        return ('f', np.float64(o).tobytes())
    if isinstance(o, (np.integer,)):
        return ('i', int(o))
    if isinstance(o, (np.bool_,)):
        return ('b', bool(o))
    if isinstance(o, dict):
        return ('d', tuple((repr(k), bits(o[k])) for k in sorted(o, key=repr)))
    if isinstance(o, (list, tuple)):
        return ('l', tuple(bits(v) for v in o))
    if isinstance(o, BaseException):
        return ('exc', type(o).__name__)
    return ('o', repr(o))
