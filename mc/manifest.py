"""Regenerates /verif/MANIFEST.json from the checks present in mc/checks (python -m mc.manifest)."""
import json
import os
import glob

VERIF = os.path.dirname(os.path.dirname(os.path.abspath(__file__)))

TEXT = {}      # id -> (technique, level text, level note, design_ref)   filled below


def T(i, technique, text, note):
    TEXT[i] = (technique, text, note, 'DESIGN.md section 4, ' + i)


T('C04', 'exhaustive product-space enumeration of (table shape x value pattern x mode x layout x wavenumber request x 8x8 (T,P) query lattice) on the real Opacity classes against a reference interpolator',
  'Bounded exhaustive model checking of the real implementation: every configuration of the declared finite alphabet and every point of the (T,P) region lattice (interior, 4 edges, 4 corners, exact nodes) is executed and compared with an independent clamped bilinear / exp-linear reference plus bracket, sign, node and zero-corner invariants. Small-scope: a defect of the dispatch needs one of the 9 regions x 2 modes x 2 layouts, all of which are covered.',
  'numpy/numba trusted; float values only on the value lattice; outside the grid only the stated invariants (bracket, non-negative, finite) are demanded')

T('C01', 'exhaustive bounded enumeration (deviation-bounded product of 10 configuration dimensions) of real TransmissionModel runs against an independent slant-path reference integral',
  'Bounded exhaustive model checking of the real forward model: every configuration of the finite alphabet (layers 2-7, 5 opacity magnitudes from transparent to saturated incl. mixed-per-wavenumber, all 32 contribution subsets (molecular absorption, CIA, Rayleigh, Lee and flat hazes), both path methods, pressure ranges, planets, stars, temperature and abundance profiles, both interpolation modes) with <= 2 (thorough 3) deviations plus the full core product is built from fresh objects and compared layer-by-layer with a reference written from the documented integral (explicit spherical-shell chord geometry, own opacity interpolation, tau>10 licence computed per layer), plus geometry invariants and the four stated consequences.',
  'numba/numpy trusted; density/altitude/mixing profiles read from the model (C10/C11 decide them); Rayleigh and haze weighted cross-sections read as data (C03/C19 decide them); small-scope hypothesis')

T('C02', 'exhaustive bounded enumeration (deviation-bounded product of 12 configuration dimensions) of real EmissionModel/DirectImageModel runs against an independent layered thermal-emission reference',
  'Bounded exhaustive model checking of the real emission and direct-image models: every configuration (layers 1-5, 6 temperature profiles, 5 opacity magnitudes incl. mixed-per-wavenumber, 1-6 quadrature points, contribution sets, cross-section and k-table (degenerate and spread) opacity modes through the real KTableCache/pickle path, stars, planets, distances) within the deviation bound plus the full core product is executed and compared with a reference written from the documented integral (own Planck function, closed-form Gauss nodes, explicit cumulative transmittances); the exp(-10) licence is computed exactly per case; isothermal identity, blackbody bounds, partial_model per-angle intensities and the Rp^2/d^2 law are checked on every case.',
  'numba/numpy trusted; density/altitude/mixing profiles read from the model (C10/C11); direct-image numeric prefactor accepted as 1 or 1/2; small-scope hypothesis')

T('C20', 'exhaustive bounded enumeration of paired real model runs (cross-sections vs k-tables loaded through KTableCache) over weights x spread x model family x magnitude, against the weight-averaged-exponential reference',
  'Bounded exhaustive model checking of the real correlated-k path: for every configuration (8 weight vectors with 1-4 g-points incl. a zero-weight point, degenerate and spread k-distributions, transmission / emission / direct image, 4 opacity magnitudes, layer counts, temperature profiles, contribution orders, both path methods) the k-table run is compared with the reference T = sum_g w_g exp(-tau_g) (slant geometry and emission integral of mc/ref/rt.py), with the [0,1] range and the Jensen bound, and in the degenerate case with the cross-section run of the same numbers.',
  'numba/numpy trusted; profiles read from the model; k-tables are pickle files written by the harness and discovered by the real cache; small-scope hypothesis')

T('C19', 'exhaustive enumeration of cloud-top letters (every level, every layer pressure, between, outside) and of all top x bottom haze-bound letter pairs (unset/level/centre/inside/outside, inverted, equal) on real TransmissionModels, with per-layer window oracle',
  'Bounded exhaustive model checking of the real cloud and haze contributions: for each layer count (2-13) and pressure range every cloud-top position class is run with and without a companion absorber and compared layer by layer with the cloud-free model (opaque at/below, bit-identical above, depth bound); for FlatMie and LeeMie all 81 (top, bottom) letter pairs x magnitudes x particle letters are run and each layer is classified from the level pressures (wholly outside => exactly zero, wholly inside an ordered window => exactly the declared magnitude / Lee law, partial => within [0, full]); no NaN and no exception for any letter.',
  'standard log-spaced pressure grid only; numba/numpy trusted; touching a window edge counts as partial; small-scope hypothesis')

T('C03', 'exhaustive enumeration of every insertion order of every subset (<=3, thorough <=4) of the 7 built-in contributions x call histories (which of model / model_contrib / model_full_contrib runs first) on real models, with product, order-independence, restoration and per-component reference oracles',
  'Bounded exhaustive model checking of contribution composition on the real TransmissionModel: all 259 (thorough 1099) ordered contribution selections x 3 call histories, plus species-set / abundance / layer / magnitude deviations; on every case T_model = prod_c T_c and T_c = prod_comp T_comp (licensed only where the combined reference tau exceeds 10 at all wavenumbers), the canonically ordered model agrees, the contribution list object is restored after every per-contribution call and a repeated model() is bit-identical, every molecular / CIA / Rayleigh component equals cross-section x mixing ratio (x partner ratio) from the reference interpolator, each source alone equals the reference slant integral (density squared for CIA), zero-abundance species are neutral, and store_contributions returns the binned per-source results.',
  'cross-section mode only (product over molecules is not an identity for correlated-k); numba/numpy trusted; small-scope hypothesis')

T('C13', 'exhaustive enumeration of every contiguous sub-range request (as grid and as observation) x native-grid configurations (one/two molecules, nested/non-nested coarser grid) x cutoff flag x model family x magnitude, differential restricted-vs-full oracle on fresh real models; every sub-range of own and foreign points at the Opacity/KTable level',
  'Bounded exhaustive model checking by differential execution: for each of the 45 contiguous sub-ranges of the 10-point coarsening of the finest native grid, every grid configuration, both cutoff settings, transmission and emission, three magnitudes, a fresh model is run restricted and a fresh model full; values at common wavenumbers must agree (only the exp(-10) licence where the full run is saturated on the restricted range), and the two results binned to the observation must agree; at the opacity level every contiguous request of own points must be returned unchanged and every foreign request must lie between the two neighbouring native values of the full grid, for cross-section and k-table layouts.',
  'observation widths are the mid-point implied widths (stated condition holds by construction); emission letters stay below the clamp; numba/numpy trusted; small-scope hypothesis')

T('C15',
  'bounded exhaustive enumeration (product space E1) of generated .par files over the documented interface; constructor spies on the real classes; differential CLI-vs-library execution',
  'Bounded exhaustive model checking over programs (input files): every documented built-in selector (30) x every constructor key x value letters (<=1 key quick, all key pairs thorough), all error letters (unknown selector / unknown key), every mixin+base composite, a custom class per section, priors/fitting/derive/binning sections, and the command-line program (-i -S -o) against library-assembled models for the model x binning full product - all executed on the real parser, factory and main(); the documented interface is transcribed in mc/docspec.py and cross-checked against the .rst files of the working tree on every run.',
  'plugin components (ace, BHMie) and samplers not installed (polychord, dypolychord) out of scope; documented-vs-code key/default/class-name mismatches are reported as notes only; PhoenixStar/Taurex/Iraclis/lightcurve constructors checked up to argument arrival (no data files); retrieval (-R) path of main() not run; numba/numpy/configobj/h5py trusted')

T('C18',
  'explicit-state exhaustive enumeration over (ranks, samples, weights, every assignment samples->ranks, both forced arrival orders) on the real code under a simulated MPI communicator (threads + full-barrier pickling collectives), against a two-pass weighted-variance reference and the genuine single-process run',
  'Model checking over schedules and inputs: bounded exhaustive, R<=3 n<=4 (thorough R<=4 n<=6), all R^n assignments of samples to ranks, both forced arrival orders at every collective (bit-identical observations required, divergence is a harness error), for OnlineVariance.update/parallelVariance directly and for Optimizer.generate_profiles / compute_derived_trace / fit() with a nestle double where every rank owns its model, observation and optimiser; every rank must reproduce the two-pass weighted variance of all samples and the single-process traces; each sample processed exactly once; collective mismatches and deadlocks are detected by the simulator (timeouts, never a hang).',
  'mpi4py not installed: rank identity, collective semantics and pickle serialisation are simulated, MPI progress/failure is not; ranks are threads sharing process singletons; weight lattice {0,1e-300,0.1,0.5,1}; all-zero weight vectors excluded (variance undefined)')

T('C10',
  'bounded exhaustive enumeration (small scope) of gas-profile and mixture configurations on the real TaurexChemistry/Gas classes against an independent reference (exact rational unity test, mixture filling, own formula parser for molecular masses)',
  'Bounded exhaustive model checking of composition: every enumerated configuration (5 profile types x 11 (thorough 49) layer counts x 49 control pairs x type letters; 4 fill lists x 5 ratio letters x 13 profile letters per trace slot incl. sums exactly 1, 1+1e-12, 1.2 and exceeding only at the top/surface x opacity-availability sets in cross-section and k-table mode with a decoy set in the other store) is executed on fresh real objects and compared: non-negative, columns sum to one, fill ratios exact, mu = sum chi*m, rejection as InvalidChemistryException above unity, active/inactive split by availability with aligned rows, every profile type finite, one value per layer and inside its control range.',
  'float values on the stated lattice plus two seed-generic values; totals within 4 eps of 1 accept either verdict; deactivated/forced-active molecule overrides not enumerated; profile shape beyond range/finite/length is not part of the statement; numpy trusted')

T('C11',
  'bounded exhaustive enumeration of model configurations on the real Transmission/Emission models against an independent hydrostatic reference integration; lengths and values of every exposed, dictionary and HDF5-stored per-layer profile',
  'Bounded exhaustive model checking of the vertical structure: product of layer counts (1-100) x pressure ranges x planets x temperature letters x molecular-weight letters x 8 pressure sources (simple, array, file incl. reverse/units/columns) x 2 model families (quick: core product + deviations; thorough: full product); levels strictly decreasing with geometric-mean layers, altitude/thickness/gravity/scale height/density equal to the bottom-up hydrostatic reference, and every per-layer attribute, every generate_profiles() entry and every dataset written by store_profiles has exactly one entry per layer aligned by value with the reference.',
  'array/file sources N>=2; non-monotone levels derived from strongly irregular tabulated pressures are counted, not judged (statement premise: decreasing levels); unbound-atmosphere letters compared by value only; T and mu profiles are inputs (C12/C10); numpy/h5py trusted')

T('C05',
  'bounded exhaustive enumeration (E1) of the real FluxBinner/SimpleBinner/NativeBinner against an O(n*m) overlap-weight reference',
  'Bounded exhaustive model checking of binning: every target bin [a,b] over the edge/centre/quarter lattice of 5 native-grid letters (uniform, log, constant-R, explicit widths with a gap, unequal widths) x n=2..6 x width None/explicit (1-bin binners, all bins at once in 3 orders, all ordered pairs, tilings with <=2 moved edges in all 6 orders, None/scalar target widths), all n! native permutations (n<=5 quick, <=6 thorough) with widths and errors permuted consistently, 1-D and 2-D spectra, errors None/constant/distinct/2-D; value, quadrature error, min/max bracket, constant, linearity, permutation invariance and returned grid are checked on every call; the histogram binner on all 2-/3-(4-)subsets x all native permutations; the native binner is the identity.',
  'small scope n<=6 native points; numpy trusted; nothing demanded of target bins with zero total overlap; native bins with default widths are the symmetric mid-point-width bins; SimpleBinner only with ascending targets and no judgement of empty bins; states = case families, the enumerated bindown calls are counted in transitions')

T('C17',
  'bounded exhaustive enumeration (E1): all row permutations through all four real loaders against ref.observation plus differential against sorted rows plus binned fine-grid model',
  'Bounded exhaustive model checking of observation loading: 4 wavelength spacings x n=2..4 (..6 thorough, 7 for the array source) x 3/4 columns x 3 width letters x {ArraySpectrum, ObservedSpectrum text file, TaurexSpectrum, taurex_hdf5_to_observation on a file written by HDF5Output}; for every one of the n! row permutations: ascending wavenumbers = 10000/wavelength, value/error/width still paired with their wavelength, width conversion (or mid-point derivation), bin edges in the wavelength domain, bit-identical to the sorted load, create_binner centres/widths, and a fine model binned with it equals the overlap reference element by element.',
  'n<=7 rows, distinct wavelengths; h5py and numpy trusted; binEdges compared in the wavelength domain (the first-order wavenumber width is not required to reproduce them)')

T('C14',
  'bounded exhaustive enumeration (container x shape x unit x name letters x mode x route, full (T,P) node/cell/outside lattice) plus explicit-state BFS over singleton-cache operation histories on the real classes, against an independent interpolation / gap-fill / dict model with a file-open counter',
  'Model checking over inputs, configurations and histories: every supported container (pickle, HDF5 with its pressure unit and name encodings, Exo-Transmit text, pickle and HDF5 k-tables, CIA pickle .db and HITRAN .cia with per-temperature wavenumber ranges and block orders) written by the harness from one logical SI table loads - directly, through discover() and through the caches - to the same opacity(T,P) / cia(T,nu), axis orientation and sanitised name; and an explicit-state breadth-first search over cache-operation histories (set path A|B, set_interpolation, set_memory_mode, get, add, clear) up to depth 5 (thorough 8) on the real OpacityCache / KTableCache / CIACache singletons checks against a dict model that a cached entry is served as the same object without file opens, loads touch only the configured path with bounded open counts, and every path-loaded object interpolates in the currently configured mode.',
  'small tables (2-4 nodes per axis, 3-7 wavenumbers, 1-3 g-points, up to 3 HITRAN blocks); h5py, pickle and astropy trusted; Exo-Transmit and pickle unit conventions as the readers document them; wavenumber sub-grid requests left to C13; memory mode and eager loading are not part of the statement')

T('C06',
  'bounded exhaustive enumeration (small scope) of the real callbacks captured by recording sampler doubles, against an independently built forward model + own overlap-binning / Gaussian-likelihood reference; exhaustive fault sequences',
  "Model checking over inputs, configurations and fault sequences: all fitted subsets of size 1-3 over 3 temperature-profile kinds x prior letters x 6 bin layouts x 2 error letters x {offset, exact} observations, each through all three wrappers (nestle, MultiNest, PolyChord; callbacks captured by doubles that reproduce each sampler's calling convention) on the full {0,1/4,1/2,3/4,1}^d unit-cube lattice; the prior callback must equal the per-parameter inverse CDF in parameter order and the likelihood callback -sum log(sigma sqrt(2pi)) - chi^2/2 of an independently built model binned by an own overlap reference; every sequence of length <=3 (thorough 4) over valid and invalid vectors (mixing ratios above one, inverted nodes, zero opacity): invalid never raises and never gives a finite value, and the next valid vector gives the value of a fresh optimiser.",
  'MultiNest/PolyChord not installed: wrappers driven by doubles reproducing their calling conventions; forward model (C01) and observation object (C17) trusted; 3 layers, 91 native points, <=4 bins')

T('C09',
  "bounded exhaustive enumeration of complete Optimizer.fit() runs on sampler doubles that emit enumerated sample sets in each sampler's native output format, against own weighted-quantile/mean references and an independently built model",
  "Bounded exhaustive model checking of posterior post-processing: 7 sampler letters (nestle, MultiNest multimodal / not, PolyChord clustered / not) x n<=3 (thorough 5) samples x every weight vector of {0,1,2,3}^n minus all-zero (ties and zeros) x per-dimension value permutations x fitted d=1..3 x 4 derived selections x every 2-mode split; stored traces and weights must be the double's arrays element for element, value/sigma_m/sigma_p the weighted 50, 50-16, 84-50 % quantiles, MAP the heaviest sample, mean the weighted mean, the stored spectrum the independent model at the MAP binned by the overlap reference, profiles those of the median, derived traces one entry per sample in sample order.",
  "MultiNest MAP/mean/sigma are the sampler's own statistics - pass-through only; the PolyChord double ranks likelihood like weight; one process (the rank split is C18); sigma_fraction=1; external samplers replaced by doubles")

T('C08',
  'exhaustive enumeration of prior class x every ordered pair of bound letters (both orders) / every (mean,std) x container; lin_* forms vs their log10 form; text grammar (name form x keyword combination/order x bracket x whitespace x number format x values) vs direct construction; default priors from mode/bounds through Optimizer.compile_params and update_model; full 12-point u lattice against an independent inverse-CDF reference (bisection on math.erfc)',
  'Bounded exhaustive model checking on the real prior classes: every case of the declared lattices is executed and compared with a reference written from the statement (uniform lo+u(hi-lo) whatever the order of the bounds, normal quantile by bisection on erfc, 10**x back-transform, lin_* = log10); monotone over the sorted u lattice; text-built, directly built and default priors must be the same object in class, params, boundaries and samples; unknown names are rejected.',
  'values only on the declared lattices (|bounds|<=1e3, std>=1e-3, 12 u points); scipy/numpy trusted; Gaussian boundaries() only required to be an ordered finite pair; positional-argument texts must equal direct construction or be rejected; small-scope hypothesis')

T('C12',
  'exhaustive enumeration per built-in profile family of layer count x pressure grid x structural letters (node count, node-pressure/surface-top/slope letters, control-point count, file layout, Guillot parameters on and outside bounds, constructor vs fitting setters) with every arrangement of {300,1000,2500} K on the controls and every smoothing window; invariants + Guillot closed form with an own E2 implementation; full sweep N=2..60 (thorough 2..200) x windows 0..100',
  'Bounded exhaustive model checking on the real temperature-profile classes: every returned profile must have shape (N,), be finite, positive, inside the range of its controls and constant for equal controls; Guillot must match the published closed form (reference with own series/continued-fraction E2); parameter sets the statement calls unphysical, or for which the closed form is not a positive real, must raise an InvalidModelException.',
  'windows 0..100 %, temperatures 300..2500 K, N<=200; range slack 1e-9*max (cumulative-sum rounding); equal node pressures treated as not ordered; a slope exactly at the limit may go either way; Guillot tolerance rtol 1e-9 + forward rounding bound; numpy/scipy trusted; small-scope hypothesis; three Guillot signatures are listed known findings')

T('C16',
  'bounded exhaustive enumeration (E1 product space + E2 explicit-state BFS over set/reload histories) of the real HDF5 writer, binners and model loader against a TauREx-free reference',
  'Model checking over inputs, configurations and histories: every leaf type (floats, ints, bools, numpy scalars, strings incl. empty / 64 / 65 chars / non-ascii, 0-2-d arrays, empty arrays, lists, tuples, lists of strings, nested dicts) x key x nesting depth <=3 and all ordered sibling pairs through store_dictionary and read back with h5py; every binner x OutputSize x model type x grid for the self-consistency of stored spectra (wavelength grids, binned wavelength widths converted at the bin centre, binned = binner(native), tau presence by size); <=2 (thorough <=3 + full core product) deviations over model type x 10 temperature x 3 pressure x 7 gas sets x 4 fill x 7 contribution letters with write->load->write->load (same classes, parameter values, spectrum; second-generation file is a fixed point); and all set:<fitting parameter> / reload histories to depth 2 (3 for one configuration) where a reloaded model must stay bisimilar to the never-reloaded one.',
  "small scope: <=20 layers, 7 wavenumbers, in-memory opacities; h5py/numpy trusted; keys without '/'; explicit refusals by the writer are outside the quantifier; components needing unshipped data not enumerated; file-based profiles reloaded while their files still exist; two signatures are listed known findings")

T('C07',
  'explicit-state BFS over operation histories on real model+observation+Optimizer; canonical key incl. hidden prior tables; settings-dict reference + fresh-object differential + value round trip',
  'Model checking over histories: every history of the 10 set-up operations (enable_fit, disable_fit, set_mode, set_boundary, set_factor_boundary, set_prior, enable_derived, disable_derived, compile_params, update_model, plus error letters) up to depth 3 over 4 parameters / 3 derived, depth 4 over 2 parameters, depth 2 from 2 non-initial presets (quick); depth 4 over 5 parameters / 3 derived / 4 prior kinds, depth 6 over 2 parameters, depth 5 over a model+observation pair (thorough), executed by breadth-first search on the real objects with states merged on a canonical key that contains the hidden prior tables; every step is compared with a settings-dict reference, every compile with a fresh model+optimiser given only the net settings, every reported value vector is written back (round trip), update_model must set exactly the fitted parameters to the prior-transformed values and leave all others bit-identical, error letters must raise and leave the state unchanged.',
  'small scope: 5 of 11 parameters exercised, positive values/bounds only (log10 defined), views constrained only right after compile_params/update_model, boundaries of explicitly-priored parameters accepted in either reading, samplers not involved')


# phases added after the seeded-change waves (DESIGN.md 9.3 / 9.5): appended to the level text
ADDED = {
    'C01': 'History phase: every sequence (depth 2, thorough 3) of parameter updates, spectral-window requests, paired updates and first evaluations through model_contrib / model_full_contrib on one live model against a fresh model built from the net settings; large spectral grids (65537-262145 points); integer wavenumber axes; extended atmospheres. A licence-boundary phase (a grey user source at exactly tau = 10, +-1 ulp, before / after the absorption). Rejected states inside histories (the history continues); a star smaller than the planet.',
    'C02': 'History phase as for C01 (incl. stellar parameters, windows, per-source entry points, numpy-scalar values); every source and component alone against the same integral; quadrature set on the built model; integer wavenumber axes. Rejected states inside histories; a 2e5 K star. 101 and 128 emission angles.',
    'C03': 'Also: correlated-k mode for every insertion order, sources added after build(), tabulated compositions that do not sum to one, H- invariants, all entry points on the same requested grid. Collision pairs appended to / assigned on default-constructed sources; two sources of one built-in kind in one model. Error rounds (every entry point refuses, then the usual checks). A collision pair with an absorbing partner.',
    'C04': 'Also: single-node axes, tables of 40001-140003 spectral points, integer axes and integer arguments, descending / shuffled wavenumber requests, a twin table with equal axis summaries alive in the process, mode switches on the live object. Every two-significant-digit pressure (Pa and bar) as bottom / middle / top node of the pressure axis with the temperature below, on, inside and above its axis. A k-table exposed as a non-contiguous transposed view. Pressure rows thirty decades apart; a request array refilled in place.',
    'C05': 'Also: reuse sequences on one live binner (equal-summary native grids), integer target grids, list / tuple / scalar native widths, bin_model in every native order. Descending target grids for the histogram binner. Eight decades per native point; native bins 3.5 times as wide as their spacing.',
    'C06': 'Also: an observation-owned fitted parameter, priors registered on unfitted parameters, extreme error bars, a broad band inside narrow bins, observation replaced on a live optimiser. An end bin far narrower than the native spacing. Two bins sharing a centre.',
    'C07': 'Also: writes from outside the optimiser between updates, differently capitalised and invalid mode names, numpy vectors. Observations exposing only a derived or only a fitted parameter; mutual agreement of the views between a settings change and the next compile_params. What write_optimizer / write_fit store against the reported set-up; user-defined prior classes overriding prior(). A user-defined forward model registering parameters after the base constructor.',
    'C08': 'Also: integer bounds and integer values, explicit plus signs in prior text, observation-owned default priors, live priors re-bounded after sampling. User priors on parameters whose mode and bounds give no default; bounds and means at 1e-300 / 1e300.',
    'C09': 'Also: repeated trace values with a tie-order hull oracle, a most probable sample with a zero coordinate. 11-13 modes / clusters, a non-default MultiNest file prefix next to an earlier run\'s files, stored per-source spectra at the MAP. Gaussian / log-Gaussian priors with samples in the tails; light / lighter output sizes.',
    'C10': 'Also: species-name phase (names differing by case only, bracket groups, two-digit counts), integer ratios, deactivated molecules, history phase with requested-value oracle, state after a rejection. Opacity data for every gas incl. the fill gases; every fill list x every pair of trace profiles. Neighbouring deactivated molecules. Two-layer boundaries sharper than two layers; tabulated compositions (also square).',
    'C11': 'Also: every length unit of the planet integration, integer temperatures, history phase (paired mass / radius updates, per-source entry points). File columns / header lines that differ; the pressure range moved to a disjoint one in either order. Temperatures tabulated on their own pressure points (also top-down).',
    'C12': 'Also: history phase per profile family (setter sequences, re-initialisation on other grids, planet updates), numpy-scalar and integer controls, negative interior nodes. Channel weights outside [0, 1] in histories; fresh profile built from constructor arguments. Every state read twice; two interior nodes; deeper small alphabets through rejected states. Orientation of node-based profiles.',
    'C13': 'Also: reuse sequences on one live model, near-coincident (ppm) grids, narrow second tables, CIA on its own grid, an opaque band, per-source entry points on restricted grids. Per-source calls with the full / restricted roles of the two models switched.',
    'C14': 'Also: directory-change histories (files appearing between requests, private directory per history), molecule names contained in one another, list-valued search paths, dotted directories, Exo-Transmit block orders. Touching HITRAN ranges, hand-added objects of the other interpolation mode, deuterated file names. Python-2 pickles (small and several read buffers long). HITRAN third column; HDF5 tables above 8 MiB.',
    'C15': 'Also: [Fitting] sections applied to a live optimiser (every option subset), ready-made components handed to generate_model, stacked plugin mixins and plugin registration of every family, observation x binning on the command line incl. taurex_spectrum = self, second generation from one parser. Numeric keys set to zero (constructor refusals judged against the library call). Layering under [Model] without [Pressure] on the command line; a mixin sharing a keyword with its base. makefree+file with gas sub-sections against the library construction.',
    'C16': 'Also: second and third outputs on one binner, stored per-source contributions (full and reduced size), a bystander model of the same classes alive during write / reload, active fill gases, TAB-delimited files. Bin edges on native points; a source without components. A refused write followed by a valid write to the same open output. Native points handed over in two ascending blocks.',
    'C17': 'Also: integer-typed arrays, right-aligned text files, independence of the input buffer, model grids that stop short of or coincide with the observation. Three rows of four columns. HDF5 files carrying binned_* and native_* next to instrument_*.',
    'C18': 'Also: posteriors of 9-40 samples, a condensate-reporting chemistry, combined statistics asked twice, tied derived values, weight ratios of 1e-20. Everything stored next to the standard deviations equals the single-process run. The real taurex.mpi collectives over a stand-in mpi4py (lists up to 2500 items); NaN elements; 5-16 ranks.',
    'C19': 'Also: history phase (incl. hazes constructed with inverted bounds, windows, entry points; fresh model built from constructor arguments), hazes alone through both per-source entry points, one-layer atmospheres, late-added deck, integer pressure arrays. Nested and adjoining haze windows (every pair / triple of a lattice of bounds). Flat hazes on a grid of alternating narrow and wide layers.',
    'C20': 'Also: history phase in correlated-k mode incl. k-tables replaced under a live model, second molecules on differently spaced / shorter tables, descending k-distributions, haze contributions, zero-abundance first gas. Interpolation mode \'exp\', single-precision k-table files, non-absorption sources alone in both opacity modes. Quadrature points listed in descending order in the files. Large spectral grids (2500-5000, thorough 70001 points) in correlated-k mode for all model kinds; a source opaque at one wavenumber before the absorption.',
}


def main():
    props = [json.loads(l) for l in open(os.path.join(VERIF, 'properties.jsonl'))]
    have = sorted(os.path.basename(p)[:-3].upper() for p in glob.glob(os.path.join(VERIF, 'mc', 'checks', 'c[0-9][0-9].py')))
    na_path = os.path.join(VERIF, 'mc', 'not_applicable.json')
    na_reasons = json.load(open(na_path)) if os.path.exists(na_path) else {}
    checks = []
    na = []
    for p in props:
        i = p['id']
        if i in have and i in TEXT and i not in na_reasons:
            tech, text, note, ref = TEXT[i]
            if i in ADDED:
                text = text.rstrip() + '  ' + ADDED[i]
            checks.append({
                'property_id': i,
                'quick_cmd': 'cd /verif && /venv/bin/python -m mc.run %s --tier quick' % i,
                'thorough_cmd': 'cd /verif && /venv/bin/python -m mc.run %s --tier thorough' % i,
                'evidence_file': '/verif/evidence/%s.json' % i,
                'replay_cmd_template': 'cd /verif && /venv/bin/python -m mc.run %s --replay {path}' % i,
                'engine': 'mc',
                'level_claimed': {'category': 'model_checking', 'text': text, 'design_ref': ref},
                'level_note': note,
                'technique': tech,
            })
        else:
            na.append({'property_id': i, 'reason': na_reasons.get(i, 'check not built yet in this session (planned, see DESIGN.md section 4); not claimed until its quick command exists and is silent on the unchanged tree')})
    hooks_path = os.path.join(VERIF, 'mc', 'hooks.json')
    hooks = {'guard': 'TAUREX_VERIF',
             'enable': 'no source hooks: all interception is attribute replacement from the harness process (taurex.mpi.*, nestle.sample, sys.modules doubles for pymultinest/pypolychord); /venv imports /repo working tree (editable install, and /repo is put first on sys.path)',
             'baseline_off_cmd': 'cd /repo && /venv/bin/python -m pytest -ra -q -p no:cacheprovider --timeout=900 --continue-on-collection-errors',
             'source_commits': [], 'add_only': True}
    m = {'version': 1,
         'setup_cmd': 'cd /verif && /venv/bin/python -m compileall -q mc && /venv/bin/python -c "import sys; sys.path.insert(0, \'/repo\'); import taurex, os; assert os.path.realpath(taurex.__file__).startswith(\'/repo/\'), taurex.__file__"',
         'hooks': hooks,
         'engines': [{'name': 'mc', 'path': '/verif/mc', 'serves_properties': [c['property_id'] for c in checks],
                      'kind_free_text': 'hand-written explicit-state / bounded-exhaustive explorer over the real Python objects (E1: product spaces with deviation bounds; E2: breadth-first search over operation histories with canonical state keys), reference models in mc/ref'}],
         'checks': checks,
         'not_applicable': na,
         'notes': 'All checks: python -m mc.run <ID> --tier quick|thorough [--replay file]. VERIF_SEED selects generic float values only; alphabets are seed-independent. Known findings: /verif/known_findings.json.'}
    with open(os.path.join(VERIF, 'MANIFEST.json'), 'w') as f:
        json.dump(m, f, indent=1)
    from mc.run import validate_json
    bad = validate_json('/root/.vp/MANIFEST.schema.json', os.path.join(VERIF, 'MANIFEST.json'))
    print(('INVALID: ' + bad) if bad else 'MANIFEST.json valid: %d checks, %d not_applicable' % (len(checks), len(na)))


if __name__ == '__main__':
    main()
