"""python -m mc.run <ID> [--tier quick|thorough] [--replay path]      (DESIGN.md 2.12)

exit 0: property held on everything explored (KNOWN-FINDING lines for listed findings)
exit 1: at least one unlisted violation:  VIOLATION property=<ID> replay=<path>
exit 2: harness error (nondeterministic violation, vacuous exploration, invalid evidence)
"""
import argparse
import importlib
import json
import os
import sys
import time


def _reexec_if_needed():
    if os.environ.get('PYTHONHASHSEED') != '0':
        env = dict(os.environ)
        env['PYTHONHASHSEED'] = '0'
        env.setdefault('NUMBA_NUM_THREADS', '1')
        env.setdefault('OMP_NUM_THREADS', '1')
        env.setdefault('MKL_NUM_THREADS', '1')
        env.setdefault('OPENBLAS_NUM_THREADS', '1')
        os.execve(sys.executable, [sys.executable, '-m', 'mc.run'] + sys.argv[1:], env)


def main(argv=None):
    ap = argparse.ArgumentParser()
    ap.add_argument('prop')
    ap.add_argument('--tier', default=os.environ.get('VERIF_TIER') or 'quick',
                    choices=['quick', 'thorough'])
    ap.add_argument('--replay', default=None)
    ap.add_argument('--workers', type=int, default=None)
    ap.add_argument('--no-evidence', action='store_true')
    args = ap.parse_args(argv)
    _reexec_if_needed()

    repo = os.environ.get('VERIF_REPO', '/repo')
    if repo not in sys.path[:1]:
        sys.path.insert(0, repo)
    seed = int(os.environ.get('VERIF_SEED', '0') or 0)
    os.environ['VERIF_SEED'] = str(seed)

    from mc import core
    core.SEED = seed
    core._quiet()
    prop = args.prop.upper()
    mod = importlib.import_module('mc.checks.' + prop.lower())

    if args.replay:
        return replay(mod, args.replay)

    workers = args.workers or int(os.environ.get('VERIF_WORKERS', '0') or 0)
    if not workers:
        ncpu = os.cpu_count() or 1
        workers = min(16, ncpu) if args.tier == 'thorough' else min(6, ncpu)
    # one scratch directory per run, inherited by the workers and removed by the parent
    import shutil
    import tempfile
    run_tmp = tempfile.mkdtemp(prefix='taurex_verif_run_', dir=os.environ.get('VERIF_TMP') or None)
    os.environ['VERIF_TMP'] = run_tmp
    ctx = core.Ctx(mod, args.tier, seed, workers, repo)
    try:
        try:
            mod.explore(ctx)
        finally:
            ctx.close()
        return finish(ctx, mod, write_evidence=not args.no_evidence)
    finally:
        shutil.rmtree(run_tmp, ignore_errors=True)


def validate_json(schema, path):
    """Validate with the tooling interpreter (jsonschema is not installed in /venv).  Returns
    an error text, or '' when valid or when no validator is available."""
    import shutil
    import subprocess
    vt = shutil.which('python3-vt') or '/opt/veriftools/pyvenv/bin/python'
    if not os.path.exists(schema) or not (vt and os.path.exists(vt)):
        return ''
    from mc import core
    p = subprocess.run([vt, os.path.join(core.VERIF, 'mc', 'validate.py'), schema, path],
                       capture_output=True, text=True)
    return '' if p.returncode == 0 else (p.stderr or p.stdout)


def replay_in_fresh_process(prop, e, seed, repo):
    import subprocess
    import tempfile
    from mc import core
    fd, path = tempfile.mkstemp(suffix='.json', prefix='replay_')
    os.close(fd)
    try:
        with open(path, 'w') as f:
            json.dump({'property': prop, 'fn': e['fn'], 'case': core.jsonable(e['case']), 'sub': e['sub'],
                       'sig': e['sig'], 'seed': seed}, f)
        env = dict(os.environ, VERIF_SEED=str(seed), VERIF_REPO=repo)
        p = subprocess.run([sys.executable, '-m', 'mc.run', prop, '--replay', path], cwd=core.VERIF, env=env,
                           capture_output=True, text=True)
        return p.returncode == 1 and ('VIOLATION property=%s' % prop) in p.stdout
    finally:
        os.unlink(path)


def replay(mod, path):
    from mc import core
    with open(path) as f:
        rp = json.load(f)
    core.SEED = int(rp.get('seed', 0))
    if rp['sig'].startswith('crash/worker-process-died'):
        repo = os.environ.get('VERIF_REPO') or '/repo'
        status, _ = core.isolated_calls(mod.__name__, core.SEED, repo, rp['fn'], rp['case'], 1)
        print('replay %s: the process running the case %s' % (path, 'died' if status == 'died' else 'survived'))
        if status == 'died':
            print('VIOLATION property=%s replay=%s' % (mod.ID, path))
            return 1
        print('recorded violation %r does not reproduce on this tree' % rp['sig'])
        return 0
    for pc in rp.get('prefix', []):
        core.call_case(mod, rp['fn'], pc)       # the cases that ran before it in the recorded sequence
    r = core.call_case(mod, rp['fn'], rp['case'])
    sigs = [v['sig'] for v in r.violations]
    print('replay %s: %d oracle comparisons, violations: %s' % (path, r.checks, sigs))
    for v in r.violations:
        print(json.dumps(v, indent=1)[:3000])
    if rp['sig'] in sigs:
        print('VIOLATION property=%s replay=%s' % (mod.ID, path))
        return 1
    print('recorded violation %r does not reproduce on this tree' % rp['sig'])
    return 0


def finish(ctx, mod, write_evidence=True):
    from mc import core
    known = core.load_known()
    prop = ctx.prop
    n_viol = 0
    harness = []
    lines = []
    rdir = os.path.join(core.VERIF, 'replays', prop)
    todo = [sig for sig in sorted(ctx.viol) if not sig.startswith('harness/')]
    # every reported violation is replayed in fresh processes first; a tree that breaks a property in hundreds of
    # distinctly named ways gets the first CAP of them replayed (signatures not listed as known findings first), the
    # rest is counted only - the exit status is 1 either way
    CAP = 120
    todo.sort(key=lambda s_: (core.known_for(prop, s_, known) is not None, s_))
    if len(todo) > CAP:
        # round-robin over the kinds of signature (their first two path components), so that one prolific kind does not
        # crowd out the others
        groups = {}
        for s_ in todo:
            groups.setdefault('/'.join(s_.split('/')[:2]), []).append(s_)
        picked = []
        while len(picked) < CAP and any(groups.values()):
            for g_ in sorted(groups):
                if groups[g_] and len(picked) < CAP:
                    picked.append(groups[g_].pop(0))
        skipped = [s_ for s_ in todo if s_ not in set(picked)]
        todo = picked
    else:
        skipped = []
    for s_ in skipped:
        del ctx.viol[s_]
    first = dict(zip(todo, core.isolated_calls_many(mod.__name__, ctx.seed, ctx.repo,
                                                    [(ctx.viol[s_]['fn'], ctx.viol[s_]['case']) for s_ in todo], 2,
                                                    parallel=max(2, min(8, ctx.workers)))))
    fallback_spent = [0.0]
    for sig in sorted(ctx.viol):
        e = ctx.viol[sig]
        if sig.startswith('harness/'):
            harness.append(e)
            continue
        # replay twice in this process: the same case must fail the same way.  A defect that corrupts
        # process-wide state (a shared default, a class-level cache) changes what a second execution in the
        # same process sees, so a case that does not reproduce here is replayed twice more, each time in a
        # fresh interpreter, before it is called nondeterministic.
        # (in a worker process of its own, never in this reporting process: the case may crash compiled code)
        status, calls = first[sig]
        if sig.startswith('crash/worker-process-died'):
            ok = status == 'died'
            if not ok:
                status2, _ = core.isolated_calls(mod.__name__, ctx.seed, ctx.repo, e['fn'], e['case'], 2)
                ok = status2 == 'died'
            if ok:
                e['detail'] = dict(e['detail'], replay_note='the worker process running this case dies (twice)')
                calls = None
        else:
            ok = status == 'ok' and all(sig in c_ for c_ in calls)
        if not ok and not sig.startswith('crash/') and status == 'ok' and sig not in calls[0]:
            # not even the first execution in a fresh process shows it: this exemplar depends on what ran before it in
            # its worker.  Another case with the same signature may fail on its own.
            # (bounded effort: not when three violations are already confirmed, nor beyond three minutes in total)
            t_fb = time.time()
            spend = fallback_spent[0] < 180.0 and n_viol < 3
            for alt in (e.get('alts', []) if spend else []):
                st_a, calls_a = core.isolated_calls(mod.__name__, ctx.seed, ctx.repo, alt['fn'], alt['case'], 2)
                if st_a == 'ok' and all(sig in c_ for c_ in calls_a):
                    e = dict(e, fn=alt['fn'], case=alt['case'], detail=alt['detail'])
                    ok = True
                    break
            if not ok and e.get('prefix') and spend:
                # ... or it fails as the end of a short sequence of cases: the cases its worker ran immediately before
                # it (process-wide state left behind by an earlier case is part of the history, and the sequence is the
                # replayable schedule).  Shortest suffix of that run, by doubling; twice, in two fresh processes.
                pre = e['prefix']
                k_ = 1
                while not ok:
                    seq = pre[-k_:] + [e['case']]
                    st1, s1 = core.isolated_sequence(mod.__name__, ctx.seed, ctx.repo, e['fn'], seq)
                    if st1 == 'ok' and sig in s1:
                        st2, s2 = core.isolated_sequence(mod.__name__, ctx.seed, ctx.repo, e['fn'], seq)
                        if st2 == 'ok' and sig in s2:
                            ok = True
                            e = dict(e, replay_prefix=pre[-k_:])
                            e['detail'] = dict(e['detail'], replay_note='fails as the last of a sequence of %d cases run '
                                               'in one process (state left behind by an earlier case)' % (len(seq)))
                            break
                    if k_ >= len(pre):
                        break
                    k_ = min(len(pre), k_ * 2)
            fallback_spent[0] += time.time() - t_fb
            if not ok:
                harness.append(dict(e, sig='harness/nondeterministic-violation/' + sig))
                continue
        if not ok and not sig.startswith('crash/'):
            ok = replay_in_fresh_process(prop, e, ctx.seed, ctx.repo) and \
                replay_in_fresh_process(prop, e, ctx.seed, ctx.repo)
            if ok:
                e['detail'] = dict(e['detail'], replay_note='reproduces only in a fresh process '
                                   '(the violation changes process-wide state)')
        if not ok:
            harness.append(dict(e, sig='harness/nondeterministic-violation/' + sig))
            continue
        k = core.known_for(prop, sig, known)
        if k is not None:
            lines.append('KNOWN-FINDING: property=%s %s [signature %s; %d cases]' % (
                prop, k.get('what_fails', ''), sig, e['count']))
            continue
        n_viol += 1
        os.makedirs(rdir, exist_ok=True)
        name = core.ohash(sig) + '.json'
        path = os.path.join(rdir, name)
        with open(path, 'w') as f:
            rec = {'property': prop, 'fn': e['fn'], 'case': core.jsonable(e['case']),
                   'sub': e['sub'], 'sig': sig, 'detail': e['detail'], 'seed': ctx.seed,
                   'tier': ctx.tier, 'cases_with_this_signature': e['count']}
            if e.get('replay_prefix'):
                rec['prefix'] = core.jsonable(e['replay_prefix'])      # cases to run first, in the same process
            json.dump(rec, f, indent=1)
        lines.append('VIOLATION property=%s replay=%s' % (prop, path))
        lines.append('  signature=%s cases=%d detail=%s' % (
            sig, e['count'], json.dumps(e['detail'])[:400]))
    if skipped:
        lines.append('NOTE: %d further violation signatures were not replayed (more than %d distinct signatures)' % (
            len(skipped), CAP))
    wall = time.time() - ctx.t0
    states = len(ctx.state_keys)
    cov = {
        'states': states,
        'transitions': ctx.transitions,
        'traces_validated_against_impl': ctx.traces,
        'samples': ctx.samples[:12],
        'evaluations': ctx.evaluations,
        'distinct_nontrivial': len(ctx.nontrivial),
        'distinct_outcomes': len(ctx.outcomes),
        'rule': getattr(mod, 'RULE', ''),
        'exhaustive': bool(ctx.exhaustive),
        'bound': core.jsonable(ctx.bounds),
        'caps_hit': ctx.caps,
        'sub_oracle_comparisons': ctx.counters,
        'explanation': 'every case of the bounded space was executed on the real implementation '
                       'imported from the working tree and compared with the reference model '
                       '(traces_validated_against_impl = executions so compared)',
        'known_findings_seen': [l for l in lines if l.startswith('KNOWN-FINDING')],
        'notes': ctx.notes,
    }
    ev = {'property_id': prop, 'tier': ctx.tier, 'seed': ctx.seed, 'level': 'model_checking',
          'coverage': cov, 'assumptions': list(getattr(mod, 'ASSUME', [])), 'wall_s': round(wall, 2),
          'violations': n_viol}
    for l in lines:
        print(l)
    print('%s tier=%s seed=%d cases=%d states=%d transitions=%d outcomes=%d nontrivial=%d '
          'violations=%d known=%d wall=%.1fs exhaustive=%s' % (
              prop, ctx.tier, ctx.seed, ctx.evaluations, states, ctx.transitions, len(ctx.outcomes),
              len(ctx.nontrivial), n_viol, sum(1 for l in lines if l.startswith('KNOWN')), wall,
              ctx.exhaustive))
    if harness:
        for e in harness[:10]:
            print('HARNESS-ERROR %s case=%s detail=%s' % (
                e['sig'], json.dumps(core.jsonable(e['case']))[:300], json.dumps(e['detail'])[:1500]))
    vac = None
    if ctx.evaluations == 0 or ctx.transitions == 0:
        vac = 'no case evaluated'
    elif len(ctx.outcomes) < 2 and not getattr(mod, 'SINGLE_OUTCOME_OK', False):
        vac = 'vacuous exploration: %d distinct outcomes' % len(ctx.outcomes)
    if vac:
        print('HARNESS-ERROR ' + vac)
    if write_evidence:
        os.makedirs(os.path.join(core.VERIF, 'evidence'), exist_ok=True)
        evp = os.path.join(core.VERIF, 'evidence', prop + '.json')
        with open(evp, 'w') as f:
            json.dump(ev, f, indent=1, sort_keys=True)
        bad = validate_json('/root/.vp/EVIDENCE.schema.json', evp)
        if bad:
            print('HARNESS-ERROR evidence does not validate: ' + bad[-600:])
            harness.append({'sig': 'harness/evidence'})
    if n_viol:
        return 1
    if harness or vac:
        return 2
    return 0


if __name__ == '__main__':
    sys.exit(main())
