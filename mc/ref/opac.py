"""Reference opacity interpolation, written from the statement of C04 (not from the code).

Tables are xsec[nP, nT, ...] in cm^2 on node grids Tg (K) and Pg (Pa); the result is in m^2.
"""
import math
import numpy as np


def bracket(grid, v):
    """Indices (lo, hi) of the cell containing v after clamping v to the grid, plus the clamped
    value.  A value on an interior node belongs to either adjacent cell (both give the node
    value); we return the lower cell whose upper node it is, except at the first node."""
    g = np.asarray(grid, dtype=float)
    vc = min(max(v, g[0]), g[-1])
    hi = 1
    while hi < len(g) - 1 and g[hi] < vc:
        hi += 1
    return hi - 1, hi, vc


def region(grid, v):
    g = np.asarray(grid, dtype=float)
    if v < g[0]:
        return 'below'
    if v > g[-1]:
        return 'above'
    if v == g[0]:
        return 'min'
    if v == g[-1]:
        return 'max'
    if v in g:
        return 'node'
    return 'inside'


def interp_opacity(xsec, Tg, Pg, T, P, mode='linear', zero_corner=True):
    """Clamped interpolation of the table at (T, P[Pa]); returns m^2.

    linear: bilinear in (T, log10 P).
    exp   : linear in log10 P on both bracketing temperature nodes, then
            sigma = a * (b/a) ** ((1/T - 1/T_lo) / (1/T_hi - 1/T_lo)).
    Documented exception: below both the minimum T and the minimum P the result is zero."""
    x = np.asarray(xsec, dtype=float)
    Tg = np.asarray(Tg, dtype=float)
    Pg = np.asarray(Pg, dtype=float)
    lPg = [math.log10(p_) for p_ in Pg]
    # regions and cells are decided on the pressures themselves (a request on a node IS on the node, whatever the last
    # digit of a logarithm); only the position inside the cell is measured in log10 P
    if zero_corner and T < Tg[0] and P < Pg[0]:
        return np.zeros(x.shape[2:])
    t0, t1, Tc = bracket(Tg, T)
    p0, p1, Pcl = bracket(Pg, P)
    fp = (math.log10(Pcl) - lPg[p0]) / (lPg[p1] - lPg[p0])
    fp = min(max(fp, 0.0), 1.0)
    # convex combinations (not a + f (b - a)): neighbouring rows may be tens of decades apart, and a node must come out
    # as the node
    a = (1.0 - fp) * x[p0, t0] + fp * x[p1, t0]      # at T_lo
    b = (1.0 - fp) * x[p0, t1] + fp * x[p1, t1]      # at T_hi
    if mode == 'linear':
        ft = (Tc - Tg[t0]) / (Tg[t1] - Tg[t0])
        out = (1.0 - ft) * a + ft * b
    elif mode == 'exp':
        ft = (1.0 / Tc - 1.0 / Tg[t0]) / (1.0 / Tg[t1] - 1.0 / Tg[t0])
        with np.errstate(all='ignore'):
            out = a * (b / a) ** ft
    else:
        raise ValueError(mode)
    return out / 1e4


def bracket_nodes(xsec, Tg, Pg, T, P):
    """min and max over the (up to four) bracketing nodes, m^2."""
    x = np.asarray(xsec, dtype=float)
    t0, t1, _ = bracket(Tg, T)
    p0, p1, _ = bracket(np.asarray(Pg, dtype=float), P)
    nodes = np.stack([x[p0, t0], x[p0, t1], x[p1, t0], x[p1, t1]])
    return nodes.min(axis=0) / 1e4, nodes.max(axis=0) / 1e4
