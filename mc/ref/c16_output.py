"""Reference definitions for C16 (output files), written from the property statement.

Nothing here imports TauREx.  Three groups:

* what a stored leaf must look like when it is read back with h5py (`leaf_equal`, `tree_diff`);
* the self-description rules of a stored spectrum (`wl_of_wn`, `wlwidth_at_centre`,
  `midpoint_widths`);
* comparison of two HDF5 trees (`h5_tree`, `h5_diff`) for the fixed-point oracle.
"""
import numpy as np


# ----------------------------------------------------------------------------------------------
# leaves
# ----------------------------------------------------------------------------------------------
def _decode(b):
    """The documented decoding of stored strings: bytes are UTF-8 (taurex.util.util.
    decode_string_array and util/hdf5 both call .decode() / .decode('utf-8'))."""
    if isinstance(b, bytes):
        return b.decode('utf-8')
    if isinstance(b, np.bytes_):
        return bytes(b).decode('utf-8')
    return str(b)


def same_numbers(got, want, exact=True, rtol=0.0):
    """Shape and values equal; NaN equals NaN at the same position."""
    g = np.asarray(got)
    w = np.asarray(want)
    if g.shape != w.shape:
        return False
    if g.size == 0:
        return True
    if w.dtype.kind in 'fc' or g.dtype.kind in 'fc':
        g = g.astype(float)
        w = w.astype(float)
        both_nan = np.isnan(g) & np.isnan(w)
        with np.errstate(all='ignore'):
            if exact:
                ok = (g == w)
            else:
                ok = (np.abs(g - w) <= rtol * np.maximum(np.abs(g), np.abs(w))) | (g == w)
        return bool(np.all(ok | both_nan))
    return bool(np.all(g == w))


def leaf_equal(readback, original):
    """(ok, why).  readback: what `h5py_dataset[()]` returned; original: the Python object that was
    handed to the writer.  Arrays/scalars: same shape, same dtype kind (float/int/bool), same
    values bit for bit.  Strings: equal after UTF-8 decoding.  Lists/tuples of strings: the same
    sequence of strings (any array layout: the elements are taken in C order).  Lists/tuples of
    numbers or arrays: the array numpy makes of them."""
    o = original
    if isinstance(o, str):
        r = readback
        if isinstance(r, np.ndarray):
            if r.size != 1:
                return False, 'string came back as array of shape %s' % (r.shape,)
            r = r.ravel()[0]
        try:
            s = _decode(r)
        except UnicodeDecodeError:
            return False, 'stored bytes are not UTF-8'
        return (s == o), ('string differs: %r != %r' % (s[:80], o[:80]) if s != o else '')
    if isinstance(o, (list, tuple)) and any(isinstance(x, str) for x in o):
        r = np.asarray(readback)
        if r.size != len(o):
            return False, 'string list of %d came back with %d elements' % (len(o), r.size)
        try:
            got = [_decode(x) for x in r.ravel().tolist()]
        except UnicodeDecodeError:
            return False, 'stored bytes are not UTF-8'
        if got != list(o):
            for i, (a, b) in enumerate(zip(got, o)):
                if a != b:
                    return False, 'element %d differs: %r (len %d) != %r (len %d)' % (
                        i, a[:70], len(a), b[:70], len(b))
        return True, ''
    w = np.asarray(o)
    r = np.asarray(readback)
    if r.dtype.kind in 'OSU':
        return False, 'number came back as dtype %s' % r.dtype
    kinds = {'f': 'f', 'i': 'i', 'u': 'i', 'b': 'b'}
    if kinds.get(r.dtype.kind) != kinds.get(w.dtype.kind):
        return False, 'dtype kind %s != %s' % (r.dtype.kind, w.dtype.kind)
    if r.shape != w.shape:
        return False, 'shape %s != %s' % (r.shape, w.shape)
    if not same_numbers(r, w):
        return False, 'values differ'
    return True, ''


def tree_diff(read, orig, path=''):
    """read: nested dict {name: value-or-dict} read from the file; orig: the dictionary given to
    the writer.  Yields (path, kind, why) for every difference.  kind in
    missing / extra / group-vs-leaf / leaf."""
    for k in orig:
        p = path + '/' + str(k)
        if str(k) not in read:
            yield p, 'missing', 'name not in file'
            continue
        rv = read[str(k)]
        ov = orig[k]
        if isinstance(ov, dict):
            if not isinstance(rv, dict):
                yield p, 'group-vs-leaf', 'dictionary stored as dataset'
            else:
                for d in tree_diff(rv, ov, p):
                    yield d
        else:
            if isinstance(rv, dict):
                yield p, 'group-vs-leaf', 'leaf stored as group'
                continue
            ok, why = leaf_equal(rv, ov)
            if not ok:
                yield p, 'leaf', why
    names = set(str(k) for k in orig)
    for k in read:
        if k not in names:
            yield path + '/' + k, 'extra', 'name in file that was not in the dictionary'


# ----------------------------------------------------------------------------------------------
# spectra
# ----------------------------------------------------------------------------------------------
def wl_of_wn(wn):
    """wavelength [um] = 10000 / wavenumber [cm-1]"""
    return 10000.0 / np.asarray(wn, dtype=float)


def wlwidth_at_centre(wn, wnwidth):
    """|d lambda| = 10000 * d nu / nu^2 at the bin centre nu"""
    wn = np.asarray(wn, dtype=float)
    return 10000.0 * np.asarray(wnwidth, dtype=float) / (wn * wn)


def midpoint_widths(grid):
    """Full widths of the bins whose edges are the midpoints of neighbouring centres; the outer
    edges mirror the neighbouring half-spacing (the documented default of the binners)."""
    g = np.asarray(grid, dtype=float)
    n = len(g)
    edges = np.empty(n + 1)
    for i in range(1, n):
        edges[i] = 0.5 * (g[i - 1] + g[i])
    edges[0] = g[0] - 0.5 * (g[1] - g[0])
    edges[n] = g[n - 1] + 0.5 * (g[n - 1] - g[n - 2])
    return np.abs(edges[1:] - edges[:-1])


# ----------------------------------------------------------------------------------------------
# HDF5 trees
# ----------------------------------------------------------------------------------------------
def h5_tree(group):
    """nested dict of an h5py group: datasets -> value read with [()], groups -> dict."""
    import h5py
    out = {}
    for k in group:
        v = group[k]
        if isinstance(v, h5py.Group):
            out[k] = h5_tree(v)
        else:
            out[k] = v[()]
    return out


def h5_diff(a, b, path='', rtol=0.0):
    """Differences of two trees made by h5_tree: yields (path, why)."""
    for k in sorted(set(a) | set(b)):
        p = path + '/' + k
        if k not in a:
            yield p, 'only in second'
            continue
        if k not in b:
            yield p, 'only in first'
            continue
        x, y = a[k], b[k]
        if isinstance(x, dict) != isinstance(y, dict):
            yield p, 'group vs dataset'
        elif isinstance(x, dict):
            for d in h5_diff(x, y, p, rtol):
                yield d
        else:
            xa, ya = np.asarray(x), np.asarray(y)
            if xa.dtype.kind in 'OSU' or ya.dtype.kind in 'OSU':
                if xa.shape != ya.shape or xa.ravel().tolist() != ya.ravel().tolist():
                    yield p, 'strings differ: %r != %r' % (xa.ravel().tolist()[:4], ya.ravel().tolist()[:4])
            elif not same_numbers(xa, ya, exact=(rtol == 0.0), rtol=rtol):
                yield p, 'values differ: %r != %r' % (xa.ravel()[:4].tolist(), ya.ravel()[:4].tolist())
