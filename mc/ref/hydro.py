"""Reference model for C11: log-spaced pressure grid and bottom-up hydrostatic integration.

Written from the property statement; plain Python loops.  Physical constants only from
taurex.constants (trusted data); nothing of planet.py / simplemodel.py is called.
"""
import math

import numpy as np


def simple_levels(nlayers, pmin, pmax):
    """N+1 levels, log-spaced, surface (pmax) first, top (pmin) last."""
    a, b = math.log10(pmax), math.log10(pmin)
    return np.array([10.0 ** (a + (b - a) * i / nlayers) for i in range(nlayers + 1)])


def layer_pressure(levels):
    lv = np.asarray(levels, dtype=float)
    return np.array([math.sqrt(lv[i] * lv[i + 1]) for i in range(len(lv) - 1)])


def hydrostatic(levels, T, mu, mass_kg, radius_m):
    """z[0..N] boundaries (z0=0), per-layer H, g, dz:
         g_i = G M/(R+z_i)^2,  H_i = k T_i/(mu_i g_i),  dz_i = H_i ln(P_i/P_{i+1})."""
    from taurex.constants import G, KBOLTZ
    n = len(T)
    z = [0.0]
    H, g, dz = [], [], []
    for i in range(n):
        gi = G * mass_kg / (radius_m + z[i]) ** 2
        Hi = KBOLTZ * float(T[i]) / (float(mu[i]) * gi)
        di = Hi * math.log(float(levels[i]) / float(levels[i + 1]))
        g.append(gi)
        H.append(Hi)
        dz.append(di)
        z.append(z[i] + di)
    return np.array(z), np.array(H), np.array(g), np.array(dz)


def number_density(P, T):
    from taurex.constants import KBOLTZ
    return np.asarray(P, dtype=float) / (KBOLTZ * np.asarray(T, dtype=float))
