"""Reference definitions for C06 / C09: plain numpy / pure Python, written from the property
statements (never calls TauREx).

    midpoint_edges(c)              edges of the bins represented by sorted centres c (mid-points
                                   between neighbours, end bins symmetric about their centre)
    overlap_bin(nc, nw, s, tc, tw) overlap-weighted mean of s (native centres nc, full widths nw)
                                   in every target bin [tc - tw/2, tc + tw/2]; 0 where nothing
                                   overlaps
    gauss_loglike(obs, sig, mod)   -sum(log(sig*sqrt(2*pi))) - chi^2/2   and chi^2
    wquantile_interval(x, w, q)    weighted quantile by sorted cumulative weights; returned as an
                                   interval [lo, hi] (lo == hi except where the cumulative weight
                                   is flat exactly at q, i.e. next to zero-weight samples)
    wmean(x, w)                    sum(w x)/sum(w)
"""
import math

import numpy as np


def midpoint_edges(c):
    c = np.asarray(c, dtype=float)
    n = len(c)
    e = np.empty(n + 1)
    for i in range(1, n):
        e[i] = 0.5 * (c[i - 1] + c[i])
    e[0] = c[0] - (e[1] - c[0])
    e[n] = c[n - 1] + (c[n - 1] - e[n - 1])
    return e


def native_bins(c):
    """(centres, full widths) of the bins represented by the sorted native grid c."""
    e = midpoint_edges(c)
    return np.asarray(c, dtype=float), np.abs(np.diff(e))


def overlap_bin(nc, nw, s, tc, tw):
    """O(n*m) overlap-weighted mean.  Native bin i = [nc_i - nw_i/2, nc_i + nw_i/2]."""
    nc = np.asarray(nc, dtype=float)
    nw = np.asarray(nw, dtype=float)
    s = np.asarray(s, dtype=float)
    tc = np.asarray(tc, dtype=float)
    tw = np.asarray(tw, dtype=float)
    out = np.zeros(len(tc))
    for j in range(len(tc)):
        a, b = tc[j] - tw[j] / 2.0, tc[j] + tw[j] / 2.0
        num = 0.0
        den = 0.0
        for i in range(len(nc)):
            lo, hi = nc[i] - nw[i] / 2.0, nc[i] + nw[i] / 2.0
            ov = min(b, hi) - max(a, lo)
            if ov > 0.0:
                num += ov * s[i]
                den += ov
        out[j] = num / den if den > 0.0 else 0.0
    return out


def gauss_loglike(obs, sig, mod):
    obs = np.asarray(obs, dtype=float)
    sig = np.asarray(sig, dtype=float)
    mod = np.asarray(mod, dtype=float)
    const = 0.0
    chi2 = 0.0
    for o, s, m in zip(obs, sig, mod):
        const -= math.log(s * math.sqrt(2.0 * math.pi))
        chi2 += ((o - m) / s) ** 2
    return const - 0.5 * chi2, const, chi2


def _wq(xs, cdf, q):
    """linear interpolation of the points (cdf_i, xs_i); clamped at the ends; for a flat piece
    (equal cdf) returns the right-most value not beyond q"""
    n = len(xs)
    if q <= cdf[0]:
        return xs[0]
    if q >= cdf[n - 1]:
        # right-most sample reached: first index whose cdf reaches the total
        return xs[n - 1]
    for i in range(1, n):
        if cdf[i - 1] <= q < cdf[i]:
            t = (q - cdf[i - 1]) / (cdf[i] - cdf[i - 1])
            return xs[i - 1] + t * (xs[i] - xs[i - 1])
    return xs[n - 1]


def wquantile_interval(x, w, q, delta=1e-12):
    """As _wquantile_interval_sorted, hulled over every order in which samples of exactly equal value can be
    sorted (which of two equal values comes first is not defined by "the weighted quantile of the trace", and the
    interpolated value just below a group of equal values depends on it)."""
    import itertools
    x = np.asarray(x, dtype=float)
    idx = sorted(range(len(x)), key=lambda i: x[i])
    groups = []
    for i in idx:
        if groups and x[groups[-1][0]] == x[i]:
            groups[-1].append(i)
        else:
            groups.append([i])
    nord = 1
    for g in groups:
        nord *= math.factorial(len(g))
    if nord == 1 or nord > 5040:
        return _wquantile_interval_sorted(x, w, q, idx, delta)
    lo, hi = math.inf, -math.inf
    for combo in itertools.product(*[list(itertools.permutations(g)) for g in groups]):
        order = [i for g in combo for i in g]
        a, b = _wquantile_interval_sorted(x, w, q, order, delta)
        lo, hi = min(lo, a), max(hi, b)
    return lo, hi


def _wquantile_interval_sorted(x, w, q, order, delta=1e-12):
    """Weighted quantile of x at q (sorted cumulative weights, linearly interpolated).  Returns
    (lo, hi): the quantile function evaluated at q-delta and q+delta, hulled with every sample
    whose cumulative weight equals q within delta - all of them are 'the q-quantile' of the
    stored samples when the cumulative weight is flat at q (zero-weight neighbours)."""
    x = np.asarray(x, dtype=float)
    w = np.asarray(w, dtype=float)
    xs = [float(x[i]) for i in order]
    tot = math.fsum(float(v) for v in w)
    cdf = []
    acc = 0.0
    for i in order:
        acc += float(w[i])
        cdf.append(acc / tot)
    a = _wq(xs, cdf, q - delta)
    b = _wq(xs, cdf, q + delta)
    cand = [a, b]
    for xi, ci in zip(xs, cdf):
        if abs(ci - q) <= delta:
            cand.append(xi)
    # q beyond the last cumulative step that changes: trailing zero-weight samples share cdf = 1
    return min(cand), max(cand)


def wmean(x, w):
    x = np.asarray(x, dtype=float)
    w = np.asarray(w, dtype=float)
    return math.fsum(float(a) * float(b) for a, b in zip(x, w)) / math.fsum(float(b) for b in w)
