"""Reference model of the retrieval set-up (C07): a plain dict of settings.

Written from the property statement and the user documentation (doc/source/user/taurex/fitting.rst):

* every fittable parameter has the settings  fit (bool), mode ('linear'|'log'), bounds (a pair, always
  in linear space), an optional explicit prior (new-style ``prior`` option) and a current value;
  every derived parameter has the setting compute (bool);
* ``compile`` takes a snapshot: the fitted parameters are those with fit=True in the (fixed) declared
  order; the prior of a fitted parameter is its explicit prior when one is set, otherwise the old-style
  default  Uniform(bounds)  for mode linear /  LogUniform(log10 bounds)  for mode log;
* the reported name carries the prefix ``log_`` iff the prior is a log prior; reported value and
  reported boundaries are expressed in the space of the name;
* ``update(v)`` sets fitted parameter i to  v_i  (linear prior) or  10**v_i  (log prior) and nothing
  else; a vector of the wrong length and an unknown parameter name are errors and change nothing.

Nothing here imports TauREx.
"""
import copy
import math


class RefError(Exception):
    """The reference model says: this operation is an error (state unchanged)."""


LOG_PRIORS = ('LogUniform', 'LogGaussian')
Z90 = 1.2815515655446004        # standard normal quantile of 0.9 (Gaussian.boundaries: 10 % .. 90 %)


def prior_is_log(spec):
    return spec[0] in LOG_PRIORS


def prior_transform(is_log, v):
    return 10 ** v if is_log else v


def prior_boundaries(spec):
    """Boundaries of the prior itself, in the prior's own space."""
    kind, (a, b) = spec
    if kind in ('Uniform', 'LogUniform'):
        return (a, b)
    return (a - Z90 * b, a + Z90 * b)


def default_prior(mode, bounds):
    lo, hi = bounds
    if mode == 'log':
        lo, hi = math.log10(lo), math.log10(hi)
        return ('LogUniform', (min(lo, hi), max(lo, hi)))
    return ('Uniform', (min(lo, hi), max(lo, hi)))


def explicit_prior(kind, args):
    """kind in Uniform/LogUniform (args = bounds in the prior's own space) or Gaussian/LogGaussian
    (args = mean, std in the prior's own space)."""
    a, b = args
    if kind in ('Uniform', 'LogUniform'):
        return (kind, (min(a, b), max(a, b)))
    return (kind, (a, b))


class Settings(object):
    def __init__(self, params, derived):
        """params: ordered list of (name, mode, fit, (lo, hi), value) in declared order;
        derived: ordered list of (name, compute)."""
        self.order = [p[0] for p in params]
        self.p = dict((p[0], {'mode': p[1], 'fit': bool(p[2]), 'bounds': (p[3][0], p[3][1]),
                              'prior': None, 'value': p[4]}) for p in params)
        self.dorder = [d[0] for d in derived]
        self.d = dict((d[0], bool(d[1])) for d in derived)
        self.compiled = None        # list of (name, prior spec) ; None = never compiled
        self.compiled_derived = None
        self.ncompiles = 0

    def copy(self):
        return copy.deepcopy(self)

    # -- settings ---------------------------------------------------------------------------------
    def _par(self, name):
        if name not in self.p:
            raise RefError('unknown parameter %r' % (name,))
        return self.p[name]

    def enable_fit(self, name):
        self._par(name)['fit'] = True

    def disable_fit(self, name):
        self._par(name)['fit'] = False

    def set_mode(self, name, mode):
        if mode not in ('linear', 'log'):
            raise RefError('bad mode')
        self._par(name)['mode'] = mode

    def set_boundary(self, name, bounds):
        self._par(name)['bounds'] = (bounds[0], bounds[1])

    def set_factor_boundary(self, name, factors):
        s = self._par(name)
        s['bounds'] = (factors[0] * s['value'], factors[1] * s['value'])

    def set_prior(self, name, spec):
        self._par(name)['prior'] = spec

    def _der(self, name):
        if name not in self.d:
            raise RefError('unknown derived parameter %r' % (name,))

    def enable_derived(self, name):
        self._der(name)
        self.d[name] = True

    def disable_derived(self, name):
        self._der(name)
        self.d[name] = False

    # -- compile / views --------------------------------------------------------------------------
    def implied_prior(self, name):
        s = self.p[name]
        return s['prior'] if s['prior'] is not None else default_prior(s['mode'], s['bounds'])

    def compile(self):
        self.compiled = [(n, self.implied_prior(n)) for n in self.order if self.p[n]['fit']]
        self.compiled_derived = [n for n in self.dorder if self.d[n]]
        self.ncompiles += 1

    def views(self):
        """What the optimiser has to report right after a compile.  Two readings of "the boundaries
        implied by the settings" are acceptable for a parameter with an explicit prior: the
        ``bounds`` setting expressed in the space of the name ('bounds'), or the boundaries of the
        prior itself ('bounds_prior'); for default priors the two coincide."""
        names, values, bounds, priors, pbounds = [], [], [], [], []
        for n, spec in self.compiled:
            s = self.p[n]
            lg = prior_is_log(spec)
            names.append('log_' + n if lg else n)
            values.append(math.log10(s['value']) if lg else s['value'])
            lo, hi = s['bounds']
            if lg:
                lo, hi = math.log10(lo), math.log10(hi)
            bounds.append((min(lo, hi), max(lo, hi)))
            priors.append(spec)
            pbounds.append(prior_boundaries(spec))
        return {'names': names, 'values': values, 'bounds': bounds, 'priors': priors, 'bounds_prior': pbounds,
                'derived': list(self.compiled_derived)}

    def nfit(self):
        return 0 if self.compiled is None else len(self.compiled)

    def update(self, vec, log_flags=None):
        """Write a parameter vector.  log_flags: per fitted parameter, whether the *reported* prior
        is a log prior (defaults to the reference's own compiled priors).  Returns the list of
        (name, new value)."""
        n = self.nfit()
        if len(vec) != n:
            raise RefError('vector length %d != %d fitted parameters' % (len(vec), n))
        out = []
        for i, (name, spec) in enumerate(self.compiled or []):
            lg = prior_is_log(spec) if log_flags is None else bool(log_flags[i])
            val = prior_transform(lg, vec[i])
            self.p[name]['value'] = val
            out.append((name, val))
        return out

    # -- net settings (for the differential oracle) -----------------------------------------------
    def net(self, initial):
        """Differences between the current settings and `initial` (another Settings): per parameter
        a dict with only the changed entries, in declared order; derived flags that changed."""
        out = []
        for n in self.order:
            a, b = self.p[n], initial.p[n]
            d = {}
            for k in ('fit', 'mode', 'bounds', 'prior', 'value'):
                if a[k] != b[k]:
                    d[k] = a[k]
            if d:
                out.append((n, d))
        dd = [(n, self.d[n]) for n in self.dorder if self.d[n] != initial.d[n]]
        return out, dd
