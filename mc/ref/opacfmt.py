"""Reference definitions for C14 (written from the property statement and the format
descriptions; nothing here imports taurex).

* molecule / pair names from file names ("sanitised name")
* the unified HITRAN CIA table with documented gap filling
* CIA interpolation in temperature and wavenumber
* a plain-dict model of the lazy opacity caches
"""
import os

import numpy as np


# ----------------------------------------------------------------------------------------------
# names
# ----------------------------------------------------------------------------------------------
def sanitise(text):
    """'1H2-16O' -> 'H2O', '12C-16O2' -> 'CO2', '23Na' -> 'Na': element symbols (capital letter,
    optional lower-case letter) each followed by its count; isotope mass numbers (digits that do
    not follow an element symbol) and every other character are dropped."""
    out = []
    i, n = 0, len(text)
    after_element = False
    while i < n:
        c = text[i]
        if c.isupper() and c.isalpha() and c.isascii():
            sym = c
            if i + 1 < n and text[i + 1].isalpha() and text[i + 1].islower() and text[i + 1].isascii():
                sym += text[i + 1]
                i += 1
            out.append(sym)
            after_element = True
        elif c.isdigit() and after_element:
            out.append(c)
        else:
            after_element = False
        i += 1
    return ''.join(out)


def stem_all(filename):
    """basename without its last extension"""
    return os.path.splitext(os.path.basename(filename))[0]


def molecule_part(fmt, filename):
    """The part of the file name that names the molecule: everything before the first '.' and
    before the first '_' (suffixes such as '__POKAZATEL', '_R1000', '.R15000.TauREx' describe the
    line list / resolution); Exo-Transmit files are called opac<Molecule>.dat."""
    s = stem_all(filename)
    if fmt == 'exo':
        if s.startswith('opac'):
            s = s[4:]
        return s
    s = s.split('.')[0]
    s = s.split('_')[0]
    return s


def molecule_name(fmt, filename):
    return sanitise(molecule_part(fmt, filename))


def pair_name(filename):
    """CIA pair = file stem up to the first '_' ('H2-He_2011.cia' -> 'H2-He')."""
    return stem_all(filename).split('_')[0]


# ----------------------------------------------------------------------------------------------
# HITRAN CIA: per-temperature wavenumber ranges -> one table
# ----------------------------------------------------------------------------------------------
def hitran_unified(blocks):
    """blocks: [{'wn': [n], 'rows': {T: [n] m^5}}].  Master temperature grid = sorted union of all
    temperatures.  A block contributes, at a master temperature it does not list,
        zero                       outside [min, max] of the temperatures it does list,
        the linear interpolation   between its two neighbouring listed temperatures otherwise.
    Negative tabulated values (noise in the HITRAN files) are no absorption: 0.
    Returns wn[nW] ascending, temps[nT], table[nT, nW] in m^5."""
    temps = sorted(set(float(T) for b in blocks for T in b['rows']))
    cols_wn = []
    cols = []
    for b in blocks:
        own = sorted(float(T) for T in b['rows'])
        rows = dict((float(T), np.clip(np.asarray(v, dtype=float), 0.0, None))
                    for T, v in b['rows'].items())
        n = len(b['wn'])
        tab = np.zeros((len(temps), n))
        for i, T in enumerate(temps):
            if T in rows:
                tab[i] = rows[T]
            elif T < own[0] or T > own[-1]:
                tab[i] = 0.0
            else:
                lo = max(t for t in own if t < T)
                hi = min(t for t in own if t > T)
                f = (T - lo) / (hi - lo)
                tab[i] = rows[lo] + f * (rows[hi] - rows[lo])
        cols_wn.append(np.asarray(b['wn'], dtype=float))
        cols.append(tab)
    wn = np.concatenate(cols_wn)
    tab = np.concatenate(cols, axis=1)
    order = np.argsort(wn, kind='stable')
    return wn[order], np.array(temps), tab[:, order]


def cia_T(table, temps, T):
    """Linear interpolation in temperature inside the tabulated range; None outside (the
    statement only demands that the containers agree there)."""
    temps = np.asarray(temps, dtype=float)
    table = np.asarray(table, dtype=float)
    if T < temps[0] or T > temps[-1]:
        return None
    for i, t in enumerate(temps):
        if t == T:
            return table[i].copy()
    hi = int(np.searchsorted(temps, T))
    lo = hi - 1
    f = (T - temps[lo]) / (temps[hi] - temps[lo])
    return table[lo] + f * (table[hi] - table[lo])


def lin_wn(wn, y, q):
    """piecewise-linear interpolation of y(wn) at the points q, all inside [wn[0], wn[-1]]"""
    wn = np.asarray(wn, dtype=float)
    y = np.asarray(y, dtype=float)
    out = np.empty(len(q))
    for k, v in enumerate(q):
        if v == wn[-1]:
            out[k] = y[-1]
            continue
        hi = int(np.searchsorted(wn, v, side='right'))
        lo = hi - 1
        f = (v - wn[lo]) / (wn[hi] - wn[lo])
        out[k] = y[lo] + f * (y[hi] - y[lo])
    return out


# ----------------------------------------------------------------------------------------------
# dict model of a lazy cache (OpacityCache / KTableCache / CIACache)
# ----------------------------------------------------------------------------------------------
class CacheModel(object):
    """What is registered for which molecule, from where, and whether it *must* still be served.

    avail: {path letter: {molecule: source id}} - what a search path can provide.

    The statement demands: a requested molecule is loaded once from the configured path and the
    same object is served thereafter; a change of interpolation mode is in effect for everything
    served afterwards.  It does not say whether a mode / memory-mode change or clear_cache() drops
    the registered objects or updates them in place, so after such an operation an entry is
    'stale': the next request may serve the same object again or load anew from the path
    configured then - the model follows the implementation's choice (commit_*) and only the
    outcomes listed by allowed_get() are accepted.  In every case a path-loaded object that is
    served must interpolate in the mode configured *now* (current_mode()).

        ['path', X]   configure the search path; loads nothing
        ['interp', m] / ['mem', b] / ['clear']   every entry becomes stale
        ['add', mol]  a fresh entry must be ignored (existing='skip') or refused ('raise');
                      without an entry the object is registered and must be served from then on
        ['get', mol]
    """

    def __init__(self, avail, existing='skip', default_mode='linear'):
        self.avail = avail
        self.existing = existing
        self.default_mode = default_mode
        self.path = None
        self.mode = None
        self.mem = None
        self.reg = {}            # mol -> {'src':..., 'fresh': bool}

    def current_mode(self):
        return self.mode or self.default_mode

    def configure(self, op):
        k = op[0]
        if k == 'path':
            self.path = op[1]
        elif k == 'interp':
            self.mode = op[1]
        elif k == 'mem':
            self.mem = op[1]
        elif k != 'clear':
            raise ValueError(op)
        if k != 'path':
            for e in self.reg.values():
                e['fresh'] = False

    def loadable(self, mol):
        return self.avail.get(self.path, {}).get(mol)

    def allowed_get(self, mol):
        e = self.reg.get(mol)
        src = self.loadable(mol)
        if e is not None and e['fresh']:
            return {'hit'}
        out = set()
        if e is not None:
            out.add('hit')
        out.add('load' if src is not None else 'raise')
        return out

    def commit_get(self, mol, outcome):
        if outcome == 'hit':
            self.reg[mol]['fresh'] = True
        elif outcome == 'load':
            self.reg[mol] = {'src': self.loadable(mol), 'fresh': True}
        else:
            self.reg.pop(mol, None)

    def allowed_add(self, mol, present):
        """present: the cache's own dictionary lists the molecule just before the call (only
        consulted for a stale entry, where both behaviours are acceptable)."""
        e = self.reg.get(mol)
        if e is not None and (e['fresh'] or present):
            return 'raise' if self.existing == 'raise' else 'ignored'
        return 'registered'

    def commit_add(self, mol, outcome):
        if outcome == 'registered':
            self.reg[mol] = {'src': 'manual', 'fresh': True}
        elif mol in self.reg:
            self.reg[mol]['fresh'] = True

    def key(self):
        return (self.path, self.mode, self.mem,
                tuple(sorted((m, v['src'], v['fresh']) for m, v in self.reg.items())))
