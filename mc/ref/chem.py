"""Reference model for C10: molecular masses from formulas, mixture filling, exact unity test.

Written from the property statement (C10) and the documented definitions; nothing here imports
or calls the chemistry code under test.  Only physical constants (AMU) are taken from
taurex.constants (trusted data).
"""
from fractions import Fraction

import numpy as np

# standard atomic weights (IUPAC 1995 table, the table TauREx documents), amu
ATOMIC_WEIGHT = {
    'H': 1.00794, 'He': 4.002602, 'C': 12.011, 'N': 14.00674, 'O': 15.9994, 'Na': 22.989768,
    'S': 32.066, 'K': 39.0983, 'Ti': 47.88, 'V': 50.9415, 'Fe': 55.847,
    'Li': 6.941, 'F': 18.9984032, 'Ne': 20.1797, 'Mg': 24.3050, 'Al': 26.981539, 'Si': 28.0855, 'P': 30.973762,
    'Cl': 35.4527, 'Ar': 39.948, 'Ca': 40.078, 'Co': 58.93320, 'Cs': 132.90543, 'Hf': 178.49, 'No': 259.0, 'I': 126.90447,
}


def parse_formula(formula):
    """'H2O' -> {'H':2,'O':1}; supports nested brackets '(..)n', '[..]n', '{..}n'.  A trailing
    charge sign ('H-', 'H3O+') carries no mass.  Recursive descent, no regular expressions."""
    pos = [0]
    s = formula

    def number():
        j = pos[0]
        while j < len(s) and s[j].isdigit():
            j += 1
        n = int(s[pos[0]:j]) if j > pos[0] else 1
        pos[0] = j
        return n

    def group(closer):
        out = {}
        while pos[0] < len(s):
            c = s[pos[0]]
            if c in '([{':
                pos[0] += 1
                sub = group({'(': ')', '[': ']', '{': '}'}[c])
                n = number()
                for k, v in sub.items():
                    out[k] = out.get(k, 0) + v * n
            elif c in ')]}':
                if c != closer:
                    raise ValueError('unbalanced bracket in %r' % formula)
                pos[0] += 1
                return out
            elif c.isupper():
                j = pos[0] + 1
                if j < len(s) and s[j].islower():
                    j += 1
                el = s[pos[0]:j]
                pos[0] = j
                n = number()
                out[el] = out.get(el, 0) + n
            elif c in '+-':
                pos[0] += 1
            else:
                raise ValueError('cannot parse %r at %d' % (formula, pos[0]))
        if closer is not None:
            raise ValueError('unbalanced bracket in %r' % formula)
        return out
    return group(None)


def molecular_mass_amu(formula, table=None):
    table = ATOMIC_WEIGHT if table is None else table
    return sum(table[el] * n for el, n in parse_formula(formula).items())


def molecular_mass_kg(formula):
    from taurex.constants import AMU
    return molecular_mass_amu(formula) * AMU


def exact_total(traces):
    """Per-layer exact (rational) sum of the float trace values."""
    if len(traces) == 0:
        return []
    n = len(traces[0])
    return [sum((Fraction(float(t[i])) for t in traces), Fraction(0)) for i in range(n)]


def unity_class(traces, band=4 * 2.220446049250313e-16):
    """'valid'   : exact total <= 1 in every layer (and no layer inside the rounding band above 1),
       'invalid' : exact total  > 1+band in some layer,
       'rounding': some layer has 1 < total <= 1+band, or 1-band < total < 1 while the float sum in
                   some order could round above 1 -> either verdict is licensed there.
    """
    tot = exact_total(traces)
    one = Fraction(1)
    b = Fraction(band)
    if any(t > one + b for t in tot):
        return 'invalid'
    if any(one < t <= one + b for t in tot):
        return 'rounding'
    if any(one - b < t < one for t in tot):
        return 'rounding'
    return 'valid'


def fill_mixture(traces, nfill, ratios, nlayers):
    """Mixture rows [fill_0..fill_{nfill-1}, trace_0..] by the definition in the statement:
    remainder r = 1 - sum(traces); fill_0 = r/(1+sum(ratios)); fill_k = ratio_k*fill_0."""
    tot = np.zeros(nlayers)
    for t in traces:
        tot = tot + np.asarray(t, dtype=float)
    rem = 1.0 - tot
    if nfill == 1:
        fills = [rem]
    else:
        s = 0.0
        for q in ratios:
            s += float(q)
        main = rem / (1.0 + s)
        fills = [main] + [float(q) * main for q in ratios]
    return np.vstack(fills + [np.asarray(t, dtype=float) for t in traces])


def mu_profile(names, rows):
    mu = np.zeros(np.asarray(rows).shape[1])
    for n, row in zip(names, rows):
        mu = mu + np.asarray(row, dtype=float) * molecular_mass_kg(n)
    return mu
