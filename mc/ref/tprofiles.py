"""Reference formulas for temperature profiles (property C12).

Pure Python / numpy, written from the property statement and the published formulas:

* exponential integrals E_n(x) by the classical series (x <= 1) and the modified-Lentz continued
  fraction (x > 1) - no scipy.special;
* the Guillot (2010, A&A 520, A27, eq. 49) profile in the two-visible-channel form of
  Line et al. (2012, ApJ 749, 93, eq. 19):

      T^4 = 3 T_int^4/4 (2/3 + tau)
            + 3 T_irr^4/4 (1-alpha) xi(gamma_1, tau) + 3 T_irr^4/4 alpha xi(gamma_2, tau)
      xi(g, tau) = 2/3 + 2/(3g) [1 + (g tau/2 - 1) exp(-g tau)] + 2g/3 (1 - tau^2/2) E2(g tau)
      gamma_i = kappa_vi / kappa_ir,   tau = kappa_ir P / g_planet

* validity of a set of (pressure, temperature) nodes: pressures strictly decreasing from the
  surface to the top, |dT / dlog10 P| below the slope limit.
"""
import math

import numpy as np

EULER = 0.5772156649015328606
EPS = 2.220446049250313e-16


def expn(n, x):
    """E_n(x) for integer n >= 1 (n >= 0 for x > 0), real x >= 0.  nan for x < 0 (not real)."""
    if x != x or x < 0 or n < 0:
        return float('nan')
    if x == 0.0:
        return math.inf if n <= 1 else 1.0 / (n - 1)
    if n == 0:
        return math.exp(-x) / x
    if x > 745.2:
        return 0.0
    nm1 = n - 1
    if x > 1.0:
        tiny = 1e-300
        b = x + n
        c = 1.0 / tiny
        d = 1.0 / b
        h = d
        for i in range(1, 10000):
            a = -i * (nm1 + i)
            b += 2.0
            d = 1.0 / (a * d + b)
            c = b + a / c
            de = c * d
            h *= de
            if abs(de - 1.0) < EPS:
                break
        return h * math.exp(-x)
    ans = 1.0 / nm1 if nm1 != 0 else -math.log(x) - EULER
    fact = 1.0
    for i in range(1, 10000):
        fact *= -x / i
        if i != nm1:
            de = -fact / (i - nm1)
        else:
            psi = -EULER + sum(1.0 / k for k in range(1, nm1 + 1))
            de = fact * (-math.log(x) + psi)
        ans += de
        if abs(de) < abs(ans) * EPS * 0.1:
            break
    return ans


def _xi(g, tau):
    """Returns (xi, sum of the absolute values of the terms that are added) - the second value
    bounds the rounding error of any double-precision evaluation of the published expression."""
    x = g * tau
    if not (x >= 0.0) or g == 0.0:
        return float('nan'), float('nan')
    ex = math.exp(-x)
    e2 = expn(2, x)
    t1 = 2.0 / 3.0
    t2 = 2.0 / (3.0 * g) * (1.0 + (x / 2.0 - 1.0) * ex)
    t3 = 2.0 * g / 3.0 * (1.0 - tau ** 2 / 2.0) * e2
    mag = t1 + abs(2.0 / (3.0 * g)) * (1.0 + abs(x / 2.0 - 1.0) * ex) + abs(2.0 * g / 3.0) * (1.0 + tau ** 2 / 2.0) * e2
    return t1 + t2 + t3, mag


def guillot_T4(pressure, gravity, T_irr, kappa_ir, kappa_v1, kappa_v2, alpha, T_int):
    """T^4 per layer and the rounding-error scale (sum of |terms|).  nan where the closed form
    is not a real number (E2 of a negative argument, division by zero)."""
    P = np.asarray(pressure, dtype=float)
    T4 = np.full(P.shape, np.nan)
    mag = np.full(P.shape, np.nan)
    if kappa_ir == 0 or gravity == 0:
        return T4, mag
    g1 = kappa_v1 / kappa_ir
    g2 = kappa_v2 / kappa_ir
    for i, p in enumerate(P):
        tau = kappa_ir * p / gravity
        a = 3.0 * T_int ** 4 / 4.0 * (2.0 / 3.0 + tau)
        x1, m1 = _xi(g1, tau)
        x2, m2 = _xi(g2, tau)
        c = 3.0 * T_irr ** 4 / 4.0
        T4[i] = a + c * (1.0 - alpha) * x1 + c * alpha * x2
        mag[i] = abs(3.0 * T_int ** 4 / 4.0) * (2.0 / 3.0 + abs(tau)) + abs(c * (1.0 - alpha)) * m1 + abs(c * alpha) * m2
    return T4, mag


def guillot(pressure, gravity, T_irr, kappa_ir, kappa_v1, kappa_v2, alpha, T_int, rtol=1e-9):
    """Returns (T, tol, T4): temperature, the absolute tolerance on T (rtol plus the forward
    rounding-error bound 32 eps sum|terms| of the published expression), and T^4."""
    T4, mag = guillot_T4(pressure, gravity, T_irr, kappa_ir, kappa_v1, kappa_v2, alpha, T_int)
    with np.errstate(all='ignore'):
        T = np.where(T4 > 0, np.abs(T4) ** 0.25, np.nan)
        tol = T * (rtol + 0.25 * 32 * EPS * mag / np.abs(T4))
    return T, tol, T4


def surface_gravity(mass_kg, radius_m, G):
    return G * mass_kg / radius_m ** 2


def nodes_verdict(pnodes, tnodes, limit_slope):
    """'inverted' when the node pressures are not strictly decreasing (surface first);
    'slope' when some |dT/dlog10 P| exceeds the limit; 'slope-edge' when it equals the limit to
    rounding (either verdict is acceptable); otherwise 'valid'."""
    p = [float(v) for v in pnodes]
    t = [float(v) for v in tnodes]
    if any(not (v > 0) for v in p):
        return 'inverted'
    if any(p[i] <= p[i + 1] for i in range(len(p) - 1)):
        return 'inverted'
    worst = 0.0
    for i in range(len(p) - 1):
        worst = max(worst, abs((t[i + 1] - t[i]) / (math.log10(p[i + 1]) - math.log10(p[i]))))
    if worst > limit_slope * (1 + 1e-9):
        return 'slope'
    if worst >= limit_slope * (1 - 1e-9):
        return 'slope-edge'
    return 'valid'


def max_slope(pnodes, tnodes):
    worst = 0.0
    for i in range(len(pnodes) - 1):
        worst = max(worst, abs((tnodes[i + 1] - tnodes[i]) / (math.log10(pnodes[i + 1]) - math.log10(pnodes[i]))))
    return worst
