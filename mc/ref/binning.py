"""Reference models for spectral binning and observation loading (C05, C17).

Plain numpy / pure Python written from the property statements:

* a *bin* is the closed interval  [c - w/2, c + w/2]  given by a centre and a full width;
* when no widths are supplied the documented default is "computed from the grid": the width of
  point i is the distance between the mid-points to its neighbours (the end points mirror their only
  neighbour), see midpoint_edges / midpoint_widths;
* binning = mean of the native values weighted by the length of overlap of each native bin with the
  target bin; uncertainties: the same weights in quadrature;
* histogram binning = plain mean of the native points lying between target mid-points;
* an observation given as rows (wavelength, value, error[, width]) is the same rows ordered by
  ascending wavenumber 10000/wavelength, widths converted with the first-order rule
  dnu = 10000 dlambda / lambda^2.

Nothing here imports TauREx.  All functions accept the points in ANY order (they are written as
O(n*m) loops over pairs, no sorting, no searching) except where a neighbour relation is part of the
definition (mid-point widths), where the points are ranked explicitly.
"""
import numpy as np


# ----------------------------------------------------------------------------------------------
# widths from mid-points
# ----------------------------------------------------------------------------------------------
def midpoint_edges(c):
    """Edges of the mid-point partition of the *ordered* (ascending or descending) centres c
    (len >= 2): n+1 values, the outer ones mirror the first/last half-spacing."""
    c = [float(v) for v in c]
    n = len(c)
    if n < 2:
        raise ValueError('mid-point widths need at least two points')
    e = [c[0] - (c[1] - c[0]) / 2.0]
    for i in range(n - 1):
        e.append(c[i] + (c[i + 1] - c[i]) / 2.0)
    e.append(c[n - 1] + (c[n - 1] - c[n - 2]) / 2.0)
    return np.array(e)


def midpoint_widths(c):
    """Full width of every point of c (any order) = distance between the mid-points to its
    neighbours in value order; returned in the order of c."""
    c = np.asarray(c, dtype=float)
    rank = sorted(range(len(c)), key=lambda i: c[i])
    e = midpoint_edges([c[i] for i in rank])
    w = np.zeros(len(c))
    for k, i in enumerate(rank):
        w[i] = abs(e[k + 1] - e[k])
    return w


# ----------------------------------------------------------------------------------------------
# overlap-weighted mean
# ----------------------------------------------------------------------------------------------
def overlap_weights(c, w, tc, tw):
    """W[j, i] = length of the overlap of native bin i with target bin j (>= 0)."""
    c = np.asarray(c, dtype=float)
    w = np.asarray(w, dtype=float)
    tc = np.asarray(tc, dtype=float)
    tw = np.asarray(tw, dtype=float)
    lo = c - w / 2
    hi = c + w / 2
    W = np.zeros((len(tc), len(c)))
    for j in range(len(tc)):
        a = tc[j] - tw[j] / 2
        b = tc[j] + tw[j] / 2
        # every native bin against this target bin (no ordering assumed, nothing skipped)
        W[j, :] = np.maximum(0.0, np.minimum(b, hi) - np.maximum(a, lo))
    return W


def overlap_bin(c, w, s, tc, tw, e=None):
    """Overlap-weighted mean of s (shape (..., n)) on the target bins (tc, tw).

    Returns (value (..., m), error (..., m) or None, sumw (m,), W (m, n)); value/error are NaN
    for target bins with sumw == 0 (nothing is defined there)."""
    s = np.asarray(s, dtype=float)
    W = overlap_weights(c, w, tc, tw)
    m = W.shape[0]
    sumw = np.array([float(np.sum(W[j])) for j in range(m)])
    val = np.full(s.shape[:-1] + (m,), np.nan)
    err = None
    if e is not None:
        e = np.asarray(e, dtype=float)
        err = np.full(e.shape[:-1] + (m,), np.nan)
    for j in range(m):
        if sumw[j] > 0:
            val[..., j] = np.sum(W[j] * s, axis=-1) / sumw[j]
            if e is not None:
                err[..., j] = np.sqrt(np.sum((W[j] * e) ** 2, axis=-1)) / sumw[j]
    return val, err, sumw, W


def overlap_bounds(s, W):
    """(lo, hi) (..., m): smallest / largest native value among the native bins overlapping each
    target bin with positive length (NaN when there is none)."""
    s = np.asarray(s, dtype=float)
    m = W.shape[0]
    lo = np.full(s.shape[:-1] + (m,), np.nan)
    hi = np.full(s.shape[:-1] + (m,), np.nan)
    for j in range(m):
        sel = W[j] > 0
        if np.any(sel):
            lo[..., j] = np.min(s[..., sel], axis=-1)
            hi[..., j] = np.max(s[..., sel], axis=-1)
    return lo, hi


# ----------------------------------------------------------------------------------------------
# histogram mean
# ----------------------------------------------------------------------------------------------
def hist_bin(c, s, tc):
    """Plain mean of the native points lying between the mid-points around each (ascending)
    target centre.  Returns (lo_mean, hi_mean, count_strict, count_edge):

    * count_strict[j]: native points strictly inside bin j; count_edge[j]: points exactly on one
      of its two edges (such a point may be attributed to either neighbour, or to none when it is
      an outer edge);
    * lo_mean/hi_mean (..., m): when no native point lies on an edge both equal THE mean (NaN for
      an empty bin); otherwise the smallest / largest mean over all admissible attributions."""
    c = np.asarray(c, dtype=float)
    s = np.asarray(s, dtype=float)
    tc = np.asarray(tc, dtype=float)
    e = midpoint_edges(tc)
    m = len(tc)
    cs = np.zeros(m, dtype=int)
    ce = np.zeros(m, dtype=int)
    lo = np.full(s.shape[:-1] + (m,), np.nan)
    hi = np.full(s.shape[:-1] + (m,), np.nan)
    for j in range(m):
        inside = [i for i in range(len(c)) if e[j] < c[i] < e[j + 1]]
        edge = [i for i in range(len(c)) if c[i] == e[j] or c[i] == e[j + 1]]
        cs[j] = len(inside)
        ce[j] = len(edge)
        means = []
        for mask in range(1 << len(edge)):
            idx = inside + [edge[k] for k in range(len(edge)) if mask >> k & 1]
            if idx:
                means.append(np.mean(s[..., idx], axis=-1))
        if means:
            lo[..., j] = np.min(means, axis=0)
            hi[..., j] = np.max(means, axis=0)
    return lo, hi, cs, ce


# ----------------------------------------------------------------------------------------------
# observation
# ----------------------------------------------------------------------------------------------
def observation(rows):
    """rows: (n, 3|4) array-like of (wavelength um, value, error[, full width um]) in any order,
    wavelengths distinct, n >= 2.  Returns a dict of what an observation object must expose:

    wl, wn (ascending wavenumber = 10000/wl), spectrum, error  - each row still together;
    wlwidth (given, or from mid-points of the wavelength grid), wnwidth = 10000 wlwidth / wl^2;
    wl_lo, wl_hi: the wavelength interval of every row (wl -+ wlwidth/2 for 4 columns; the
    mid-points to the neighbours for 3 columns)."""
    rows = [[float(v) for v in r] for r in rows]
    ncol = len(rows[0])
    order = sorted(range(len(rows)), key=lambda i: -rows[i][0])     # descending wavelength
    srt = [rows[i] for i in order]
    wl = np.array([r[0] for r in srt])
    out = {'order': order, 'wl': wl, 'wn': 10000.0 / wl,
           'spectrum': np.array([r[1] for r in srt]), 'error': np.array([r[2] for r in srt])}
    if ncol == 4:
        ww = np.array([r[3] for r in srt])
        out['wl_lo'] = wl - ww / 2
        out['wl_hi'] = wl + ww / 2
    else:
        e = midpoint_edges(wl)                    # descending
        ww = np.abs(e[1:] - e[:-1])
        out['wl_hi'] = e[:-1]
        out['wl_lo'] = e[1:]
    out['wlwidth'] = ww
    out['wnwidth'] = 10000.0 * ww / wl ** 2
    return out
