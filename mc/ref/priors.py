"""Reference model of prior transforms (property C08).

Written from the property statement only:

* a *uniform* prior between bounds a, b (either order) maps u in [0,1] to lo + u*(hi-lo) with
  lo = min(a,b), hi = max(a,b);  support [lo, hi];
* a *normal* prior with mean m and width s maps u to the x with Phi((x-m)/s) = u
  (x = -inf / +inf at u = 0 / 1);
* log variants work on log10 of the parameter and hand 10**x to the model;
* arguments given in linear space (lin_bounds, lin_mean, lin_std) mean their log10.

Nothing here imports scipy or taurex: the inverse normal CDF is obtained by bisection on
math.erfc (the complementary error function of the C library), so it is independent of
scipy.stats.norm.ppf / scipy.special.ndtri used by the implementation.
"""
import math

EPS = 2.220446049250313e-16
_SQRT2 = math.sqrt(2.0)
_PPF_CACHE = {}


def norm_cdf(z):
    """Phi(z) without cancellation in the lower tail."""
    return 0.5 * math.erfc(-z / _SQRT2)


def _lower_tail_ppf(q):
    """z <= 0 with Phi(z) = q, 0 < q <= 0.5, by bisection to the last bit."""
    lo, hi = -40.0, 0.0           # Phi(-40) underflows to 0 < q
    for _ in range(400):
        mid = 0.5 * (lo + hi)
        if mid == lo or mid == hi:
            break
        if norm_cdf(mid) < q:
            lo = mid
        else:
            hi = mid
    # pick the end whose tail probability is closer to q
    return lo if abs(norm_cdf(lo) - q) <= abs(norm_cdf(hi) - q) else hi


def norm_ppf(u):
    """Inverse of the standard normal CDF; -inf at 0, +inf at 1, nan outside [0,1]."""
    u = float(u)
    if u in _PPF_CACHE:
        return _PPF_CACHE[u]
    if not (0.0 <= u <= 1.0):
        z = float('nan')
    elif u == 0.0:
        z = -math.inf
    elif u == 1.0:
        z = math.inf
    elif u <= 0.5:
        z = _lower_tail_ppf(u)
    else:
        z = -_lower_tail_ppf(1.0 - u)       # 1-u is exact for u in [0.5, 1]
    _PPF_CACHE[u] = z
    return z


class RefPrior(object):
    """kind: 'uniform' (a, b) or 'normal' (mean, std); log: parameter handed on as 10**x."""

    def __init__(self, kind, p1, p2, log):
        self.kind = kind
        self.log = bool(log)
        if kind == 'uniform':
            self.lo = float(min(p1, p2))
            self.hi = float(max(p1, p2))
        elif kind == 'normal':
            self.mean = float(p1)
            self.std = float(p2)
        else:
            raise ValueError(kind)

    def sample(self, u):
        """Returns (x, tol): the inverse CDF at u and the absolute tolerance that a correct
        double-precision evaluation may need (rtol 1e-9 of the *width* of the distribution plus
        a few ulp of the magnitudes that are added)."""
        u = float(u)
        if self.kind == 'uniform':
            x = self.lo + u * (self.hi - self.lo)
            if u == 0.0:
                x = self.lo
            elif u == 1.0:
                x = self.hi
            tol = 1e-9 * u * (self.hi - self.lo) + 8 * EPS * max(abs(self.lo), abs(self.hi))
            return x, tol
        z = norm_ppf(u)
        if math.isinf(z):
            return z, 0.0
        x = self.mean + self.std * z
        tol = 1e-9 * abs(self.std) * max(1.0, abs(z)) + 8 * EPS * (abs(self.mean) + abs(self.std * z))
        return x, tol

    def support(self):
        if self.kind == 'uniform':
            return self.lo, self.hi
        return -math.inf, math.inf

    def to_model(self, x):
        """Value handed to the forward model for the sampled x."""
        if not self.log:
            return x
        try:
            return 10.0 ** x
        except OverflowError:
            return math.inf


# ------------------------------------------------------------------------------------------------
# the four documented prior classes and their keyword arguments
# ------------------------------------------------------------------------------------------------
DEFAULTS = {'Uniform': {'bounds': (0.0, 1.0)}, 'LogUniform': {'bounds': (0.0, 1.0)},
            'Gaussian': {'mean': 0.5, 'std': 0.25}, 'LogGaussian': {'mean': 0.5, 'std': 0.25}}


def from_spec(cls, kw):
    """Reference prior for `cls(**kw)` following the statement: lin_* arguments are the log10 of
    the corresponding log-space argument; omitted arguments take the documented defaults."""
    kw = dict(kw)
    log = cls.startswith('Log')
    if cls in ('Uniform', 'LogUniform'):
        b = kw.get('bounds', DEFAULTS[cls]['bounds'])
        if log and kw.get('lin_bounds') is not None:
            b = [math.log10(v) for v in kw['lin_bounds']]
        return RefPrior('uniform', b[0], b[1], log)
    if cls in ('Gaussian', 'LogGaussian'):
        m = kw.get('mean', DEFAULTS[cls]['mean'])
        s = kw.get('std', DEFAULTS[cls]['std'])
        if log and kw.get('lin_mean') is not None:
            m = math.log10(kw['lin_mean'])
        if log and kw.get('lin_std') is not None:
            s = math.log10(kw['lin_std'])
        return RefPrior('normal', m, s, log)
    raise ValueError(cls)


def default_prior(mode, bounds):
    """Default prior of a fitting parameter: uniform between its bounds; in log mode uniform in
    log10 between the log10 of the (linear-space) bounds."""
    if mode == 'log':
        return 'LogUniform', RefPrior('uniform', math.log10(bounds[0]), math.log10(bounds[1]), True)
    return 'Uniform', RefPrior('uniform', bounds[0], bounds[1], False)
