"""Two-pass weighted mean / variance (reference model of C18; DESIGN.md 2.3).

Written from the definition, nothing taken from taurex:

    m   = sum_i w_i x_i / sum_i w_i
    var = sum_i w_i (x_i - m)^2 / sum_i w_i            (population form, weights = frequencies)

Two explicit passes over *all* samples, accumulation with math.fsum per component so that the
reference itself carries no summation-order noise.  Values may be scalars or arrays of any shape
(all the same shape).
"""
import math

import numpy as np


def _stack(values):
    a = [np.asarray(v, dtype=float) for v in values]
    shape = a[0].shape
    for v in a:
        if v.shape != shape:
            raise ValueError('values of different shapes')
    return np.array([v.ravel() for v in a], dtype=float).reshape(len(a), -1), shape


def wmean(values, weights):
    """Weighted mean of the samples; None when there is no sample or no weight."""
    if len(values) == 0:
        return None
    x, shape = _stack(values)
    w = [float(v) for v in weights]
    W = math.fsum(w)
    if not W > 0:
        return None
    m = np.array([math.fsum(w[i] * x[i, k] for i in range(len(w))) / W for k in range(x.shape[1])])
    return m.reshape(shape)


def wvar(values, weights):
    """Two-pass weighted (population) variance; None when undefined (no sample / zero weight)."""
    m = wmean(values, weights)
    if m is None:
        return None
    x, shape = _stack(values)
    w = [float(v) for v in weights]
    W = math.fsum(w)
    mf = m.ravel()
    v = np.array([math.fsum(w[i] * (x[i, k] - mf[k]) ** 2 for i in range(len(w))) / W
                  for k in range(x.shape[1])])
    return v.reshape(shape)


def wstd(values, weights):
    v = wvar(values, weights)
    return None if v is None else np.sqrt(v)


def scale2(values):
    """max |x|^2 over all samples: the natural absolute scale of a variance (used as atol unit
    when the true variance is 0 or tiny compared with the values)."""
    if len(values) == 0:
        return 0.0
    return float(max(np.max(np.abs(np.asarray(v, dtype=float))) if np.size(v) else 0.0
                     for v in values)) ** 2
