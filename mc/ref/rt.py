"""Reference radiative transfer (C01, C02, C03, C13, C19, C20): written from the property
statements and the documented formulas, plain numpy, no TauREx numerical code.

Conventions: layer index 0 = surface.  sigma[N, nW] (or [N, nW, ng] for k-tables) is the
abundance-weighted cross-section per layer in m^2 (m^5 for CIA), dens[N] number density m^-3.
"""
import math
import numpy as np


# ---------------------------------------------------------------------------------------------
# constants (CODATA via astropy, as documented in taurex.constants) -- read as data
# ---------------------------------------------------------------------------------------------
def _consts():
    from taurex import constants as c
    return c.PLANCK, c.SPDLIGT, c.KBOLTZ


def planck_pi(wn, T):
    """pi * B_lambda(T) in W m^-2 um^-1 at wavenumbers wn (cm^-1)."""
    h, c, k = _consts()
    wl = 1e-2 / np.asarray(wn, dtype=float)          # metres
    x = h * c / (wl * k * T)
    return math.pi * 2.0 * h * c ** 2 / wl ** 5 / np.expm1(x) * 1e-6


# ---------------------------------------------------------------------------------------------
# transit geometry
# ---------------------------------------------------------------------------------------------
def chord_segments(method, Rp, zb, dz):
    """Chord segment lengths through the spherical shells for the ray tangent in layer l.

    zb: the N+1 altitude boundaries (zb[0] = 0), dz[l] = zb[l+1]-zb[l].
    'new': tangent radius at the layer mid-altitude, shells bounded by zb.
    'old': the legacy discretisation: tangent radius Rp + dz[0]/2 + zb[l], shell k has outer
           radius Rp + dz[0]/2 + zb[k] + dz[k]/2 (mid-point shells shifted by half the first dz).
    Returns (segs, b, outer) with segs[l][k] the length in layer l+k."""
    zb = np.asarray(zb, dtype=float)
    dz = np.asarray(dz, dtype=float)
    N = len(dz)
    z = zb[:-1]
    if method == 'new':
        b = Rp + z + dz / 2.0
        outer = Rp + zb[1:]
    elif method == 'old':
        b = Rp + dz[0] / 2.0 + z
        outer = Rp + dz[0] / 2.0 + z + dz / 2.0
    else:
        raise ValueError(method)
    segs = []
    for l in range(N):
        half = np.sqrt(np.maximum(outer[l:] ** 2 - b[l] ** 2, 0.0))    # half chords to shell k
        inner = np.concatenate([[0.0], half[:-1]])
        segs.append(2.0 * (half - inner))
    return segs, b, outer


def slant_tau(sigma, dens, segs, power=1):
    """tau[l, ...] = sum_k sigma[l+k] * dens[l+k]**power * segs[l][k]."""
    sigma = np.asarray(sigma, dtype=float)
    N = sigma.shape[0]
    tau = np.zeros_like(sigma)
    for l in range(N):
        for k in range(N - l):
            tau[l] += sigma[l + k] * (dens[l + k] ** power) * segs[l][k]
    return tau


def transit_depth(trans, Rp, Rs, z, dz):
    """(Rp^2 + 2 sum_l (Rp+z_l)(1-T_l) dz_l) / Rs^2 ; trans[N, nW]."""
    z = np.asarray(z, dtype=float)[:, None]
    dz = np.asarray(dz, dtype=float)[:, None]
    return (Rp ** 2 + 2.0 * np.sum((Rp + z) * (1.0 - trans) * dz, axis=0)) / Rs ** 2


def ck_transmittance(tau_g, w):
    """sum_g w_g exp(-tau_g) over the last axis."""
    return np.sum(np.exp(-tau_g) * np.asarray(w, dtype=float), axis=-1)


# ---------------------------------------------------------------------------------------------
# emission
# ---------------------------------------------------------------------------------------------
def gauss_nodes(n):
    """Gauss-Legendre nodes/weights mapped to mu in [0,1] (closed form for n<=3)."""
    if n == 1:
        x, w = np.array([0.0]), np.array([2.0])
    elif n == 2:
        x, w = np.array([-1.0, 1.0]) / math.sqrt(3.0), np.array([1.0, 1.0])
    elif n == 3:
        x = np.array([-math.sqrt(0.6), 0.0, math.sqrt(0.6)])
        w = np.array([5.0, 8.0, 5.0]) / 9.0
    else:
        x, w = np.polynomial.legendre.leggauss(n)
    return (x + 1.0) / 2.0, w / 2.0


def emission(wn, T, dtau, mus, wts, dtau_g=None, gw=None, clamp=10.0):
    """Layered plane-parallel thermal emission.

    T[N] layer temperatures, dtau[N, nW] vertical grey-in-g optical thickness of each layer
    (all non-k contributions), dtau_g[N, nW, ng] optional per-g optical thickness with weights gw.
    Transmittance from the top of the atmosphere down to the bottom of layer i at angle mu:
        Tr_i(mu) = exp(-sum_{k>=i} dtau_k / mu) * sum_g gw_g exp(-sum_{k>=i} dtau_g_k / mu)
    I(mu) = B(T_0) Tr_0 + sum_i B(T_i) (Tr_{i+1} - Tr_i),  Tr_N = 1
    F = 2 pi sum_j w_j mu_j I(mu_j)      with B = planck_pi/pi.
    Returns (F[nW], I[nmu, nW], L[nW]) where L is the flux-level sum of the terms eligible for
    the licensed clamp (vertical optical depth >= clamp at every wavenumber => the term may be
    replaced by zero)."""
    T = np.asarray(T, dtype=float)
    N = len(T)
    nW = len(wn)
    B = np.array([planck_pi(wn, t) / math.pi for t in T])            # [N, nW]
    cum = np.zeros((N + 1, nW))
    for i in range(N - 1, -1, -1):
        cum[i] = cum[i + 1] + dtau[i]
    if dtau_g is not None:
        ng = dtau_g.shape[-1]
        cumg = np.zeros((N + 1, nW, ng))
        for i in range(N - 1, -1, -1):
            cumg[i] = cumg[i + 1] + dtau_g[i]
    I = np.zeros((len(mus), nW))
    Lj = np.zeros((len(mus), nW))
    for j, mu in enumerate(mus):
        Tr = np.exp(-cum / mu)
        if dtau_g is not None:
            Tr = Tr * np.sum(np.exp(-cumg / mu) * np.asarray(gw, float), axis=-1)
        I[j] = B[0] * Tr[0]
        for i in range(N):
            I[j] += B[i] * (Tr[i + 1] - Tr[i])
        # licence: terms whose total vertical optical depth is >= clamp at every wavenumber
        for i in range(N + 1):
            tot = cum[i] if dtau_g is None else cum[i] + cumg[i].min(axis=-1)
            if i < N and tot.min() >= clamp:
                # Tr[i] appears with B[i] (as -Tr_i) and with B[i-1] (as +Tr_i), or B[0] for i=0
                Lj[j] += B[i] * Tr[i]
                Lj[j] += (B[i - 1] if i > 0 else 0.0) * Tr[i]
    wts = np.asarray(wts, float)[:, None]
    mus_ = np.asarray(mus, float)[:, None]
    F = 2.0 * math.pi * np.sum(I * wts * mus_, axis=0)
    L = 2.0 * math.pi * np.sum(Lj * wts * mus_, axis=0)
    return F, I, L
