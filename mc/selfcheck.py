"""python -m mc.selfcheck [--seeds 0,1,2,3,4] [--tier quick] [IDs...]
Runs every registered check from a fresh process per (check, seed) and reports exit codes; the
summary line of each run must be identical across seeds except for wall time and the
seed-dependent counters (distinct outcomes)."""
import json
import os
import subprocess
import sys
import time

VERIF = os.path.dirname(os.path.dirname(os.path.abspath(__file__)))


def main():
    args = sys.argv[1:]
    seeds = [0, 1, 2, 3, 4]
    tier = 'quick'
    ids = []
    while args:
        a = args.pop(0)
        if a == '--seeds':
            seeds = [int(x) for x in args.pop(0).split(',')]
        elif a == '--tier':
            tier = args.pop(0)
        else:
            ids.append(a.upper())
    man = json.load(open(os.path.join(VERIF, 'MANIFEST.json')))
    checks = [c['property_id'] for c in man['checks']]
    if ids:
        checks = [c for c in checks if c in ids]
    bad = 0
    for c in checks:
        for s in seeds:
            env = dict(os.environ, VERIF_SEED=str(s))
            t0 = time.time()
            p = subprocess.run([sys.executable, '-m', 'mc.run', c, '--tier', tier, '--no-evidence'], cwd=VERIF, env=env,
                               capture_output=True, text=True)
            last = [l for l in p.stdout.splitlines() if l.startswith(c + ' tier')]
            viol = [l for l in p.stdout.splitlines() if l.startswith(('VIOLATION', 'HARNESS-ERROR'))]
            status = 'ok' if p.returncode == 0 and not viol else 'FAIL'
            if status != 'ok':
                bad += 1
            print('%s seed=%d exit=%d %s %.0fs %s' % (c, s, p.returncode, status, time.time() - t0,
                                                   last[-1][:150] if last else p.stderr[-300:]))
            for v in viol[:5]:
                print('    ' + v[:300])
            sys.stdout.flush()
    print('selfcheck: %d failing runs' % bad)
    return 1 if bad else 0


if __name__ == '__main__':
    sys.exit(main())
