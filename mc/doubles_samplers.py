"""Sampler doubles for C06 / C09 (DESIGN.md 2.4).

The three external samplers wrapped by TauREx are replaced by *recording doubles*:

    nestle.sample                              - replaced by attribute on the real `nestle` module
    pymultinest.run / pymultinest.Analyzer     - stand-in module injected through sys.modules
    pypolychord.run_polychord / .settings.PolyChordSettings / .priors.UniformPrior
                                               - stand-in package injected through sys.modules

(`pymultinest` and `pypolychord` are not installed in /venv; the stand-ins are injected BEFORE
`taurex.optimizer` is imported, so `taurex/optimizer/__init__.py` finds them.)

A double does what a sampler does at its entry point, and nothing else:

  (a) it receives the two callbacks handed over by the wrapper and calls them, in the sampler's
      own calling convention, on every unit-cube point of the active `Plan` *in order*
      (prior transform first, then log-likelihood of the transformed vector), recording the
      transformed vector, the returned value and any exception that escapes a callback;
  (b) it returns (nestle) / writes (MultiNest, PolyChord) exactly the sample set enumerated by the
      check - `Plan.modes`, a list of (samples[n,d], weights[n]) - in the sampler's native output
      format, as the wrapper parses it.  Floats are written with 17 significant digits so that the
      text round trip is exact.

Calling conventions reproduced:
  nestle     prior_transform(u: ndarray) -> sequence ; loglikelihood(v: ndarray) -> float ;
             returns nestle.Result(samples, weights, logz, logzerr, h, niter, ncall, logl, logvol)
  MultiNest  Prior(cube, ndim, nparams) transforms `cube` IN PLACE ; LogLikelihood(cube, ndim,
             nparams) -> float ; `cube` is a C-array-like object supporting integer indexing only
             files  <base>.txt                 rows: weight, -2 logL, theta_1..theta_d
                    <base>stats.dat            global evidence line, blank, [mean/sigma table],
                                               blank, [maximum-likelihood table], blank, [MAP table]
                                               (each table = one header line + one row per parameter)
                    <base>post_separate.dat    per mode: two blank lines, then the mode's rows
             Analyzer(n_params, outputfiles_basename).get_stats() -> {'global evidence',
             'global evidence error', 'modes': [...]}; as the real analyser, it reports no modes
             for a non-multimodal run (the wrapper then reads stats.dat itself).
  PolyChord  prior(hypercube: ndarray) -> sequence ; loglikelihood(theta: ndarray) -> (logL, phi)
             with len(phi) == nDerived
             files  <base_dir>/<root>.txt                  rows: weight, -2 logL, theta.., derived..
                    <base_dir>/<root>.stats                global log(Z) on line 9, local on 15..
                    <base_dir>/clusters/<root>_<k>.txt     one per cluster when do_clustering

The samplers' own statistics (MultiNest's mean / sigma / MAP tables) are whatever the Plan says
(`Plan.stats`); by default they are computed by the double from the samples with plain numpy
(weighted mean, weighted std, sample of greatest weight) - the wrappers only pass them through.

The "-2 logL" column of sample i is  -2*log(w_i / max w)  (0 for the heaviest sample, a large finite
number for weight 0) + 1e-9*i: a self-consistent nested-sampling output in which posterior weight
and likelihood rank the samples identically (a continuous likelihood never ties: equal weights are
separated by the sample index), so that "sample of greatest likelihood" is "a sample of greatest
weight" (PolyChord's wrapper locates its MAP through this column).
"""
import os
import sys
import types

import numpy as np

_STATE = {'plan': None}
_INSTALLED = {}


class DoubleError(Exception):
    """A wrapper used the double in a way the real sampler would not accept."""


class Plan(object):
    """What the sampler double does during one run.

    points : list of unit-cube vectors evaluated in order through (prior, loglike)
    modes  : list of (samples[n,d], weights[n]) - the sample set the sampler 'found', one entry
             per mode / cluster (nestle: exactly one)
    stats  : optional list (one per mode) of {'mean','sigma','maximum','maximum a posterior'}
    """

    def __init__(self, points=(), modes=None, stats=None, logz=-12.5, logzerr=0.25):
        self.points = [list(map(float, p)) for p in points]
        self.modes = None
        if modes is not None:
            self.modes = [(np.array(s, dtype=float).reshape(len(w), -1), np.array(w, dtype=float))
                          for s, w in modes]
        self.stats = stats
        self.logz = logz
        self.logzerr = logzerr
        self.calls = []          # one dict per evaluated point
        self.ran = []            # which entry points were invoked, with their arguments
        self.files = {}

    # -- helpers -----------------------------------------------------------------------------
    def all_samples(self):
        return np.vstack([s for s, w in self.modes]), np.concatenate([w for s, w in self.modes])

    def mode_stats(self, k):
        if self.stats is not None:
            return self.stats[k]
        s, w = self.modes[k]
        return default_stats(s, w)


def default_stats(s, w):
    wn = w / w.sum()
    mean = (wn[:, None] * s).sum(0)
    sig = np.sqrt((wn[:, None] * (s - mean) ** 2).sum(0))
    imax = int(np.argmax(w))
    return {'mean': mean.tolist(), 'sigma': sig.tolist(), 'maximum': s[imax].tolist(),
            'maximum a posterior': s[imax].tolist()}


def minus2logl(w):
    w = np.asarray(w, dtype=float)
    with np.errstate(divide='ignore'):
        v = -2.0 * np.log(w / w.max())
    v[~np.isfinite(v)] = 1.0e30
    # a continuous likelihood never ties: equal weights are separated by the sample index
    return v + 1.0e-9 * np.arange(len(v))


def set_plan(plan):
    _STATE['plan'] = plan


def current():
    p = _STATE['plan']
    if p is None:
        raise DoubleError('sampler double invoked with no active Plan')
    return p


class active(object):
    """with active(plan): opt.compute_fit()"""

    def __init__(self, plan):
        self.plan = plan

    def __enter__(self):
        install()
        set_plan(self.plan)
        return self.plan

    def __exit__(self, *a):
        set_plan(None)
        return False


def _rec(plan, sampler, u, theta, val, exc, where):
    plan.calls.append({'sampler': sampler, 'u': list(u),
                       'theta': None if theta is None else [_tofloat(t) for t in theta],
                       'logl': val, 'exc': exc, 'where': where})


def _tofloat(x):
    a = np.asarray(x, dtype=float)
    if a.size != 1:
        raise DoubleError('prior transform returned a non-scalar component %r' % (x,))
    return float(a.reshape(()))


def _fmt(x):
    return '%.17e' % float(x)


def _rows(s, w):
    m2 = minus2logl(w)
    return [[w[i], m2[i]] + list(s[i]) for i in range(len(w))]


def _write_rows(path, rows, extra=0):
    with open(path, 'w') as f:
        for r in rows:
            f.write(' '.join(_fmt(v) for v in list(r) + [0.0] * extra) + '\n')


# ----------------------------------------------------------------------------------------------
# nestle
# ----------------------------------------------------------------------------------------------
def nestle_sample(loglikelihood, prior_transform, ndim, npoints=100, method='single',
                  update_interval=None, npdim=None, maxiter=None, maxcall=None, dlogz=None,
                  decline_factor=None, rstate=None, callback=None, **options):
    import nestle
    plan = current()
    plan.ran.append(('nestle.sample', {'ndim': ndim, 'npoints': npoints, 'method': method,
                                       'dlogz': dlogz}))
    for u in plan.points:
        if len(u) != ndim:
            raise DoubleError('plan point of dimension %d, sampler told ndim=%d' % (len(u), ndim))
        theta, val, exc, where = None, None, None, None
        try:
            where = 'prior'
            v = np.empty(ndim, dtype=float)
            out = prior_transform(np.array(u, dtype=float))
            if len(out) != ndim:
                raise DoubleError('prior transform returned %d values for ndim=%d' % (len(out), ndim))
            theta = [o for o in out]
            v[:] = [_tofloat(o) for o in out]
            where = 'loglike'
            val = loglikelihood(v)
            val = float(val)
            where = None
        except DoubleError:
            raise
        except Exception as e:                                   # noqa - recorded, judged by the check
            exc = '%s: %s' % (type(e).__name__, e)
        _rec(plan, 'nestle', u, theta, val, exc, where)
    if plan.modes is None:
        raise DoubleError('Plan has no sample set')
    s, w = plan.all_samples()
    n = len(w)
    res = nestle.Result(niter=n, ncall=len(plan.points), logz=plan.logz, logzerr=plan.logzerr,
                        h=1.5, samples=s.copy(), weights=w.copy(),
                        logvol=-np.arange(1, n + 1, dtype=float), logl=-0.5 * minus2logl(w))
    return res


# ----------------------------------------------------------------------------------------------
# MultiNest
# ----------------------------------------------------------------------------------------------
class CArray(object):
    """Stand-in for the ctypes double array MultiNest hands to the callbacks: integer indexing
    (get and set) only, no len(), no slicing, no iteration protocol beyond __getitem__."""

    def __init__(self, values):
        self._v = [float(x) for x in values]

    def __getitem__(self, i):
        if not isinstance(i, (int, np.integer)):
            raise TypeError('C array index must be an integer')
        if i < 0:
            raise IndexError('negative index into C array')
        return self._v[i]

    def __setitem__(self, i, x):
        if not isinstance(i, (int, np.integer)):
            raise TypeError('C array index must be an integer')
        if i < 0:
            raise IndexError('negative index into C array')
        self._v[i] = _tofloat(x)


def multinest_run(LogLikelihood, Prior, n_dims, n_params=None, n_clustering_params=None,
                  wrapped_params=None, importance_nested_sampling=True, multimodal=True,
                  const_efficiency_mode=False, n_live_points=400, evidence_tolerance=0.5,
                  sampling_efficiency=0.8, n_iter_before_update=100, null_log_evidence=-1e90,
                  max_modes=100, mode_tolerance=-1e90, outputfiles_basename='chains/1-', seed=-1,
                  verbose=False, resume=True, context=0, write_output=True, log_zero=-1e100,
                  max_iter=0, init_MPI=False, dump_callback=None, use_MPI=True):
    plan = current()
    if n_params is None:
        n_params = n_dims
    plan.ran.append(('pymultinest.run', {'n_dims': n_dims, 'multimodal': bool(multimodal),
                                         'basename': outputfiles_basename}))
    for u in plan.points:
        if len(u) != n_dims:
            raise DoubleError('plan point of dimension %d, sampler told n_dims=%d' % (len(u), n_dims))
        theta, val, exc, where = None, None, None, None
        try:
            where = 'prior'
            cube = CArray(u)
            Prior(cube, n_dims, n_params)
            theta = [cube[i] for i in range(n_dims)]
            where = 'loglike'
            val = float(LogLikelihood(cube, n_dims, n_params))
            where = None
        except DoubleError:
            raise
        except Exception as e:                                   # noqa
            exc = '%s: %s' % (type(e).__name__, e)
        _rec(plan, 'multinest', u, theta, val, exc, where)
    if plan.modes is None:
        raise DoubleError('Plan has no sample set')
    base = outputfiles_basename
    if not os.path.isdir(os.path.dirname(base)):
        raise DoubleError('MultiNest output directory does not exist: %s' % os.path.dirname(base))
    if not multimodal and len(plan.modes) != 1:
        raise DoubleError('non-multimodal MultiNest run emits exactly one mode')
    # <base>.txt : all samples
    s, w = plan.all_samples()
    _write_rows(base + '.txt', _rows(s, w))
    # <base>post_separate.dat
    if multimodal:
        with open(base + 'post_separate.dat', 'w') as f:
            for sm, wm in plan.modes:
                f.write('\n\n')
                for r in _rows(sm, wm):
                    f.write(' '.join(_fmt(v) for v in r) + '\n')
    # <base>stats.dat
    with open(base + 'stats.dat', 'w') as f:
        f.write('Nested Sampling Global Log-Evidence           :   %s  +/-   %s\n'
                % (_fmt(plan.logz), _fmt(plan.logzerr)))
        f.write('\n')
        if not multimodal:
            st = plan.mode_stats(0)
            d = s.shape[1]
            f.write('Dim No.       Mean        Sigma\n')
            for i in range(d):
                f.write('%4d  %s  %s\n' % (i + 1, _fmt(st['mean'][i]), _fmt(st['sigma'][i])))
            f.write('\n')
            f.write('Dim No.       Maximum Likelihood Parameters\n')
            for i in range(d):
                f.write('%4d  %s\n' % (i + 1, _fmt(st['maximum'][i])))
            f.write('\n')
            f.write('Dim No.       MAP Parameters\n')
            for i in range(d):
                f.write('%4d  %s\n' % (i + 1, _fmt(st['maximum a posterior'][i])))
        else:
            f.write('Total Modes Found:%12d\n' % len(plan.modes))
    plan.files['multinest'] = base


class MultiNestAnalyzer(object):
    def __init__(self, n_params, outputfiles_basename='chains/1-', verbose=True):
        self.n_params = n_params
        self.base = outputfiles_basename
        plan = current()
        if plan.files.get('multinest') != outputfiles_basename:
            raise DoubleError('Analyzer opened on %r but the run wrote %r'
                              % (outputfiles_basename, plan.files.get('multinest')))
        self.plan = plan

    def get_stats(self):
        plan = self.plan
        multimodal = dict(plan.ran)['pymultinest.run']['multimodal']
        out = {'global evidence': plan.logz, 'global evidence error': plan.logzerr,
               'nested sampling global log-evidence': plan.logz,
               'nested sampling global log-evidence error': plan.logzerr, 'modes': []}
        if multimodal:
            for k in range(len(plan.modes)):
                st = plan.mode_stats(k)
                m = {'index': k, 'mean': list(st['mean']), 'sigma': list(st['sigma']),
                     'maximum': list(st['maximum']),
                     'maximum a posterior': list(st['maximum a posterior']),
                     'local log-evidence': plan.logz - 0.125 * k,
                     'local log-evidence error': plan.logzerr,
                     'strictly local log-evidence': plan.logz - 0.125 * k,
                     'strictly local log-evidence error': plan.logzerr}
                out['modes'].append(m)
        return out


# ----------------------------------------------------------------------------------------------
# PolyChord
# ----------------------------------------------------------------------------------------------
class PolyChordSettings(object):
    def __init__(self, nDims, nDerived, **kw):
        self.nDims = nDims
        self.nDerived = nDerived
        self.nlive = nDims * 25
        self.num_repeats = nDims * 5
        self.do_clustering = True
        self.precision_criterion = 0.001
        self.logzero = -1e30
        self.read_resume = True
        self.base_dir = 'chains'
        self.file_root = 'test'
        self.cluster_posteriors = True
        self.write_stats = True
        self.equals = True
        self.posteriors = True
        for k, v in kw.items():
            setattr(self, k, v)


class UniformPrior(object):
    def __init__(self, a, b):
        self.a, self.b = a, b

    def __call__(self, x):
        return self.a + (self.b - self.a) * x


def run_polychord(loglikelihood, nDims, nDerived, settings, prior=None, dumper=None):
    plan = current()
    plan.ran.append(('pypolychord.run_polychord',
                     {'nDims': nDims, 'nDerived': nDerived,
                      'do_clustering': bool(settings.do_clustering),
                      'base_dir': settings.base_dir, 'file_root': settings.file_root}))
    if prior is None:
        raise DoubleError('no prior handed to run_polychord')
    if settings.nDims != nDims or settings.nDerived != nDerived:
        raise DoubleError('settings built for other dimensions')
    for u in plan.points:
        if len(u) != nDims:
            raise DoubleError('plan point of dimension %d, sampler told nDims=%d' % (len(u), nDims))
        theta, val, exc, where = None, None, None, None
        try:
            where = 'prior'
            out = prior(np.array(u, dtype=float))
            if len(out) != nDims:
                raise DoubleError('prior returned %d values for nDims=%d' % (len(out), nDims))
            theta = [o for o in out]
            v = np.array([_tofloat(o) for o in out], dtype=float)
            where = 'loglike'
            ret = loglikelihood(v)
            logl, phi = ret
            if len(phi) != nDerived:
                raise DoubleError('loglikelihood returned %d derived values, nDerived=%d'
                                  % (len(phi), nDerived))
            val = float(logl)
            where = None
        except DoubleError:
            raise
        except Exception as e:                                   # noqa
            exc = '%s: %s' % (type(e).__name__, e)
        _rec(plan, 'polychord', u, theta, val, exc, where)
    if plan.modes is None:
        raise DoubleError('Plan has no sample set')
    base_dir = settings.base_dir
    root = settings.file_root
    if not os.path.isdir(base_dir):
        os.makedirs(base_dir)                     # PolyChord creates its directories
    cdir = os.path.join(base_dir, 'clusters')
    if not os.path.isdir(cdir):
        os.makedirs(cdir)
    if not settings.do_clustering and len(plan.modes) != 1:
        raise DoubleError('unclustered PolyChord run emits exactly one sample set')
    s, w = plan.all_samples()
    _write_rows(os.path.join(base_dir, root + '.txt'), _rows(s, w), extra=nDerived)
    if settings.do_clustering:
        for k, (sm, wm) in enumerate(plan.modes):
            _write_rows(os.path.join(cdir, '%s_%d.txt' % (root, k + 1)), _rows(sm, wm),
                        extra=nDerived)
    with open(os.path.join(base_dir, root + '.stats'), 'w') as f:
        f.write('Evidence estimates:\n')
        f.write('===================\n')
        f.write('  - The evidence Z is a log-normally distributed, with location and scale '
                'parameters mu and sigma.\n')
        f.write('  - We denote this as log(Z) = mu +/- sigma.\n')
        f.write('\n')
        f.write('Global evidence:\n')
        f.write('----------------\n')
        f.write('\n')
        f.write('log(Z)       =  %s +/-  %s\n' % (_fmt(plan.logz), _fmt(plan.logzerr)))
        f.write('\n')
        f.write('\n')
        f.write('Local evidences:\n')
        f.write('----------------\n')
        f.write('\n')
        for k in range(len(plan.modes)):
            f.write('log(Z_%2d)  =  %s +/-  %s\n' % (k + 1, _fmt(plan.logz - 0.125 * k),
                                                    _fmt(plan.logzerr)))
        f.write('\n')
        f.write('\n')
        f.write('Run-time information:\n')
        f.write('---------------------\n')
        f.write('\n')
        f.write(' ncluster:          %d /       %d\n' % (len(plan.modes), len(plan.modes)))
    plan.files['polychord'] = base_dir
    return None


# ----------------------------------------------------------------------------------------------
# installation
# ----------------------------------------------------------------------------------------------
def install():
    """Idempotent.  Injects the stand-in modules and replaces nestle.sample.  Must run before the
    first `import taurex.optimizer` of the process (it imports it itself at the end)."""
    if _INSTALLED:
        return _INSTALLED
    pm = types.ModuleType('pymultinest')
    pm.__doc__ = 'verif stand-in for pymultinest (mc/doubles_samplers.py)'
    pm.run = multinest_run
    pm.Analyzer = MultiNestAnalyzer
    pm.__verif_double__ = True
    sys.modules['pymultinest'] = pm

    pc = types.ModuleType('pypolychord')
    pc.__doc__ = 'verif stand-in for pypolychord (mc/doubles_samplers.py)'
    pc.__path__ = []
    pcs = types.ModuleType('pypolychord.settings')
    pcp = types.ModuleType('pypolychord.priors')
    pcs.PolyChordSettings = PolyChordSettings
    pcp.UniformPrior = UniformPrior
    pc.run_polychord = run_polychord
    pc.settings = pcs
    pc.priors = pcp
    pc.__verif_double__ = True
    sys.modules['pypolychord'] = pc
    sys.modules['pypolychord.settings'] = pcs
    sys.modules['pypolychord.priors'] = pcp

    import nestle
    if not getattr(nestle.sample, '__verif_double__', False):
        _INSTALLED['nestle.sample.orig'] = nestle.sample
        nestle_sample.__verif_double__ = True
        nestle.sample = nestle_sample

    import importlib
    _INSTALLED['nestle'] = importlib.import_module('taurex.optimizer.nestle').NestleOptimizer
    _INSTALLED['multinest'] = importlib.import_module('taurex.optimizer.multinest').MultiNestOptimizer
    _INSTALLED['polychord'] = importlib.import_module('taurex.optimizer.polychord').PolyChordOptimizer
    return _INSTALLED


def optimizer_class(sampler):
    return install()[sampler]
