"""Schema validation helper, run with the tooling interpreter (python3-vt has jsonschema):
   python3-vt mc/validate.py <schema.json> <file.json>"""
import json
import sys


def main():
    import jsonschema
    schema = json.load(open(sys.argv[1]))
    doc = json.load(open(sys.argv[2]))
    jsonschema.validate(doc, schema)
    print('valid')


if __name__ == '__main__':
    main()
