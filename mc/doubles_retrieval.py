"""Tiny retrieval set-ups shared by C06 and C09: forward model + observation + optimiser driven by a
sampler double (mc/doubles_samplers.py), and the independent oracle model.

Everything is built from fresh real TauREx objects per call.  The oracle side (`ref_forward`)
builds a *second*, completely separate set of objects, sets the parameter values through the
components' own setters, runs the model on its full native grid and bins with
mc.ref.stats.overlap_bin - it shares no object with the optimiser under test.
"""
import math
import statistics

import numpy as np

from mc import fixtures as fx
from mc import doubles_samplers as ds
from mc.ref import stats as rs

ds.install()

NATIVE_WN = 600.0 * 1.02 ** np.arange(91)           # 600 .. 3565 cm-1, geometric (non-uniform)
T_GRID = [200.0, 900.0, 2500.0]
P_GRID = [1e-2, 3e1, 1e6]                          # Pa
NLAYERS = 3
P_MIN, P_MAX = 1e-1, 1e5

SAMPLERS = ['nestle', 'multinest', 'polychord']

# observation layouts: wavelength (um) [, full bin width (um)] rows; spectrum/error columns are
# filled in by build_obs
LAYOUTS = {
    '3col-uniform': {'wl': [4.0, 5.0, 6.0], 'bw': None},
    '3col-nonuniform': {'wl': [3.4, 4.0, 5.5, 6.5], 'bw': None},
    '4col-gaps': {'wl': [3.5, 4.5, 6.0], 'bw': [0.3, 0.4, 0.5]},
    '4col-wide': {'wl': [4.0, 4.4, 5.2], 'bw': [1.5, 1.2, 2.0]},
    'unsorted-3col': {'wl': [5.5, 3.4, 6.5, 4.0], 'bw': None},
    'unsorted-4col': {'wl': [4.5, 6.0, 3.5], 'bw': [0.4, 0.5, 0.3]},
    # narrow range well inside all the others (an observation replaced by a wider one must not leave its range behind)
    '3col-narrow': {'wl': [4.8, 5.0, 5.2], 'bw': None},
    # a broad photometric band whose centre lies inside a run of narrow spectral bins and whose edges reach far beyond
    # them on both sides
    '4col-band-in-narrow': {'wl': [4.0, 4.1, 4.2, 4.3, 4.4, 4.25], 'bw': [0.05, 0.05, 0.05, 0.05, 0.05, 2.4]},
    # the bin at the high-wavenumber end is far narrower (10 cm-1) than the native spacing there (58 cm-1) and lies
    # 23 cm-1 below the native point whose bin contains it; the other bins are 500-700 cm-1 wide
    # a narrow channel and a broad band with exactly the same central wavelength (the narrow one listed first)
    '4col-same-centre': {'wl': [4.0, 4.0, 5.0, 3.5], 'bw': [0.1, 0.9, 0.3, 0.2]},
    '4col-narrow-end': {'wl': [3.377237, 4.347826, 6.25, 10.0], 'bw': [0.011406, 0.95648, 2.42915, 7.977208]},
}


# ----------------------------------------------------------------------------------------------
# priors: own description + own transform (oracle) + the TauREx object handed to set_prior
# ----------------------------------------------------------------------------------------------
class P(object):
    """kind in default-lin / default-log / uniform / loguniform / gaussian / loggaussian.
    a, b: bounds (linear-space bounds for default-*; fit-space bounds for uniform / loguniform;
    mean, std in fit space for the Gaussians)."""

    def __init__(self, kind, a, b):
        self.kind, self.a, self.b = kind, float(a), float(b)

    @property
    def log(self):
        return self.kind in ('default-log', 'loguniform', 'loggaussian')

    def fit_bounds(self):
        if self.kind == 'default-log':
            return math.log10(self.a), math.log10(self.b)
        return self.a, self.b

    def sample(self, u):
        if self.kind in ('gaussian', 'loggaussian'):
            if u <= 0.0:
                return -math.inf
            if u >= 1.0:
                return math.inf
            return statistics.NormalDist(self.a, self.b).inv_cdf(u)
        lo, hi = self.fit_bounds()
        lo, hi = min(lo, hi), max(lo, hi)
        return lo + u * (hi - lo)

    def value(self, theta):
        return 10.0 ** theta if self.log else theta

    def taurex(self):
        from taurex.core.priors import Uniform, LogUniform, Gaussian, LogGaussian
        if self.kind == 'uniform':
            return Uniform(bounds=(self.a, self.b))
        if self.kind == 'loguniform':
            return LogUniform(bounds=(self.a, self.b))
        if self.kind == 'gaussian':
            return Gaussian(mean=self.a, std=self.b)
        if self.kind == 'loggaussian':
            return LogGaussian(mean=self.a, std=self.b)
        return None


# per parameter: native mode, and the prior letters (asymmetric, all different from each other so
# that any permutation of priors against parameters changes the result)
PARAMS = {
    'planet_radius': {'mode': 'linear', 'priors': {
        'default': P('default-lin', 0.8, 1.3),
        'uniform': P('uniform', 1.25, 0.85),            # reversed on purpose: min/max
        'loguniform': P('loguniform', -0.09, 0.12),
        'gaussian': P('gaussian', 1.05, 0.04)}},
    'T': {'mode': 'linear', 'priors': {
        'default': P('default-lin', 400.0, 1900.0),
        'uniform': P('uniform', 650.0, 2100.0),
        'loguniform': P('loguniform', 2.5, 3.3),
        'gaussian': P('gaussian', 1100.0, 90.0)}},
    'H2O': {'mode': 'log', 'priors': {
        'default': P('default-log', 1e-7, 1e-1),
        'uniform': P('uniform', 1e-5, 0.2),
        'loguniform': P('loguniform', -6.0, -1.5),
        'gaussian': P('gaussian', 0.01, 0.002),
        'loggaussian': P('loggaussian', -3.0, 0.5)}},
    'CH4': {'mode': 'log', 'priors': {
        'default': P('default-log', 1e-8, 0.9),
        'uniform': P('uniform', 1e-6, 0.3),
        'loguniform': P('loguniform', -7.0, -2.0),
        'gaussian': P('gaussian', 0.02, 0.003)}},
    'clouds_pressure': {'mode': 'log', 'priors': {
        'default': P('default-log', 1e0, 1e4),
        'uniform': P('uniform', 50.0, 9000.0),
        'loguniform': P('loguniform', 0.5, 3.5),
        'gaussian': P('gaussian', 800.0, 100.0)}},
    'T_point1': {'mode': 'linear', 'priors': {
        'default': P('default-lin', 500.0, 1700.0),
        'uniform': P('uniform', 450.0, 1500.0),
        'loguniform': P('loguniform', 2.7, 3.2),
        'gaussian': P('gaussian', 1000.0, 120.0)}},
    'P_point1': {'mode': 'log', 'priors': {
        'default': P('default-log', 1e1, 1e4),
        'uniform': P('uniform', 20.0, 5000.0),
        'loguniform': P('loguniform', 0.7, 5.5),          # u=1 -> above P_surface (inverted)
        'gaussian': P('gaussian', 700.0, 80.0)}},
    'T_surface': {'mode': 'linear', 'priors': {
        'default': P('default-lin', 900.0, 2200.0)}},
    'kappa_irr': {'mode': 'log', 'priors': {
        'default': P('default-log', 1e-4, 1e0),
        'uniform': P('uniform', 0.0, 0.8)}},
    'T_irr': {'mode': 'linear', 'priors': {
        'default': P('default-lin', 900.0, 1900.0)}},
    # owned by the observation, not by the model: the observed values are shifted by it
    'obs_offset': {'mode': 'linear', 'priors': {
        'default': P('default-lin', -2e-4, 3e-4),
        'uniform': P('uniform', 1.5e-4, -1e-4),
        'gaussian': P('gaussian', 5e-5, 4e-5)}},
}

# start values of every parameter (the model's construction state)
START = {'planet_radius': 1.0, 'T': 1000.0, 'H2O': 1e-3, 'CH4': 1e-4, 'clouds_pressure': 1e3,
         'T_surface': 1600.0, 'T_top': 600.0, 'T_point1': 1000.0, 'P_point1': 1e3,
         'T_irr': 1400.0, 'kappa_irr': 0.01, 'obs_offset': 0.0}

POOL = {'iso': ['planet_radius', 'T', 'H2O', 'CH4', 'clouds_pressure'],
        'npoint': ['planet_radius', 'T_surface', 'T_point1', 'P_point1', 'H2O', 'CH4',
                   'clouds_pressure'],
        'guillot': ['planet_radius', 'T_irr', 'kappa_irr', 'H2O', 'CH4', 'clouds_pressure']}


# ----------------------------------------------------------------------------------------------
# real objects
# ----------------------------------------------------------------------------------------------
def install_opacities():
    """fresh caches + the two in-memory cross-section tables (values depend on VERIF_SEED)"""
    from taurex.cache import OpacityCache
    fx.reset_caches()
    nW = len(NATIVE_WN)
    slope = np.linspace(0.3, 3.0, nW)
    xa = fx.table(3, 3, nW, 3e-25, salt=('retr', 'H2O')) * slope[None, None, :]
    xb = fx.table(3, 3, nW, 1e-25, salt=('retr', 'CH4')) * slope[::-1][None, None, :]
    OpacityCache().add_opacity(fx.TinyOp('H2O', NATIVE_WN, T_GRID, P_GRID, xa))
    OpacityCache().add_opacity(fx.TinyOp('CH4', NATIVE_WN, T_GRID, P_GRID, xb))


class Parts(object):
    pass


def build_model(tp='iso'):
    """fresh transmission model: 3 layers, H2/He fill, constant H2O + CH4, grey cloud deck."""
    from taurex.model import TransmissionModel
    from taurex.contributions import AbsorptionContribution, SimpleCloudsContribution
    from taurex.data.profiles.chemistry import TaurexChemistry, ConstantGas
    from taurex.data.profiles.temperature import Isothermal, NPoint, Guillot2010
    from taurex.data.planet import Planet
    from taurex.data.stellar import BlackbodyStar
    p = Parts()
    p.tp_kind = tp
    p.planet = Planet(planet_mass=1.0, planet_radius=START['planet_radius'])
    p.star = BlackbodyStar(temperature=5000.0, radius=1.0)
    if tp == 'iso':
        p.tp = Isothermal(T=START['T'])
    elif tp == 'npoint':
        p.tp = NPoint(T_surface=START['T_surface'], T_top=START['T_top'], P_surface=P_MAX,
                      P_top=P_MIN,
                      temperature_points=[START['T_point1']], pressure_points=[START['P_point1']],
                      smoothing_window=10)
    elif tp == 'guillot':
        p.tp = Guillot2010(T_irr=START['T_irr'], kappa_irr=START['kappa_irr'], kappa_v1=0.005,
                           kappa_v2=0.004, alpha=0.4, T_int=100.0)
    else:
        raise ValueError(tp)
    p.chem = TaurexChemistry(fill_gases=['H2', 'He'], ratio=0.17)
    p.gas = {'H2O': ConstantGas('H2O', START['H2O']), 'CH4': ConstantGas('CH4', START['CH4'])}
    p.chem.addGas(p.gas['H2O'])
    p.chem.addGas(p.gas['CH4'])
    p.model = TransmissionModel(planet=p.planet, star=p.star, temperature_profile=p.tp,
                                chemistry=p.chem, nlayers=NLAYERS, atm_min_pressure=P_MIN,
                                atm_max_pressure=P_MAX)
    p.model.add_contribution(AbsorptionContribution())
    p.clouds = SimpleCloudsContribution(clouds_pressure=START['clouds_pressure'])
    p.model.add_contribution(p.clouds)
    p.model.build()
    return p


def set_param(p, name, value):
    """set one parameter of a Parts model through the owning component's own setter"""
    value = float(value)
    if name == 'obs_offset':
        return              # not a model parameter (the oracle adds it to the observed values itself)
    if name == 'planet_radius':
        p.planet.radius = value
    elif name == 'T':
        p.tp.isoTemperature = value
    elif name in ('H2O', 'CH4'):
        p.gas[name].fitting_parameters()[name][3](value)
    elif name == 'clouds_pressure':
        p.clouds.cloudsPressure = value
    elif name == 'T_surface':
        p.tp.temperatureSurface = value
    elif name in ('T_point1', 'P_point1'):
        p.tp.fitting_parameters()[name][3](value)
    elif name == 'T_irr':
        p.tp.equilTemperature = value
    elif name == 'kappa_irr':
        p.tp.meanInfraOpacity = value
    else:
        raise KeyError(name)


def invalid_reason(tp, values):
    """Is the atmosphere described by `values` (name -> linear value; missing = start value)
    invalid by the rules of the components (documented: mixing ratios above unity, inverted
    N-point pressure nodes, Guillot kappa_ir = 0)?  Returns a tag or None."""
    v = dict(START)
    v.update(values)
    if v['H2O'] + v['CH4'] > 1.0:
        return 'mix>1'
    if tp == 'npoint':
        if not (P_MAX > v['P_point1'] > P_MIN):
            return 'npoint-inverted'
    if tp == 'guillot':
        if v['kappa_irr'] == 0.0:
            return 'guillot-kappa0'
    return None


def obs_rows(layout, spectrum, errors):
    L = LAYOUTS[layout]
    cols = [L['wl'], list(spectrum), list(errors)]
    if L['bw'] is not None:
        cols.append(L['bw'])
    return np.array(cols, dtype=float).T


def error_bars(kind, n):
    if kind == 'constant':
        return [4e-5] * n
    if kind == 'tiny':           # so small that their product underflows (their logarithms do not)
        return [(1.0 + 0.3 * i) * 1e-90 for i in range(n)]
    if kind == 'huge':           # ... or overflows
        return [(1.0 + 0.3 * i) * 1e90 for i in range(n)]
    return [(2.0 + 1.7 * i) * 1e-5 for i in range(n)]


_OFFSET_CLS = []


def build_obs(layout, spectrum, errors, offset=False):
    """offset=True: an observation that owns a fitting parameter 'obs_offset' added to every observed value (the
    documented way to fit instrument systematics: a spectrum class with its own @fitparam)."""
    from taurex.data.spectrum.array import ArraySpectrum
    if not offset:
        return ArraySpectrum(obs_rows(layout, spectrum, errors))
    if not _OFFSET_CLS:
        from taurex.core import fitparam

        class OffsetSpectrum(ArraySpectrum):
            def __init__(self, rows):
                ArraySpectrum.__init__(self, rows)
                self._offset = 0.0

            @property
            def spectrum(self):
                return ArraySpectrum.spectrum.fget(self) + self._offset

            @fitparam(param_name='obs_offset', param_latex='$o$', default_mode='linear', default_fit=False,
                      default_bounds=[-1e-3, 1e-3])
            def offset(self):
                return self._offset

            @offset.setter
            def offset(self, value):
                self._offset = value
        _OFFSET_CLS.append(OffsetSpectrum)
    return _OFFSET_CLS[0](obs_rows(layout, spectrum, errors))


def ref_forward(tp, values):
    """independent model at `values` on the full native grid -> (Parts, wn, spectrum)"""
    p = build_model(tp)
    for k, v in values.items():
        set_param(p, k, v)
    wn, spec, tau, _ = p.model.model()
    return p, np.array(wn), np.array(spec)


def ref_binned(tp, values, centres, widths):
    p, wn, spec = ref_forward(tp, values)
    o = np.argsort(wn)
    nc, nw = rs.native_bins(wn[o])
    return rs.overlap_bin(nc, nw, spec[o], centres, widths), p


def make_optimizer(sampler, obs, model, path, **kw):
    cls = ds.optimizer_class(sampler)
    if sampler == 'nestle':
        return cls(observed=obs, model=model, sigma_fraction=1.0, num_live_points=5)
    if sampler == 'multinest':
        extra = {'multinest_prefix': kw['prefix']} if kw.get('prefix') else {}
        return cls(multi_nest_path=path, observed=obs, model=model, sigma_fraction=1.0,
                   search_multi_modes=kw.get('multimodal', True), **extra)
    if sampler == 'polychord':
        return cls(polychord_path=path, observed=obs, model=model, sigma_fraction=1.0,
                   cluster=kw.get('cluster', True))
    raise ValueError(sampler)


def configure(opt, model, fitted, priors):
    """fitted: ordered list of names; priors: name -> letter.  Returns name -> P (own
    description of what was configured)."""
    for name in list(model.fittingParameters):
        if model.fittingParameters[name][5]:
            opt.disable_fit(name)
    mine = {}
    fitted = [n for n in fitted if n != 'obs_offset'] + [n for n in fitted if n == 'obs_offset']
    for name in fitted:
        letter = priors.get(name, 'default')
        pr = PARAMS[name]['priors'][letter]
        opt.enable_fit(name)
        if letter == 'default':
            opt.set_boundary(name, [pr.a, pr.b])
        else:
            opt.set_prior(name, pr.taurex())
        mine[name] = pr
    return mine
