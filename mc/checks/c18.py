"""C18 - parallel post-processing is invariant to how samples are split across ranks
(DESIGN.md section 4, C18; rank simulator of section 2.5 in mc/ranksim.py).

Three families of cases, all executed on the real code under the simulated communicator, every
configuration under both forced arrival orders (bit-identical observations demanded):

  sim_case   self-test of the simulator (serialisation kills object identity, forced order is
             really forced, a rank that raises / returns / calls another collective is reported as
             mismatch, never a hang).  Failures are harness errors.
  ov_case    level (i): taurex.util.math.OnlineVariance.update / parallelVariance driven directly;
             a case = (R, n, weight vector, assignment samples->ranks, value shape, value pattern);
             EVERY function samples->ranks is enumerated.  Oracle: ref.wvar (two-pass).
  opt_case   level (ii): Optimizer.generate_profiles / compute_derived_trace (directly after
             compute_fit, or through the complete fit()) with a nestle.sample double; every rank
             builds its own model / observation / optimizer.  Oracles: two-pass statistics of the
             per-sample outputs of an independent pipeline, the genuine single-process run (real
             taurex.mpi, no simulator), each sample processed exactly once (spy on update_model).
"""
import contextlib
import io
import itertools
import math
import random

import numpy as np

from mc import core, fixtures as fx
from mc import ranksim
from mc.ref import wvar as ref

ID = 'C18'
RULE = ('level (i): for every rank count R and sample count n of the tier, every weight vector of the '
        'weight alphabet (all-zero excluded: the weighted variance is undefined) x EVERY assignment '
        'samples->ranks (R^n functions) x value shape/pattern letters (<=1 deviation), each under both '
        'forced arrival orders; level (ii): R x n x weight pattern x draw order x sigma_fraction x entry '
        'point (direct calls / complete fit()), round-robin split of the code.  A case is non-trivial '
        'when at least two ranks hold samples and there are >= 2 samples in total (the combination '
        'formula, not a single accumulator, decides the result).')
ASSUME = ['mpi4py is not installed: rank identity, collective semantics (full barrier, rank-ordered '
          'results, SUM = Python + in rank order) and pickle serialisation are simulated by mc/ranksim.py; '
          'MPI progress / failure semantics are not modelled',
          'ranks are threads of one process: process-wide singletons (opacity cache, logging) are shared, '
          'which real ranks would each own; they are read-only during post-processing',
          'level (i) weights are Python floats >= 0 with positive total (the optimizer adds 1e-300 to every '
          'weight); values are float64 arrays / numpy scalars',
          'sample rows handed to the sampler double are pairwise distinct (so that "processed exactly once" '
          'can be observed by value)',
          'numpy, numba, pickle, threading trusted; forward model values are taken from an independent '
          'pipeline of the same code (C18 is about the statistics, not the radiative transfer)']

SIM_TIMEOUT = 120.0       # per collective; generous: the machine is shared, first call JIT-compiles


# ==============================================================================================
# helpers
# ==============================================================================================
def split_class(counts, wsum, total):
    """Structural class of a split (for signatures): the most specific feature present."""
    if total < 2:
        return 'fewer-than-two-samples'
    if len(counts) == 1:
        return 'one-rank'
    if any(c == 1 for c in counts):
        return 'single-sample-rank'
    if any(c > 0 and not ws > 0 for c, ws in zip(counts, wsum)):
        return 'zero-weight-rank'
    if any(c == 0 for c in counts):
        return 'empty-rank'
    return 'regular'


def all_nan(x):
    x = np.asarray(x, dtype=float)
    return bool(x.size > 0 and np.all(np.isnan(x)))


def any_nan(x):
    try:
        return bool(np.any(np.isnan(np.asarray(x, dtype=float))))
    except Exception:
        return False


def fail_sig(res):
    """signature part for a run that did not complete on all ranks"""
    r, e = res.primary if res.primary else (None, None)
    return '%s/%s@%s' % (res.verdict, type(e).__name__, res.where)


def both_orders(r, R, fn, label):
    """Run fn on R simulated ranks under both forced arrival orders; the observations must be
    bit-identical and the deposits must have happened in the forced order (else: harness error).
    Returns the ascending-order Result."""
    out = {}
    for order in ('asc', 'desc'):
        comm = ranksim.Comm(R, order, timeout=SIM_TIMEOUT)
        res = comm.run(fn)
        out[order] = res
        forced = all(a == comm.sequence for a in res.arrivals)
        if not forced:
            r.fail('harness', 'harness/ranksim/arrival-order-not-forced/' + label,
                   arrivals=res.arrivals[:4], want=comm.sequence)
        r.count('sim.runs')
        r.count('sim.collectives', len(res.collectives))
    a, d = out['asc'], out['desc']
    same = (a.verdict == d.verdict and a.collectives == d.collectives
            and ranksim.bits(a.out) == ranksim.bits(d.out)
            and (a.verdict == 'ok' or fail_sig(a) == fail_sig(d)))
    r.checks += 1
    r.count('arrival-order-independent')
    if not same:
        r.fail('harness', 'harness/ranksim/order-dependence/' + label,
               asc=a.describe(), desc=d.describe(), out_asc=repr(a.out)[:600], out_desc=repr(d.out)[:600])
    return a


# ==============================================================================================
# the wrapper module itself: taurex.mpi.broadcast / allgather / allreduce / barrier with their own bodies, over a
# stand-in mpi4py whose communicator is the simulated one (everything above replaces these functions wholesale)
# ==============================================================================================
def _payload(letter, k=0):
    if letter.startswith('list'):
        n = int(letter[4:])
        return [(np.array([float(i), float(i) * 0.5]), 1.0 / (i + 1)) for i in range(n)]
    if letter == 'dict':
        return {'a': [1, 2, 3], 'b': {'c': 2.5}, 'rank': k}
    if letter == 'array':
        return np.arange(7.0) * (k + 1)
    if letter == 'array2d':
        return (np.arange(12.0).reshape(3, 4) + k)
    if letter == 'scalar':
        return 3.25 + k
    if letter == 'none':
        return None
    raise ValueError(letter)


def _same_obj(a, b):
    if isinstance(a, np.ndarray) or isinstance(b, np.ndarray):
        return isinstance(a, np.ndarray) and isinstance(b, np.ndarray) and a.shape == b.shape and np.array_equal(a, b)
    if isinstance(a, (list, tuple)):
        return type(a) is type(b) and len(a) == len(b) and all(_same_obj(x, y) for x, y in zip(a, b))
    if isinstance(a, dict):
        return isinstance(b, dict) and sorted(a) == sorted(b) and all(_same_obj(a[k_], b[k_]) for k_ in a)
    return a == b


def wrap_case(case):
    import taurex.mpi as tmpi
    r = core.R(case)
    R, letter, root = case['R'], case['payload'], case['root']
    ranksim.install_deep()
    try:
        def fn(k):
            mine = _payload(letter, k)
            b = tmpi.broadcast(mine, rank=root)
            g = tmpi.allgather(_payload(letter, k))
            tmpi.barrier()
            s_ = tmpi.allreduce(float(k + 1), 'sum')
            return b, g, s_, tmpi.get_rank(), tmpi.nprocs()
        res = ranksim.Comm(R, case['order'], timeout=60.0).run(fn)
    finally:
        ranksim.uninstall_deep()
    tag = letter.rstrip('0123456789') if not letter.startswith('list') else (
        'list-long' if int(letter[4:]) > 1000 else 'list-short')
    if not r.check(res.ok, 'wrapper-runs', 'mpi-module/run-failed/%s' % tag, d=res.describe()):
        return r
    want_b = _payload(letter, root)
    for k, (b, g, s_, rk, npr) in enumerate(res.out):
        r.check(_same_obj(b, want_b), 'broadcast-delivers-root-object', 'mpi-module/broadcast/%s' % tag, rank=k,
                got_len=len(b) if hasattr(b, '__len__') else None,
                want_len=len(want_b) if hasattr(want_b, '__len__') else None)
        r.check(isinstance(g, list) and len(g) == R and all(_same_obj(g[j], _payload(letter, j)) for j in range(R)),
                'allgather-delivers-all', 'mpi-module/allgather/%s' % tag, rank=k)
        r.check(s_ == R * (R + 1) / 2.0, 'allreduce-sums', 'mpi-module/allreduce', rank=k, got=s_)
        r.check(rk == k and npr == R, 'rank-identity', 'mpi-module/rank', rank=k, got=[rk, npr])
    r.observe(letter, R, root)
    r.nontrivial = R > 1
    return r


# ==============================================================================================
# simulator self-test
# ==============================================================================================
SIM_CASES = ['identity', 'kinds', 'raise-before', 'return-early', 'other-collective', 'raise-after',
             'bcast-root', 'foreign-thread', 'importers']


def sim_case(case):
    import taurex.mpi as tmpi
    r = core.R(case)
    ranksim.install()
    what, R = case['what'], case['R']

    def hs(ok, name, **d):
        r.check(ok, 'simulator-selftest', 'harness/ranksim/selftest/' + name, **d)

    def run(fn, order='asc', timeout=20.0):
        return ranksim.Comm(R, order, timeout=timeout).run(fn)

    if what == 'identity':
        # what the real allgather does to a value: the receiver never sees the sender's object
        def fn(k):
            mine = np.nan
            got = tmpi.allgather(mine)
            arr = np.arange(3.0) + k
            garr = tmpi.allgather(arr)
            return ([g is np.nan for g in got], [math.isnan(g) for g in got],
                    [g is arr for g in garr], [g.tolist() for g in garr], tmpi.get_rank(), tmpi.nprocs())
        for order in ('asc', 'desc'):
            res = run(fn, order)
            hs(res.ok, 'identity/ok', d=res.describe())
            if res.ok:
                for k, o in enumerate(res.out):
                    hs(not any(o[0]) and all(o[1]) and not any(o[2]), 'identity/pickled', out=repr(o))
                    hs(o[3] == [[0.0 + j, 1.0 + j, 2.0 + j] for j in range(R)], 'identity/rank-order', out=repr(o))
                    hs(o[4] == k and o[5] == R, 'identity/rank', out=repr(o))
                seq = tuple(range(R)) if order == 'asc' else tuple(range(R - 1, -1, -1))
                hs(all(a == seq for a in res.arrivals) and len(res.arrivals) == 2, 'forced-order',
                   arrivals=res.arrivals)
            r.observe(repr(res.out))
    elif what == 'kinds':
        def fn(k):
            a = tmpi.allreduce([k, 10 * k], 'SUM')
            b = tmpi.allreduce(k + 1, 'sum')
            c = tmpi.broadcast({'v': k}, R - 1)
            d = tmpi.broadcast(np.full(2, float(k)))
            tmpi.barrier()
            return a, b, c, d.tolist()
        res = run(fn)
        hs(res.ok, 'kinds/ok', d=res.describe())
        if res.ok:
            want = (sum(([k, 10 * k] for k in range(R)), []), sum(range(1, R + 1)), {'v': R - 1}, [0.0, 0.0])
            for o in res.out:
                hs(tuple(o) == want, 'kinds/values', out=repr(o), want=repr(want))
            hs([c[0] for c in res.collectives] == ['allreduce', 'allreduce', 'broadcast', 'broadcast', 'barrier'],
               'kinds/log', log=res.collectives)
        r.observe(repr(res.out))
    elif what in ('raise-before', 'return-early', 'other-collective', 'raise-after'):
        def fn(k):
            if what == 'raise-before' and k == R - 1:
                raise ZeroDivisionError('planted')
            if what == 'return-early' and k == 0:
                return 'early'
            if what == 'other-collective' and k == R - 1:
                return tmpi.allreduce([k], 'sum')
            g = tmpi.allgather(k)
            if what == 'raise-after' and k == 0:
                raise KeyError('planted')
            return g
        import time
        t0 = time.monotonic()
        res = run(fn, case.get('order', 'asc'), timeout=20.0)
        dt = time.monotonic() - t0
        hs(dt < 10.0, what + '/no-hang', seconds=dt)
        if R == 1:
            want = {'raise-before': 'raised', 'return-early': 'ok', 'other-collective': 'ok',
                    'raise-after': 'raised'}[what]
        else:
            want = {'raise-before': 'mismatch', 'return-early': 'mismatch', 'other-collective': 'mismatch',
                    'raise-after': 'raised'}[what]
        hs(res.verdict == want, what + '/verdict', got=res.describe(), want=want)
        if what == 'raise-before':
            hs(isinstance(res.primary[1], ZeroDivisionError) and res.primary[0] == R - 1, what + '/primary',
               got=res.describe())
        r.observe(res.verdict)
    elif what == 'bcast-root':
        def fn(k):
            return tmpi.broadcast('x', k)         # ranks disagree on the root
        res = run(fn)
        hs(res.verdict == ('mismatch' if R > 1 else 'ok'), 'bcast-root', got=res.describe())
        r.observe(res.verdict)
    elif what == 'foreign-thread':
        # a thread that is not a simulated rank keeps the single-process behaviour
        hs(tmpi.get_rank() == 0 and tmpi.nprocs() == 1 and tmpi.allgather(5) == [5]
           and tmpi.allreduce([1], 'sum') == [1] and tmpi.broadcast('b') == 'b' and tmpi.barrier() is None,
           'foreign-thread')
        x = np.nan
        hs(tmpi.allgather(x)[0] is x, 'foreign-thread/identity-kept')
        r.observe('foreign')
    elif what == 'importers':
        # the replacement must be what the code under test sees: taurex.mpi attributes, looked up at
        # call time by util.math / optimizer (function-level `from taurex import mpi`), and names
        # bound at import time by other taurex modules
        import sys
        import taurex.optimizer.optimizer  # noqa
        import taurex.util.math  # noqa
        import taurex.output.hdf5 as oh
        ranksim.install()
        hs(all(getattr(tmpi, n) is ranksim._REPL[n] for n in ranksim.NAMES), 'importers/module-attrs')
        stale = []
        for mname, mod in list(sys.modules.items()):
            if mod is None or not mname.startswith('taurex'):
                continue
            for n in ranksim.NAMES:
                if getattr(mod, n, None) is ranksim._ORIG[n]:
                    stale.append((mname, n))
        hs(not stale, 'importers/stale-binding', stale=stale)
        hs(oh.get_rank is ranksim._REPL['get_rank'], 'importers/hdf5')
        import inspect
        from taurex.util.math import OnlineVariance
        from taurex.optimizer.optimizer import Optimizer
        for f in (OnlineVariance.parallelVariance, Optimizer.generate_profiles, Optimizer.compute_derived_trace):
            src = inspect.getsource(f)
            hs('from taurex import mpi' in src and 'mpi.' in src, 'importers/call-time-lookup/' + f.__name__)

        def fn(k):
            seen = []

            @tmpi.only_master_rank
            def master():
                seen.append(k)
            master()
            return seen
        res = run(fn)
        hs(res.ok and res.out == [[0]] + [[] for _ in range(R - 1)], 'importers/only_master_rank', out=repr(res.out))
        r.observe('importers')
    r.nontrivial = R > 1
    return r


# ==============================================================================================
# level (i): OnlineVariance
# ==============================================================================================
SHAPES = {'vec': (3,), 'scalar': (), 'mat': (2, 2)}
NMAX = 6
_SPY_TL = None


def ov_values(shape, pattern, n):
    shp = SHAPES[shape]
    g = fx.rng('c18', 'values', shape).uniform(-1.0, 1.0, size=(NMAX,) + shp)
    if pattern == 'generic':
        v = g
    elif pattern == 'const':
        v = np.broadcast_to(g[0], g.shape).copy()
    elif pattern == 'offset':
        v = 1.0e3 + g
    elif pattern == 'pair':
        v = np.array([g[i % 2] for i in range(NMAX)])
    elif pattern == 'nanel':
        # one element is NaN in every sample (a bin or layer the model never covers), the others are generic numbers
        v = g.copy()
        v.reshape(NMAX, -1)[:, 0] = np.nan
    else:
        raise ValueError(pattern)
    out = []
    for i in range(n):
        out.append(np.float64(v[i]) if shp == () else np.array(v[i], dtype=float))
    return out


def install_mean_spy():
    """Wrap OnlineVariance.combine_variance (transparent) so that the pooled *mean* the code
    computes next to the variance can be compared as well (parallelVariance discards it)."""
    global _SPY_TL
    import threading
    from taurex.util.math import OnlineVariance
    if getattr(OnlineVariance.combine_variance, '_c18_spy', False):
        return
    _SPY_TL = threading.local()
    orig = OnlineVariance.combine_variance

    def combine_variance(self, *a, **k):
        out = orig(self, *a, **k)
        try:
            _SPY_TL.mean = np.array(out[0], dtype=float, copy=True)
        except Exception:
            _SPY_TL.mean = None
        return out
    combine_variance._c18_spy = True
    OnlineVariance.combine_variance = combine_variance


# absolute tolerance on a variance, in units of the squared scale of the values (the combination formula is accurate
# relative to the spread it measures, not to the size of the values)
ATOL_V = 1e-26


def ov_case(case):
    from taurex.util.math import OnlineVariance
    r = core.R(case)
    fx.reset_caches()
    install_mean_spy()
    R, n = case['R'], case['n']
    w = [float(x) for x in case['w']]
    assign = list(case['assign'])
    vals = ov_values(case['shape'], case['vals'], n)
    counts = [sum(1 for a in assign if a == k) for k in range(R)]
    wsum = [math.fsum(w[i] for i in range(n) if assign[i] == k) for k in range(R)]
    cls = split_class(counts, wsum, n)
    # total weight so small that products of two weights underflow: its own structural class
    tag = 'tiny-total-weight' if (n and 0 < math.fsum(w) < 1e-150) else cls

    def fn(k):
        _SPY_TL.mean = None
        ov = OnlineVariance()
        work = None
        for i in range(n):
            if assign[i] == k:
                if case.get('inplace') and isinstance(vals[i], np.ndarray):
                    # the caller keeps one work array per rank and refills it in place for every sample
                    if work is None:
                        work = np.empty_like(vals[i], dtype=np.float64)
                    work[...] = vals[i]
                    ov.update(work, weight=w[i])
                else:
                    ov.update(vals[i].copy() if isinstance(vals[i], np.ndarray) else vals[i], weight=w[i])
        v = ov.parallelVariance()
        if case.get('again'):
            # the combined statistics are asked for a second time on the live accumulators (a second solution, a
            # second output): the same answer
            v = ov.parallelVariance()
        return {'var': v, 'mean': _SPY_TL.mean, 'count': ov.count}

    res = both_orders(r, R, fn, 'ov')
    if not r.check(res.ok, 'no-deadlock-no-exception', 'ov/%s/%s' % (fail_sig(res), tag),
                   failure=res.describe(), cause=repr(res.cause), counts=counts, weights=w):
        r.observe(res.verdict)
        return r
    r.check(len(res.collectives) == (8 if case.get('again') else 4) and all(c[0] == 'allgather' for c in res.collectives),
            'collectives', 'ov/collective-sequence', got=res.collectives)
    shp = SHAPES[case['shape']]
    want_v = ref.wvar(vals, w) if n > 0 else None
    want_m = ref.wmean(vals, w) if n > 0 else None
    sc2 = ref.scale2(vals)
    if case['vals'] == 'nanel':
        # element by element: the never-covered element has no variance (NaN in, NaN out), every other element has the
        # two-pass variance of its own numbers
        sc2 = ref.scale2([np.nan_to_num(v_, nan=0.0) for v_ in vals])
        for k, o in enumerate(res.out):
            v = np.asarray(o['var'], dtype=float)
            if n < 2 or want_v is None:
                continue
            if not r.check(v.shape == np.shape(want_v), 'variance==two-pass', 'ov/nan-element/shape', got=v.shape):
                continue
            fin = np.isfinite(np.asarray(want_v))
            r.check(core.close(v[fin], np.asarray(want_v)[fin], core.RTOL, ATOL_V * sc2), 'variance==two-pass',
                    'ov/nan-element/finite-elements-wrong/' + tag, rank=k, got=v, want=want_v, counts=counts, weights=w)
        r.observe(np.nan_to_num(np.asarray(res.out[0]['var'], dtype=float), nan=-1.0), res.verdict)
        r.nontrivial = n >= 2 and sum(1 for c in counts if c > 0) >= 2
        return r
    first = res.out[0]['var']
    for k, o in enumerate(res.out):
        v = o['var']
        if n < 2:
            # fewer than two samples in total: NaN (what a single process answers) or the two-pass
            # value (0) are both accepted
            ok = all_nan(v) or (want_v is not None and core.close(v, want_v, core.RTOL, ATOL_V * sc2))
            r.check(ok, 'fewer-than-two', 'ov/fewer-than-two-samples/not-nan-not-zero', got=v, rank=k)
        else:
            good = np.shape(v) == shp and core.close(v, want_v, core.RTOL, ATOL_V * sc2)
            kind = 'variance-nan' if any_nan(v) else 'variance-wrong'
            r.check(good, 'variance==two-pass', 'ov/%s/%s' % (kind, tag), rank=k, got=v, want=want_v,
                    counts=counts, weights=w, maxrel=core.maxrel_safe(v, want_v))
            # a variance is non-negative (the two-pass one is by construction; its square root is
            # what the callers publish): rounding must not push it below zero
            r.check(not good or bool(np.all(np.asarray(v) >= 0)), 'variance>=0', 'ov/variance-negative/' + tag,
                    rank=k, got=v, counts=counts, weights=w)
            m = o['mean']
            goodm = m is not None and core.close(m, want_m, core.RTOL, 1e-15 * math.sqrt(sc2))
            r.check(goodm, 'mean==two-pass', 'ov/%s/%s' % ('mean-nan' if any_nan(m) else 'mean-wrong', tag),
                    rank=k, got=m, want=want_m, counts=counts, weights=w)
        same = (np.shape(v) == np.shape(first)) and (
            core.close(np.nan_to_num(v, nan=-1.0), np.nan_to_num(first, nan=-1.0), core.RTOL, ATOL_V * sc2))
        r.check(same, 'ranks-agree', 'ov/ranks-disagree/' + tag, rank=k, got=v, rank0=first)
    r.observe(np.asarray(first, dtype=float), res.verdict)
    r.nontrivial = n >= 2 and sum(1 for c in counts if c > 0) >= 2
    return r


# weight alphabets --------------------------------------------------------------------------
W_FULL = [0.0, 1e-300, 0.1, 0.5, 1.0]
W_SMALL = [0.0, 0.5, 1.0]
W_BIN = [0.0, 1.0]


def w_patterns(n):
    """special weight vectors of length n (structure independent of the seed)"""
    g = (10 ** fx.rng('c18', 'wgeneric').uniform(-3, 0, size=NMAX)).tolist()
    pats = {
        'tiny-mix': [1e-300, 1.0, 1e-300, 0.5, 1e-300, 0.1],
        'all-tiny': [1e-300] * NMAX,
        'ties': [0.1, 0.1, 0.5, 0.5, 1.0, 1.0],
        'generic': g,
        'zero-first': [0.0, 1e-300, 0.1, 0.5, 1.0, 0.1],
        'zero-last': [0.1, 1.0, 0.5, 0.1, 1e-300, 0.0][NMAX - n:] if n else [],
        'one-heavy': [1e-300, 1e-300, 1.0, 1e-300, 1e-300, 1e-300],
        # importance weights of a sharply peaked posterior: one sample carries practically everything, the others
        # 1e-18 .. 1e-22 of it (their spread is still a well-defined, representable number)
        'ratio20': [1e-19, 1e-21, 1.0, 1e-20, 3e-19, 2e-20],
    }
    out = []
    for k in sorted(pats):
        v = [float(x) for x in pats[k][:n]]
        if len(v) == n and sum(v) > 0:
            out.append(v)
    return out


def ov_cases(tier):
    cases = []
    seen = set()

    def add(R, n, w, shape, vals):
        for assign in itertools.product(range(R), repeat=n):
            key = (R, n, tuple(w), assign, shape, vals)
            if key in seen:
                continue
            seen.add(key)
            cases.append({'R': R, 'n': n, 'w': list(w), 'assign': list(assign), 'shape': shape, 'vals': vals})
            if shape in ('vec', 'mat') and vals == 'generic' and n >= 2 and all(x > 0 for x in w):
                cases.append({'R': R, 'n': n, 'w': list(w), 'assign': list(assign), 'shape': shape, 'vals': vals,
                              'inplace': True})
            if shape == 'vec' and vals == 'generic' and n >= 2:
                cases.append({'R': R, 'n': n, 'w': list(w), 'assign': list(assign), 'shape': shape, 'vals': vals,
                              'again': True})
    devs = [('vec', 'generic'), ('scalar', 'generic'), ('mat', 'generic'), ('vec', 'const'), ('vec', 'offset'),
            ('vec', 'pair'), ('vec', 'nanel'), ('mat', 'nanel')]
    if tier == 'quick':
        Rs, ns = [1, 2, 3], range(0, 5)
        for R in Rs:
            for n in ns:
                for w in itertools.product(W_SMALL if n <= 3 else W_BIN, repeat=n):
                    if n and not sum(w) > 0:
                        continue
                    add(R, n, w, 'vec', 'generic')
                for w in w_patterns(n):
                    for shape, vals in ((devs[:5] + devs[6:]) if n <= 3 else [devs[0], devs[1], devs[3]]):
                        add(R, n, w, shape, vals)
        bound = {'R': 3, 'n': 4, 'assignments': 'all R^n',
                 'weights': '{0,0.5,1}^n (n<=3), {0,1}^4, + 7 patterns (1e-300, 0.1, ties, generic, zeros)'}
    else:
        Rs = [1, 2, 3, 4]
        for R in Rs:
            for n in range(0, 7):
                if n <= 4:
                    alpha = W_FULL
                elif n == 5:
                    alpha = W_BIN
                else:
                    alpha = None
                if alpha is not None:
                    for w in itertools.product(alpha, repeat=n):
                        if n and not sum(w) > 0:
                            continue
                        add(R, n, w, 'vec', 'generic')
                for w in w_patterns(n):
                    for shape, vals in (devs if n <= 4 else (devs[:2] + devs[3:4]) if n == 5 else devs[:1]):
                        add(R, n, w, shape, vals)
        bound = {'R': 4, 'n': 6, 'assignments': 'all R^n',
                 'weights': '{0,1e-300,0.1,0.5,1}^n for n<=4, {0,1}^5, 7 patterns for every n<=6'}
    return cases, bound


# ==============================================================================================
# level (ii): Optimizer.generate_profiles / compute_derived_trace
# ==============================================================================================
WN = [1000.0, 2000.0, 3000.0, 4000.0]
OPT_W = {
    'distinct': [0.40, 0.30, 0.15, 0.10, 0.04, 0.01],
    'equal': [1.0] * NMAX,
    'ties': [0.3, 0.3, 0.1, 0.1, 0.2, 0.2],
    'zero': [0.25, 0.25, 0.0, 0.25, 0.0, 0.25],
    'tiny': [1e-300, 0.5, 1e-300, 0.3, 0.2, 1e-300],
    # posterior mass in one sample: with sigma_fraction < 1 the drawn subset may carry zero weight only
    'one-nonzero': [0.0, 0.0, 1.0, 0.0, 0.0, 0.0],
    # distinct weights on samples that share their temperature in pairs (equal derived values with different weights:
    # their order in the trace decides the interpolated quantiles)
    'tiedvals': [0.40, 0.30, 0.15, 0.10, 0.04, 0.01],
}


def opt_samples(n, wlet):
    if n > NMAX:
        # larger posteriors (the index arithmetic that deals samples to ranks and puts gathered results back in
        # sample order is only exercised beyond a handful of samples): generic distinct values and weights
        g = fx.rng('c18', 'samples-many', n)
        T = g.permutation(np.linspace(700.0, 1600.0, n))
        X = g.uniform(-6.0, -3.0, size=n)
        w = g.uniform(0.1, 1.0, size=n) if wlet != 'equal' else np.ones(n)
        return np.column_stack([T, X]), w / w.sum()
    g = fx.rng('c18', 'samples')
    T = np.sort(g.uniform(700.0, 1600.0, size=NMAX))[::-1][[2, 0, 4, 1, 5, 3]]     # distinct, unsorted
    X = g.uniform(-6.0, -3.0, size=NMAX)
    if wlet == 'tiedvals':
        T = T[[0, 1, 0, 1, 0, 2]]
    s = np.column_stack([T, X])[:n].copy()
    w = np.array(OPT_W[wlet][:n], dtype=float)
    if not w.sum() > 0:
        w[-1] = 1.0
    w = w / w.sum()
    return s, w


def opt_register_opacity():
    from taurex.cache import OpacityCache
    x = fx.table(3, 3, 4, 1e-24, salt=('c18',), pattern='generic')
    OpacityCache().add_opacity(fx.TinyOp('H2O', WN, fx.T_GRIDS[3], fx.P_GRIDS[3], x))


def opt_install_double(samples, weights):
    """Minimal nestle.sample double: ignores the callbacks, returns exactly the enumerated
    weighted sample set in nestle's native Result form (copies: ranks must not share arrays)."""
    import nestle
    import taurex.optimizer.nestle as tn

    class Res(nestle.Result):
        def summary(self):
            return ''

    def sample(loglike, prior, ndim, **kw):
        n = len(weights)
        return Res(logz=-1.0, logzerr=0.1, h=1.0, samples=np.array(samples, dtype=float, copy=True),
                   weights=np.array(weights, dtype=float, copy=True), logl=-np.arange(n, 0, -1.0),
                   logvol=-np.arange(1.0, n + 1), niter=n, ncall=n)
    if not hasattr(tn, '_c18_orig_sample'):
        tn._c18_orig_sample = (tn.nestle.sample, tn.nestle.print_progress)
    tn.nestle.sample = sample
    tn.nestle.print_progress = lambda *a, **k: None


def opt_uninstall_double():
    import taurex.optimizer.nestle as tn
    if hasattr(tn, '_c18_orig_sample'):
        tn.nestle.sample, tn.nestle.print_progress = tn._c18_orig_sample


_COND_CHEM = None


def opt_build(frac):
    """fresh model, observation, optimizer (what every MPI process builds for itself)"""
    from taurex.model import TransmissionModel
    from taurex.contributions import AbsorptionContribution
    from taurex.data.profiles.chemistry import TaurexChemistry, ConstantGas
    from taurex.data.spectrum import ArraySpectrum
    from taurex.optimizer.nestle import NestleOptimizer
    global _COND_CHEM
    if _COND_CHEM is None:
        class CondensingChemistry(TaurexChemistry):
            """A chemistry that also reports a condensate (the documented extension point: `condensates` and
            `condensateMixProfile`); its profile follows the water abundance, so it varies from sample to sample."""
            @property
            def condensates(self):
                return ['H2O(s)']

            @property
            def condensateMixProfile(self):
                h2o = np.asarray(self.get_gas_mix_profile('H2O'), dtype=float)
                return (h2o * np.linspace(0.5, 2.0, h2o.shape[0]))[None, :]
        _COND_CHEM = CondensingChemistry
    chem = _COND_CHEM()
    chem.addGas(ConstantGas('H2O', 1e-4))
    tm = TransmissionModel(nlayers=3, atm_min_pressure=1e-1, atm_max_pressure=1e5, chemistry=chem)
    tm.add_contribution(AbsorptionContribution())
    tm.build()
    wl = 10000.0 / np.array(WN)
    obs = ArraySpectrum(np.vstack([wl, np.full(4, 0.0115), np.full(4, 1e-4)]).T)
    opt = NestleOptimizer(obs, tm, num_live_points=5, sigma_fraction=frac)
    opt.disable_fit('planet_radius')
    opt.enable_fit('T')
    opt.enable_fit('H2O')
    opt.enable_derived('avg_T')
    return tm, obs, opt


PROF_KEYS = ['temp_profile_std', 'active_mix_profile_std', 'inactive_mix_profile_std', 'condensate_profile_std']
SPEC_KEYS = ['native_std', 'binned_std']
DER_KEYS = ['value', 'sigma_m', 'sigma_p', 'mean']


def opt_job(frac, entry):
    """what one process executes; returns plain observations"""
    tm, obs, opt = opt_build(frac)
    seen = {'profiles': [], 'derived': [], 'other': []}
    state = {'phase': 'other'}
    real_update = opt.update_model

    def update_model(params):
        seen[state['phase']].append([float(x) for x in params])
        return real_update(params)
    opt.update_model = update_model
    real_gp, real_cd = opt.generate_profiles, opt.compute_derived_trace

    def generate_profiles(*a, **k):
        state['phase'] = 'profiles'
        try:
            return real_gp(*a, **k)
        finally:
            state['phase'] = 'other'

    def compute_derived_trace(*a, **k):
        state['phase'] = 'derived'
        try:
            return real_cd(*a, **k)
        finally:
            state['phase'] = 'other'
    opt.generate_profiles = generate_profiles
    opt.compute_derived_trace = compute_derived_trace
    if entry in ('direct', 'direct-sol1', 'direct-sol2'):
        # (direct-solN: the post-processing of the N-th solution of a multi-modal result - the same samples here; the
        # solution number is a label and must not enter how samples are dealt to ranks or put back in order)
        sol_no = {'direct': 0, 'direct-sol1': 1, 'direct-sol2': 2}[entry]
        opt.compile_params()
        opt.compute_fit()
        prof, spec = opt.generate_profiles(sol_no, obs.wavenumberGrid)
        der = opt.compute_derived_trace(sol_no)
    else:
        sol = opt.fit()['solution0']
        prof, spec, der = sol['Profiles'], sol['Spectra'], sol['derived_params']
    out = {'names': list(opt.fit_names), 'derived_names': list(opt.derived_names),
           'seen_profiles': seen['profiles'], 'seen_derived': seen['derived']}
    # everything else stored next to the standard deviations (the profiles of the median solution, the spectra of
    # the best solution): arrays only, flat names
    out['stored'] = {}
    if not entry.startswith('direct'):
        for grp, dct in (('Profiles', prof), ('Spectra', spec)):
            for k_, v_ in dct.items():
                if isinstance(v_, dict) or k_ in PROF_KEYS or k_ in SPEC_KEYS:
                    continue
                try:
                    out['stored']['%s/%s' % (grp, k_)] = np.array(v_, dtype=float)
                except (TypeError, ValueError):
                    pass
    for k in PROF_KEYS:
        out[k] = np.array(prof[k], dtype=float)
    for k in SPEC_KEYS:
        out[k] = np.array(spec[k], dtype=float)
    out['derived'] = {}
    for name, d in sorted(der.items()):
        out['derived'][name] = dict((k, np.array(d[k], dtype=float)) for k in DER_KEYS + ['trace'])
    return out


def opt_reference(samples, frac):
    """Independent pipeline (own objects, no MPI, no OnlineVariance): the per-sample quantities whose
    weighted statistics are under test, in sample order."""
    tm, obs, opt = opt_build(frac)
    opt.compile_params()
    per = []
    for p in samples:
        opt.update_model(p)
        grid, native, tau, _ = tm.model(wngrid=obs.wavenumberGrid, cutoff_grid=False)
        q = {'temp_profile_std': np.array(tm.temperatureProfile, dtype=float, copy=True),
             'active_mix_profile_std': np.array(tm.chemistry.activeGasMixProfile, dtype=float, copy=True),
             'inactive_mix_profile_std': np.array(tm.chemistry.inactiveGasMixProfile, dtype=float, copy=True),
             'condensate_profile_std': np.array(tm.chemistry.condensateMixProfile, dtype=float, copy=True),
             'native_std': np.array(native, dtype=float, copy=True),
             'binned_std': np.array(opt._binner.bindown(grid, native)[1], dtype=float, copy=True)}
        opt.update_model(p)
        tm.initialize_profiles()
        q['derived'] = dict(('%s_derived' % nme, float(v)) for nme, v in zip(opt.derived_names, opt.derived_values))
        per.append(q)
    return per


def random_draw(n, frac, seed):
    """for signatures only: which samples a draw of int(n*frac) out of n picks under this seed"""
    st = random.getstate()
    random.seed(seed)
    try:
        return random.sample(range(n), int(n * frac))
    finally:
        random.setstate(st)


def row_index(samples, row):
    hit = [i for i in range(len(samples)) if np.array_equal(np.asarray(samples[i], dtype=float),
                                                            np.asarray(row, dtype=float))]
    return hit[0] if len(hit) == 1 else None


def opt_case(case):
    r = core.R(case)
    fx.reset_caches()
    opt_register_opacity()
    R, n, wlet, perm, frac, entry = (case['R'], case['n'], case['wlet'], case['perm'], case['frac'],
                                     case['entry'])
    samples, weights = opt_samples(n, wlet)
    opt_install_double(samples, weights)
    ties = len(set(weights.tolist())) < n
    tietag = 'tied-weights' if ties else 'distinct-weights'
    try:
        with contextlib.redirect_stdout(io.StringIO()):
            per = opt_reference(samples, frac)
            # the genuine single-process run: real taurex.mpi functions (this thread is no rank)
            random.seed(1000 + perm)
            try:
                single = opt_job(frac, entry)
            except Exception as e:
                picked = random_draw(n, frac, 1000 + perm)
                wc = 'zero-weight-draw' if not sum(float(weights[i]) for i in picked) > 0 else 'weighted-draw'
                r.check(False, 'single-process-runs', 'opt/single-process-raised/%s@%s/%s' % (
                    type(e).__name__, ranksim.where_of(e), wc), exc=repr(e), drawn=picked, weights=weights)
                r.observe('single-raised')
                return r

            def fn(k):
                return opt_job(frac, entry)
            outs = {}
            for order in ('asc', 'desc'):
                random.seed(1000 + perm)            # only rank 0 draws (sample_parameters)
                comm = ranksim.Comm(R, order, timeout=SIM_TIMEOUT)
                outs[order] = comm.run(fn)
                r.count('sim.runs')
                r.count('sim.collectives', len(outs[order].collectives))
                if not all(a == comm.sequence for a in outs[order].arrivals):
                    r.fail('harness', 'harness/ranksim/arrival-order-not-forced/opt')
    finally:
        opt_uninstall_double()
    a, d = outs['asc'], outs['desc']
    same = (a.verdict == d.verdict and a.collectives == d.collectives
            and ranksim.bits(a.out) == ranksim.bits(d.out)
            and (a.ok or fail_sig(a) == fail_sig(d)))
    r.checks += 1
    r.count('arrival-order-independent')
    if not same:
        r.fail('harness', 'harness/ranksim/order-dependence/opt', asc=a.describe(), desc=d.describe())
    res = a
    nproc = int(n * frac)                               # documented: a sigma_fraction of the samples
    counts = [len(range(k, nproc, R)) for k in range(R)]
    cls = split_class(counts, [1.0] * R, nproc)
    if not r.check(res.ok, 'no-deadlock-no-exception', 'opt/%s/%s' % (fail_sig(res), cls),
                   failure=res.describe(), cause=repr(res.cause), tb=(res.tb[res.primary[0]] or '')[-1500:]
                   if res.primary else None):
        r.observe(res.verdict)
        return r

    # ---- each sample processed exactly once ------------------------------------------------
    once_ok = {}
    for phase, want_n in (('seen_profiles', nproc), ('seen_derived', n)):
        idx = []
        bad = False
        for k, o in enumerate(res.out):
            for row in o[phase]:
                i = row_index(samples, row)
                if i is None:
                    bad = True
                idx.append(i)
        once = (not bad) and len(idx) == want_n and len(set(idx)) == len(idx)
        once_ok[phase] = once
        r.check(once, 'each-sample-once', 'opt/each-sample-once/%s' % phase,
                processed=[[row_index(samples, row) for row in o[phase]] for o in res.out], want_count=want_n)
    proc = sorted(set(i for o in res.out for i in [row_index(samples, row) for row in o['seen_profiles']]
                      if i is not None))
    proc1 = sorted(set(i for i in [row_index(samples, row) for row in single['seen_profiles']] if i is not None))
    r.check(proc == proc1, 'same-draw-as-single-process', 'opt/sample-subset-differs', got=proc, single=proc1)

    # ---- what is stored next to them: the same on every rank as in the single-process run -------
    for key in sorted(single.get('stored', {})):
        sv_ = single['stored'][key]
        for k, o in enumerate(res.out):
            gv_ = o.get('stored', {}).get(key)
            ok_ = gv_ is not None and np.shape(gv_) == np.shape(sv_) and core.close(gv_, sv_, core.RTOL, 0.0)
            r.check(bool(ok_), 'stored==single-process', 'opt/stored-differs-from-single-process/%s' % key.split('/')[0],
                    key=key, rank=k, got=gv_, single=sv_, counts=[len(o_['seen_profiles']) for o_ in res.out])
    # ---- standard deviations of profiles and spectra ---------------------------------------
    # (when the partition itself is wrong the statistics below would only repeat that finding)
    for key in (PROF_KEYS + SPEC_KEYS if once_ok['seen_profiles'] else []):
        vals = [per[i][key] for i in proc]
        ws = [float(weights[i]) for i in proc]
        want = ref.wvar(vals, ws) if len(proc) >= 1 else None      # None: no sample or zero total weight
        sc2 = ref.scale2(vals) if vals else 0.0
        sv = np.asarray(single[key], dtype=float) ** 2
        for k, o in enumerate(res.out):
            got = np.asarray(o[key], dtype=float) ** 2
            if len(proc) < 2:
                ok = all_nan(got) or (want is not None and core.close(got, want, 4 * core.RTOL, 1e-13 * sc2))
                r.check(ok, 'std-fewer-than-two', 'opt/std/fewer-than-two-samples/%s' % key, got=got, rank=k)
            elif want is None:
                # all drawn samples carry zero posterior weight: the weighted variance is undefined;
                # demanded: a finite answer, the same as the single process gives (below)
                if not r.check(not any_nan(got), 'std-finite-zero-weight-draw', 'opt/std-nan/zero-weight-draw/%s' % cls,
                               key=key, rank=k, got_var=got, counts=counts):
                    continue
            else:
                kind = 'std-nan' if any_nan(got) else 'std-wrong'
                if not r.check(np.shape(got) == np.shape(want) and core.close(got, want, 4 * core.RTOL, 1e-13 * sc2),
                               'std==two-pass',
                               'opt/%s/%s/%s' % (kind, cls, 'profile' if key in PROF_KEYS else 'spectrum'),
                               key=key, rank=k, got_var=got, want_var=want, counts=counts, R=R, n=n):
                    continue            # (the comparison with the single-process run would only repeat it)
            nanpat = np.shape(got) == np.shape(sv) and bool(np.all(np.isnan(got) == np.isnan(sv)))
            oks = nanpat and core.close(np.nan_to_num(got, nan=-1.0), np.nan_to_num(sv, nan=-1.0),
                                         4 * core.RTOL, 1e-13 * sc2)
            r.check(oks, 'std==single-process',
                    'opt/%s-vs-single/%s/%s' % ('std-nan' if any_nan(got) and not any_nan(sv) else 'std-differs',
                                                cls, 'profile' if key in PROF_KEYS else 'spectrum'),
                    key=key, rank=k, got_var=got, single_var=sv, counts=counts)
    # the single-process run itself against the two-pass reference (R-independent sanity of the oracle)
    if len(proc1) >= 2 and sum(float(weights[i]) for i in proc1) > 0:
        for key in PROF_KEYS + SPEC_KEYS:
            vals = [per[i][key] for i in proc1]
            ws = [float(weights[i]) for i in proc1]
            r.check(core.close(np.asarray(single[key], dtype=float) ** 2, ref.wvar(vals, ws), 4 * core.RTOL,
                               1e-13 * ref.scale2(vals)), 'single-process==two-pass', 'opt/single-process-std-wrong/' + key)

    # ---- derived traces and summaries --------------------------------------------------------
    dn = sorted(single['derived'])
    r.check(len(dn) >= 2, 'derived-enabled', 'harness/opt/no-derived-parameters', names=dn)
    for name in (dn if once_ok['seen_derived'] else []):
        want_trace = np.array([per[i]['derived'][name] for i in range(n)])
        st = single['derived'][name]
        r.check(core.close(st['trace'], want_trace), 'single-process-trace', 'opt/single-process-trace-wrong',
                got=st['trace'], want=want_trace)
        wmean = float(np.sum(weights * want_trace) / np.sum(weights))
        for k, o in enumerate(res.out):
            if not r.check(name in o['derived'], 'derived-present', 'opt/derived-missing', rank=k, name=name):
                continue
            g = o['derived'][name]
            tr = np.asarray(g['trace'], dtype=float)
            okt = tr.shape == want_trace.shape and core.close(tr, want_trace)
            perm_only = (not okt) and tr.shape == want_trace.shape and core.close(np.sort(tr), np.sort(want_trace))
            if not r.check(okt, 'derived-trace-in-sample-order',
                           'opt/derived-trace-%s/%s' % ('order' if perm_only else 'values', tietag),
                           rank=k, name=name, got=tr, want=want_trace, weights=weights, R=R):
                continue
            r.check(tr.shape == np.shape(st['trace']) and core.close(tr, st['trace']), 'derived-trace==single-process',
                    'opt/derived-trace-vs-single-%s/%s' % ('order' if perm_only else 'values', tietag),
                    rank=k, name=name, got=tr, single=st['trace'], weights=weights, R=R)
            for q in DER_KEYS:
                sc = float(np.max(np.abs(want_trace)))
                r.check(core.close(g[q], st[q], core.RTOL, 1e-12 * sc), 'derived-summary==single-process',
                        'opt/derived-summary/%s' % q, rank=k, name=name, got=g[q], single=st[q])
            r.check(core.close(g['mean'], wmean, core.RTOL), 'derived-mean==weighted-mean', 'opt/derived-mean',
                    rank=k, name=name, got=g['mean'], want=wmean)
    r.observe(res.out[0]['native_std'], res.out[0]['temp_profile_std'],
              [res.out[0]['derived'][nme]['trace'] for nme in sorted(res.out[0]['derived'])], res.verdict)
    r.nontrivial = R > 1 and sum(1 for c in counts if c > 0) >= 2 and nproc >= 2
    return r


def opt_cases(tier):
    dims = {'R': [1, 2, 3], 'n': [4, 1, 2, 3], 'wlet': ['distinct', 'equal', 'ties', 'zero', 'tiny', 'one-nonzero', 'tiedvals'],
            'perm': [0, 1], 'frac': [1.0, 0.5], 'entry': ['direct', 'fit']}
    if tier == 'quick':
        cases = core.product_cases(dims, core=['R', 'n', 'wlet', 'perm'], d=2)
        # keep the 2-deviation shell small: only where frac / entry are involved with R or n
        bound = {'R': 3, 'n': 4, 'product': 'R x n x weights x draw-order full; sigma_fraction, entry: <=2 deviations',
                 'large_n': [9, 17, 24]}
        cases += [{'R': R, 'n': n, 'wlet': wl, 'perm': 0, 'frac': 1.0, 'entry': 'direct'} for R in (2, 3)
                  for n in (9, 17, 24) for wl in ('distinct', 'equal')]
        cases += [{'R': R, 'n': n, 'wlet': 'distinct', 'perm': 0, 'frac': 1.0, 'entry': en} for R in (1, 2, 3)
                  for n in (2, 3, 4, 9) for en in ('direct-sol1', 'direct-sol2')]
        # many ranks (the arithmetic that deals samples to ranks is only non-trivial there): just below, just above and
        # well above one sample per rank
        cases += [{'R': R, 'n': n, 'wlet': 'distinct', 'perm': 0, 'frac': 1.0, 'entry': 'direct'}
                  for R in (5, 7, 11, 13, 16) for n in sorted(set([R - 1, R + 1, 15, 30, 31]))]
        bound['many_ranks'] = 'R in {5,7,11,13,16} x n in {R-1,R+1,15,30,31}'
    else:
        dims['R'] = [1, 2, 3, 4]
        dims['n'] = [4, 1, 2, 3, 5, 6]
        dims['perm'] = [0, 1, 2]
        cases = core.product_cases(dims, full=True)
        cases += [{'R': R, 'n': n, 'wlet': wl, 'perm': 0, 'frac': fr, 'entry': en} for R in (2, 3, 4, 5)
                  for n in (9, 17, 24, 40) for wl in ('distinct', 'equal') for fr in (1.0, 0.5) for en in ('direct', 'fit')]
        cases += [{'R': R, 'n': n, 'wlet': 'distinct', 'perm': 0, 'frac': 1.0, 'entry': 'direct'}
                  for R in range(5, 17) for n in range(4, 65)]
        bound = {'R': 4, 'n': 6, 'product': 'full', 'large_n': [9, 17, 24, 40], 'many_ranks': 'R 5..16 x n 4..64'}
    return cases, bound


# ==============================================================================================
def explore(ctx):
    sims = []
    for what in SIM_CASES:
        for R in ([1, 3] if ctx.tier == 'quick' else [1, 2, 3, 4]):
            for order in (['asc', 'desc'] if what in ('raise-before', 'return-early', 'other-collective') else ['asc']):
                sims.append({'what': what, 'R': R, 'order': order})
    ctx.run_cases('sim_case', sims, phase='sim', serial=True)
    wc = [{'R': R_, 'payload': pl, 'root': rt_, 'order': od}
          for R_ in ((1, 2, 3) if ctx.tier == 'quick' else (1, 2, 3, 4, 7))
          for pl in ('list0', 'list1', 'list5', 'list1023', 'list1024', 'list1025', 'list2500', 'dict', 'array', 'array2d',
                     'scalar', 'none')
          for rt_ in sorted(set([0, R_ - 1])) for od in ('asc', 'desc')]
    ctx.run_cases('wrap_case', wc, phase='mpi-module', serial=True)
    cases, bound = ov_cases(ctx.tier)
    ctx.bounds['online_variance'] = bound
    ctx.bounds['online_variance.configurations'] = len(cases)
    ctx.run_cases('ov_case', cases, phase='ov')
    cases, bound = opt_cases(ctx.tier)
    ctx.bounds['optimizer'] = bound
    ctx.bounds['optimizer.configurations'] = len(cases)
    ctx.bounds['arrival_orders'] = 2
    ctx.run_cases('opt_case', cases, phase='opt', chunk=4)
