"""C14 - opacity / CIA files of every supported format load to the same physical table; the caches
load once, serve the same object, and interpolation-mode changes take effect (DESIGN.md 4, C14).

E1  one logical table (SI: m^2 or m^5, Pa, K, cm-1) is written by mc/writers_opacity.py into every
    container and loaded through the real classes and through discover() / the singleton caches.
    Oracle: ref.opac.interp_opacity on the logical table inside the grid (nodes and cell centres);
    outside the grid the statement only demands that containers agree, so the container under test
    is compared with the TauREx2-pickle container of the same table.  Names: ref.opacfmt.
E2  ctx.bfs over histories of cache configuration operations on OpacityCache / KTableCache /
    CIACache against ref.opacfmt.CacheModel, with a file-open counter (builtins.open, h5py.File,
    pickle.load wrapped from here) deciding "loaded once from the configured path".
"""
import builtins
import itertools
import os
import pickle

import numpy as np

from mc import core, fixtures as fx, writers_opacity as W
from mc.ref import opac, opacfmt

ID = 'C14'
RULE = ('E1: full product (quick: reduced letter sets) of container x table shape x value pattern x '
        'pressure unit x name encoding x memory mode x file-name letter x interpolation mode x route '
        '(class / cache+discover); every case evaluates all nodes, all cell centres and the eight '
        'outside regions of the (T,P) lattice; CIA: master grid size x temperatures missing below / '
        'above / inside the second block x negative entries x set order x file name x directory layout '
        'x route.  E2: BFS over operation histories on the three singleton caches, states merged on '
        '(configuration, what is loaded from where in which mode).  A case is non-trivial when it '
        'compares at least one cell-centre value with the reference.')
ASSUME = ['h5py, pickle, astropy unit tables, numpy trusted',
          'Exo-Transmit pressures are in bar and cross-sections in m^2, wavelengths in m (as the reader documents by its factors)',
          'TauREx2 pickles: p in bar, xsecarr in cm^2; CIA pickles in m^5; HITRAN .cia in cm^5',
          'HDF5Opacity.discover() may open every *.h5 of the search path once to read its molecule name (probe) in addition to the load',
          'negative HITRAN entries are noise and read as zero',
          'table values positive, 1e-34 .. 1e-20 m^2 (Exo-Transmit adds 1e-60 m^2 to every entry: below atol)',
          'outside the (T,P) grid only agreement between containers is demanded',
          'after set_interpolation / set_memory_mode / clear_cache an entry may be served again or reloaded (the model follows the implementation); a path-loaded object that is served must interpolate in the mode configured at that moment; user-registered objects keep their own mode',
          'k-table interpolation mode is the global xsec_interpolation setting (OpacityCache.set_interpolation), the only documented switch',
          'wavenumber sub-grid requests are not part of C14 (C13)']

ATOL = 1e-50          # m^2 ; Exo-Transmit reader adds 1e-60 to every entry
XS_DEFAULT = {'linear': None, 'exp': 'exp'}


# ----------------------------------------------------------------------------------------------
# file-name letters: (file name, structural tag)
# ----------------------------------------------------------------------------------------------
FN_PICKLE = [('H2O.pickle', 'plain'),
             ('H2O.R15000.TauREx.pickle', 'dot-suffix'),
             ('1H2-16O.pickle', 'iso'),
             ('1H2-O_adslkjd.pickle', 'iso+underscore-lower'),
             ('12C-16O2.R10000.pickle', 'iso+dot-suffix'),
             ('48Ti-16O.R15000.TauREx.pickle', 'iso+two-letter-element'),
             ('12C4-1H10.pickle', 'iso+two-digit-count'),
             ('1H2-16O__POKAZATEL.R15000_0.3-50mu.xsec.TauREx.pickle', 'underscore-upper-suffix'),
             ('H2O_R15000.pickle', 'underscore-upper-suffix'),
             # deuterated isotopologues written with D (a symbol without an entry in the table of atomic masses)
             ('HDO.pickle', 'deuterium'), ('HDO_VTT.R100.TauREx.pickle', 'deuterium'), ('CH3D.pickle', 'deuterium'),
             ('D2O.R15000.TauREx.pickle', 'deuterium')]
FN_H5 = [('H2O_R1000.h5', 'h5'), ('1H2-16O__POKAZATEL__R15000_0.3-50mu.xsec.TauREx.hdf5', 'hdf5')]
FN_EXO = [('opacH2O.dat', 'plain'), ('opacTiO.dat', 'two-letter-element'), ('opacC2H2.dat', 'plain'),
          ('opacHDO.dat', 'deuterium')]
FN_KPICKLE = [('H2O.pickle', 'plain'),
              ('H2O.R100.ktable.TauREx.pickle', 'dot-suffix'),
              ('H2O_R100.ktable.TauREx.pickle', 'underscore-upper-suffix'), ('HDO.R100.ktable.TauREx.pickle', 'deuterium')]
FN_KH5 = [('H2O_R1000.h5', 'underscore'),
          ('1H2-16O__POKAZATEL__R1000_0.3-50mu.ktable.petitRADTRANS.h5', 'iso+underscore'),
          ('23Na-1H__Rivlin__R1000.ktable.h5', 'iso+two-letter-element'),
          ('H2O.hdf5', 'plain')]
FN_CIA = ['H2-He_2011', 'H2-He', 'H2-H2_2011']


# ----------------------------------------------------------------------------------------------
# logical tables
# ----------------------------------------------------------------------------------------------
def logical_table(nP, nT, nW, pattern, salt, ng=0):
    per_wn = None
    if pattern == 'wide':
        per_wn = np.array([1.0, 1e-3, 1e-7, 1e-10, 1.0, 1e-5, 1e-2])[:nW]
    x = fx.table(nP, nT, nW, 1e-24, salt=('c14', salt, pattern), pattern='generic', per_wn=per_wn) / 1e4
    wn = list(fx.WN_GRIDS[nW]) if nW in fx.WN_GRIDS else [float(v) for v in np.linspace(300.0, 30000.0, nW)]
    tab = {'wn': wn, 'T': list(fx.T_GRIDS[nT]), 'P': list(fx.P_GRIDS[nP]), 'x': x}
    if ng:
        mult = np.array([1.0, 2.5, 0.3])[:ng]
        w = np.array([0.2, 0.5, 0.3])[:ng]
        tab['x'] = x[..., None] * mult[None, None, None, :]
        tab['weights'] = w / w.sum()
    return tab


def lattice(Tg, Pg):
    """all nodes, all cell centres, one point below and one above, on both axes"""
    def axis(g, log):
        a = np.log10(np.asarray(g, float)) if log else np.asarray(g, float)
        inv = (lambda v: float(10 ** v)) if log else float
        pts = [('out', inv(a[0] - 0.3 * (a[-1] - a[0])) if log else float(a[0] * 0.5))]
        for i in range(len(a)):
            pts.append(('node', float(g[i])))
            if i + 1 < len(a):
                pts.append(('cell', inv(0.5 * (a[i] + a[i + 1]))))
        pts.append(('out', inv(a[-1] + 0.3 * (a[-1] - a[0])) if log else float(a[-1] * 1.5)))
        return pts
    out = []
    for (tk, T), (pk, P) in itertools.product(axis(Tg, False), axis(Pg, True)):
        if tk == 'out' or pk == 'out':
            kind = 'outside'
        elif tk == 'node' and pk == 'node':
            kind = 'node'
        else:
            kind = 'cell'
        out.append((kind, T, P))
    return out


# ----------------------------------------------------------------------------------------------
# E1: cross-sections and k-tables
# ----------------------------------------------------------------------------------------------
def _variant(case):
    c = case['container']
    if c in ('h5', 'kh5'):
        return 'unit=%s' % case.get('unit', 'bar')
    return '-'


def _fmt_of(container):
    return {'pickle': 'pickle', 'h5': 'h5', 'exo': 'exo', 'kpickle': 'pickle', 'kh5': 'h5'}[container]


def _write(case, tab, d, name):
    c = case['container']
    path = os.path.join(d, case['fname'])
    if c == 'pickle':
        W.write_pickle_xsec(path, tab, name=name, py2=bool(case.get('py2')))
    elif c == 'h5':
        W.write_hdf5_xsec(path, tab, name=name, unit=case['unit'], name_style=case['style'])
    elif c == 'exo':
        W.write_exotransmit(path, tab, order=case.get('exo_order', 'wavelength'))
    elif c == 'kpickle':
        W.write_pickle_ktable(path, tab, name=name)
    elif c == 'kh5':
        W.write_hdf5_ktable(path, tab, unit=case['unit'], name=name, kdtype=np.float32 if case.get('f32') else None)
    else:
        raise ValueError(c)
    return path


def _construct(case, path):
    c, mode = case['container'], case['mode']
    if c == 'pickle':
        from taurex.opacity.pickleopacity import PickleOpacity
        return PickleOpacity(path, mode)
    if c == 'h5':
        from taurex.opacity.hdf5opacity import HDF5Opacity
        return HDF5Opacity(path, mode, case['mem'])
    if c == 'exo':
        from taurex.opacity.exotransmit import ExoTransmitOpacity
        return ExoTransmitOpacity(path, mode)
    if c == 'kpickle':
        from taurex.opacity.ktables.picklektable import PickleKTable
        return PickleKTable(path, mode)
    if c == 'kh5':
        from taurex.opacity.ktables.hdfktable import HDF5KTable
        return HDF5KTable(path, mode, case['mem'])
    raise ValueError(c)


def _through_cache(case, d, name):
    from taurex.cache import OpacityCache
    from taurex.cache.ktablecache import KTableCache
    isk = case['container'].startswith('k')
    if isk:
        KTableCache().set_ktable_path(d)
    else:
        OpacityCache().set_opacity_path(d)
    if case['mode'] != 'linear':
        OpacityCache().set_interpolation(case['mode'])
    if case['container'] == 'h5' and case['mem'] is False:
        OpacityCache().set_memory_mode(False)
    cache = KTableCache() if isk else OpacityCache()
    return cache, cache[name]


def xsec_case(case):
    """one container of one logical table -> opacity(T,P) on the lattice"""
    r = core.R(case)
    fx.reset_caches()
    c = case['container']
    isk = c.startswith('k')
    nP, nT = case['shape']
    tab = logical_table(nP, nT, case['nW'], case['pattern'], 'x', ng=case.get('ng', 0))
    if case.get('f32'):
        # the file stores single-precision coefficients: the table IS those numbers (the HDF5 readers hand them on in double
        # precision, so what is served is compared at the usual tolerance)
        tab = dict(tab, x=(np.asarray(tab['x'], float) * 1e4).astype(np.float32).astype(float) / 1e4)
    Tg, Pg, wn = tab['T'], tab['P'], np.array(tab['wn'])
    x_cm2 = tab['x'] * 1e4
    want_name = opacfmt.molecule_name(_fmt_of(c), case['fname'])
    tag = '%s/%s' % (c, case['tag'])
    d = fx.fresh_dir('c14_e1')
    if case.get('dotdir'):
        # the search path itself contains a dot (a versioned data directory)
        d = os.path.join(d, 'xsec.v2')
        os.makedirs(d)
    path = _write(case, tab, d, want_name)

    # --- load -------------------------------------------------------------------------------
    op = None
    try:
        if case['via'] == 'class':
            op = _construct(case, path)
        else:
            cache, op = _through_cache(case, d, want_name)
    except Exception as e:
        listed = None
        if case['via'] == 'cache' and 'could not be loaded' in str(e):
            try:
                from taurex.cache import OpacityCache
                from taurex.cache.ktablecache import KTableCache
                listed = sorted((KTableCache() if isk else OpacityCache()).find_list_of_molecules())
            except Exception:
                listed = 'find_list_of_molecules raised'
            r.check(False, 'name', 'name/%s' % tag, why='not found under its sanitised name',
                    file=case['fname'], requested=want_name, discovered=listed)
        else:
            r.check(False, 'load', 'load/%s/%s/%s' % (c, _variant(case), type(e).__name__),
                    file=case['fname'], exc=repr(e))
        return r
    r.check(op.moleculeName == want_name, 'name', 'name/%s' % tag,
            got=op.moleculeName, want=want_name, file=case['fname'])
    if case['via'] == 'cache':
        r.check(cache[want_name] is op, 'same-object', 'cache/%s/second-request-other-object' % c)

    # --- axes in SI -----------------------------------------------------------------------------
    r.eq(np.asarray(op.pressureGrid, float), Pg, 'axes', 'axes/%s/%s/pressure-Pa' % (c, _variant(case)), rtol=1e-12)
    r.eq(np.asarray(op.temperatureGrid, float), Tg, 'axes', 'axes/%s/temperature' % c, rtol=1e-12)
    r.eq(np.asarray(op.wavenumberGrid, float), wn, 'axes', 'axes/%s/wavenumber' % c, rtol=1e-12)
    if isk:
        r.eq(np.asarray(op.weights, float), tab['weights'], 'axes', 'axes/%s/weights' % c, rtol=1e-12)

    # --- baseline for the outside regions: the TauREx2 pickle container of the same table -------
    base = None
    if c != 'pickle' and c != 'kpickle':
        d2 = fx.fresh_dir('c14_e1_base')
        if isk:
            from taurex.opacity.ktables.picklektable import PickleKTable
            base = PickleKTable(W.write_pickle_ktable(os.path.join(d2, 'H2O.pickle'), tab), case['mode'])
        else:
            from taurex.opacity.pickleopacity import PickleOpacity
            base = PickleOpacity(W.write_pickle_xsec(os.path.join(d2, 'H2O.pickle'), tab), case['mode'])

    wreq, sel = None, slice(None)
    if case.get('wn') == 'sub':
        wreq, sel = wn[1:3].copy(), slice(1, 3)
    want_shape = x_cm2[0, 0, sel].shape
    mode = case['mode']
    for kind, T, P in lattice(Tg, Pg):
        sig = 'value/%s/%s/%s/%s' % (c, _variant(case), mode, kind)
        try:
            got = np.asarray(op.opacity(T, P, wreq), dtype=float)
        except Exception as e:
            r.check(False, 'no-exception', 'opacity-raised/%s/%s/%s/%s' % (c, _variant(case), kind, type(e).__name__),
                    T=T, P=P, exc=repr(e))
            continue
        if not r.check(got.shape == want_shape, 'shape', 'shape/%s' % c, got=got.shape, want=want_shape):
            continue
        r.observe(got)
        if kind == 'outside':
            if base is not None:
                r.eq(got, np.asarray(base.opacity(T, P, wreq), float), 'containers-agree-outside', sig,
                     atol=ATOL, T=T, P=P)
            continue
        ref = opac.interp_opacity(x_cm2[:, :, sel], Tg, Pg, T, P, mode)
        r.eq(got, ref, 'value-' + kind, sig, rtol=1e-12 if kind == 'node' else core.RTOL, atol=ATOL, T=T, P=P)
        if kind == 'cell':
            r.nontrivial = True
    return r


# ----------------------------------------------------------------------------------------------
# E1: collision-induced absorption
# ----------------------------------------------------------------------------------------------
CIA_T = {3: [100.0, 250.0, 400.0], 4: [100.0, 200.0, 350.0, 500.0], 5: [100.0, 200.0, 300.0, 450.0, 600.0],
         6: [60.0, 100.0, 200.0, 300.0, 450.0, 600.0]}
CIA_WN = [[20.0, 120.0, 270.0], [400.0, 480.0], [700.0, 900.0, 1000.0]]
# 'touch': every spectral range starts on exactly the wavenumber the one before it ends on (both values are tabulated;
# at a temperature only one of the two ranges lists, the other's entry there is its zero fill)
CIA_WN_TOUCH = [[20.0, 120.0, 270.0], [270.0, 480.0], [480.0, 900.0, 1000.0]]


def cia_blocks(case):
    """Block 0 lists every master temperature; block 1 misses `lo` lowest, `hi` highest and
    (mid) one interior temperature; an optional block 2 lists only the two highest."""
    temps = CIA_T[case['nT']]
    rg = fx.rng('c14cia', case['nT'])
    blocks = []
    own = [temps, None, temps[-2:]]
    b1 = temps[case['lo']:len(temps) - case['hi']]
    if case['mid']:
        b1 = b1[:1] + b1[2:]
    own[1] = b1
    wns = CIA_WN_TOUCH if case.get('touch') else CIA_WN
    for bi in range(case['nblocks']):
        rows = {}
        for T in temps:
            v = 10 ** rg.uniform(-0.5, 0.5, size=len(wns[bi])) * 1e-55
            if case['neg'] and bi == 0:
                v[1] = -v[1]
            if case['neg'] and bi == 1 and len(b1) and T == b1[0]:
                # ... and one in the block with the gaps, at the temperature next to the interior gap only
                v[-1] = -v[-1]
            if T in own[bi]:
                rows[T] = v
        blocks.append({'wn': wns[bi], 'rows': rows})
    return temps, blocks, own


def cia_valid(case):
    n = case['nT'] - case['lo'] - case['hi']
    if case['nblocks'] < 2:
        return case['lo'] == 0 and case['hi'] == 0 and case['mid'] == 0
    return n >= (3 if case['mid'] else 1)


LBL = {'db': 'pickle', 'cia': 'hitran', 'served': 'served'}


def _row_class(T, own):
    if T in own:
        return 'listed'
    if T < own[0]:
        return 'below-range'
    if T > own[-1]:
        return 'above-range'
    return 'interior-missing'


def cia_case(case):
    r = core.R(case)
    fx.reset_caches()
    from taurex.cache import CIACache
    from taurex.cia import PickleCIA, HitranCIA
    temps, blocks, own = cia_blocks(case)
    wn, tg, table = opacfmt.hitran_unified(blocks)
    stem = case['fname']
    pair = opacfmt.pair_name(stem + '.cia')
    tabd = {'wn': wn, 'T': tg, 'x': table}
    if case['layout'] == 'same':
        dd = fx.fresh_dir('c14_cia')
        dirs = {'db': dd, 'cia': dd}
    else:
        dirs = {'db': fx.fresh_dir('c14_cia_db'), 'cia': fx.fresh_dir('c14_cia_hit')}
    files = {'db': W.write_pickle_cia(os.path.join(dirs['db'], stem + '.db'), tabd),
             'cia': W.write_hitran_cia(os.path.join(dirs['cia'], stem + '.cia'), pair, blocks, order=case['order'],
                                       third_column=bool(case.get('col3')))}
    objs = {}
    for fmt in ('db', 'cia'):
        try:
            if case['via'] == 'class':
                objs[fmt] = PickleCIA(files['db'], pair) if fmt == 'db' else HitranCIA(files['cia'])
            else:
                CIACache().init()
                CIACache().set_cia_path(dirs[fmt])
                objs[fmt] = CIACache()[pair]
                r.check(CIACache()[pair] is objs[fmt], 'same-object', 'cache/cia/second-request-other-object')
        except Exception as e:
            if case['layout'] == 'same' and case['via'] == 'cache':
                r.check(False, 'load', 'cia-cache/db-and-cia-in-one-path/%s' % type(e).__name__, exc=repr(e))
            else:
                r.check(False, 'load', 'load/%s/%s' % (fmt, type(e).__name__), exc=repr(e), file=files[fmt])
            continue
        r.check(objs[fmt].pairName == pair, 'name', 'name/cia-%s/pairName' % LBL[fmt], got=objs[fmt].pairName, want=pair)
    if case['layout'] == 'same' and case['via'] == 'cache':
        # whichever container is served (documented: .db first) the table is the same
        objs = dict(('served', v) for k, v in list(objs.items())[:1])

    # queries: every master temperature, every cell centre and quarter point, below and above
    Tq = []
    for i, T in enumerate(tg):
        Tq.append(('row', i, float(T)))
        if i + 1 < len(tg):
            Tq.append(('cell', i, float(0.5 * (T + tg[i + 1]))))
            Tq.append(('cell', i, float(T + 0.25 * (tg[i + 1] - T))))
    Tq += [('outside', -1, float(tg[0] * 0.5)), ('outside', -1, float(tg[-1] * 1.5))]
    wq = np.array(sorted(set(list(wn[::2]) + [0.5 * (wn[0] + wn[1]), 0.25 * wn[-2] + 0.75 * wn[-1]])))
    # which block owns which column (for the signature of a wrong gap row)
    col_block = np.concatenate([[bi] * len(b['wn']) for bi, b in enumerate(blocks)])[
        np.argsort(np.concatenate([b['wn'] for b in blocks]), kind='stable')]
    touch = bool(case.get('touch'))
    ties = [np.nonzero(wn == v_)[0] for v_ in sorted(set(wn.tolist())) if int((wn == v_).sum()) > 1]

    def canon(v):
        # two tabulated values at one wavenumber have no order: compared as a set
        v = np.array(v, dtype=float)
        for idx in ties:
            if v.shape[-1] == len(wn):
                v[..., idx] = np.sort(v[..., idx], axis=-1)
        return v

    for fmt, ob in objs.items():
        r.eq(np.asarray(ob.temperatureGrid, float), tg, 'axes', 'axes/cia-%s/temperature' % LBL[fmt], rtol=1e-12)
        r.eq(np.asarray(ob.wavenumberGrid, float), wn, 'axes', 'axes/cia-%s/wavenumber' % LBL[fmt], rtol=1e-12)
        bad_rows = set()
        for kind, i, T in sorted(Tq, key=lambda q: q[0] != 'row'):
            got = np.asarray(ob.cia(T), dtype=float)
            r.observe(got)
            if not r.check(got.shape == wn.shape, 'shape', 'shape/cia-%s' % LBL[fmt], got=got.shape):
                continue
            ref = opacfmt.cia_T(table, tg, T)
            if touch:
                got, ref = canon(got), (None if ref is None else canon(ref))
            if kind == 'outside':
                continue
            if kind == 'row':
                ok = True
                for bi in range(len(blocks)):
                    cols = col_block == bi
                    rc = _row_class(T, own[bi])
                    if rc == 'below-range':
                        rc += '/lowest' if T == tg[0] else '/not-lowest'
                    if rc == 'above-range':
                        rc += '/highest' if T == tg[-1] else '/not-highest'
                    ok &= r.eq(got[cols], ref[cols], 'cia-row', 'cia-%s/row/%s' % (LBL[fmt], rc), rtol=1e-12,
                               atol=1e-80, T=T, block=bi, block_temperatures=own[bi], master=list(tg))
                if not ok:
                    bad_rows.add(i)
            else:
                if i in bad_rows or (i + 1) in bad_rows:
                    continue        # consequence of a row already reported
                r.eq(got, ref, 'cia-cell', 'cia-%s/cell' % LBL[fmt], atol=1e-80, T=T)
                if not touch:
                    r.eq(np.asarray(ob.cia(T, wq), float), opacfmt.lin_wn(wn, ref, wq), 'cia-wngrid',
                         'cia-%s/wngrid' % LBL[fmt], atol=1e-80, T=T)
                r.nontrivial = True
    if len(objs) == 2:
        for kind, i, T in Tq:
            if kind == 'outside':
                r.eq(canon(objs['cia'].cia(T)), canon(objs['db'].cia(T)), 'containers-agree-outside', 'cia/outside-disagree',
                     atol=1e-80, T=T)
    return r


# ----------------------------------------------------------------------------------------------
# E2: histories on the singleton caches
# ----------------------------------------------------------------------------------------------
class OpenCounter(object):
    """Counts opens of files below `base` through builtins.open, h5py.File and pickle.load."""

    def __init__(self, base):
        self.base = os.path.realpath(base)
        self.events = []
        self._saved = None

    def _note(self, kind, name):
        try:
            p = os.path.realpath(os.fsdecode(name))
        except Exception:
            return
        if p.startswith(self.base + os.sep):
            self.events.append((kind, p))

    def __enter__(self):
        import h5py
        o_open, o_h5, o_load = builtins.open, h5py.File, pickle.load
        self._saved = (o_open, o_h5, o_load)
        me = self

        def c_open(file, *a, **k):
            if isinstance(file, (str, bytes, os.PathLike)):
                me._note('open', file)
            return o_open(file, *a, **k)

        def c_h5(name, *a, **k):
            if isinstance(name, (str, bytes, os.PathLike)):
                me._note('h5', name)
            return o_h5(name, *a, **k)

        def c_load(f, *a, **k):
            me._note('pickle', getattr(f, 'name', ''))
            return o_load(f, *a, **k)
        builtins.open, h5py.File, pickle.load = c_open, c_h5, c_load
        return self

    def __exit__(self, *exc):
        import h5py
        builtins.open, h5py.File, pickle.load = self._saved
        return False

    def take(self):
        ev, self.events = self.events, []
        n = {}
        for kind, p in ev:
            if kind == 'pickle':
                continue
            n[p] = n.get(p, 0) + 1
        npk = {}
        for kind, p in ev:
            if kind == 'pickle':
                npk[p] = npk.get(p, 0) + 1
        return n, npk


_E2 = {}


def e2_world(which):
    """Per-process read-only directories for the history exploration (written once).  The two molecules are CO and
    CO2: one name is contained in the other, so any matching of molecule names by containment collides."""
    key = (which, core.SEED)
    if key in _E2:
        return _E2[key]
    base = fx.fresh_dir('c14_e2_%s' % which)
    w = {'base': base, 'dirs': {}, 'files': {}, 'tables': {}, 'avail': {}}

    def mk(letter):
        d = os.path.join(base, letter)
        os.makedirs(d)
        w['dirs'][letter] = d
        w['avail'][letter] = {}
        return d
    if which == 'xsec':
        a, b = mk('A'), mk('B')
        t1 = logical_table(3, 3, 4, 'generic', 'e2-A-H2O')
        t2 = logical_table(2, 3, 4, 'generic', 'e2-A-CH4')
        t3 = logical_table(3, 2, 4, 'generic', 'e2-B-H2O')
        w['files']['A:CO'] = W.write_pickle_xsec(os.path.join(a, 'CO.R15000.TauREx.pickle'), t1, 'CO')
        w['files']['A:CO2'] = W.write_exotransmit(os.path.join(a, 'opacCO2.dat'), t2)
        w['files']['B:CO'] = W.write_hdf5_xsec(os.path.join(b, 'CO_R1000.h5'), t3, 'CO', unit='Pa')
        w['tables'] = {'A:CO': t1, 'A:CO2': t2, 'B:CO': t3,
                       'manual': logical_table(2, 2, 4, 'generic', 'e2-manual')}
        w['avail'] = {'A': {'CO': 'A:CO', 'CO2': 'A:CO2'}, 'B': {'CO': 'B:CO'}}
    elif which == 'ktable':
        a, b = mk('A'), mk('B')
        t1 = logical_table(3, 3, 4, 'generic', 'k-A-H2O', ng=2)
        t2 = logical_table(2, 3, 4, 'generic', 'k-A-CH4', ng=3)
        t3 = logical_table(3, 2, 4, 'generic', 'k-B-H2O', ng=2)
        w['files']['A:CO'] = W.write_pickle_ktable(os.path.join(a, 'CO.R100.ktable.TauREx.pickle'), t1, 'CO')
        w['files']['A:CO2'] = W.write_hdf5_ktable(os.path.join(a, 'CO2_R100.h5'), t2, unit='bar', name='CO2')
        w['files']['B:CO'] = W.write_hdf5_ktable(os.path.join(b, 'CO_R100.hdf5'), t3, unit='Pa', name='CO')
        w['tables'] = {'A:CO': t1, 'A:CO2': t2, 'B:CO': t3,
                       'manual': logical_table(2, 2, 4, 'generic', 'k-manual', ng=2)}
        w['avail'] = {'A': {'CO': 'A:CO', 'CO2': 'A:CO2'}, 'B': {'CO': 'B:CO'}}
    else:
        a, b, m = mk('A'), mk('B'), mk('M')
        rg = fx.rng('c14-e2-cia')
        tg = [100.0, 300.0, 700.0]
        wn = [50.0, 150.0, 400.0, 800.0]

        def tb():
            return {'wn': wn, 'T': tg, 'x': 10 ** rg.uniform(-0.5, 0.5, size=(3, 4)) * 1e-55}
        t1, t2, t3, t4 = tb(), tb(), tb(), tb()
        w['files']['A:H2-He'] = W.write_pickle_cia(os.path.join(a, 'H2-He_2011.db'), t1)
        w['files']['A:H2-H2'] = W.write_hitran_cia(os.path.join(a, 'H2-H2_2011.cia'), 'H2-H2', [
            {'wn': wn, 'rows': dict((T, t2['x'][i]) for i, T in enumerate(tg))}])
        w['files']['B:H2-He'] = W.write_hitran_cia(os.path.join(b, 'H2-He.cia'), 'H2-He', [
            {'wn': wn, 'rows': dict((T, t3['x'][i]) for i, T in enumerate(tg))}])
        w['files']['manual'] = W.write_pickle_cia(os.path.join(m, 'H2-He.db'), t4)
        w['tables'] = {'A:H2-He': t1, 'A:H2-H2': t2, 'B:H2-He': t3, 'manual': t4}
        w['avail'] = {'A': {'H2-He': 'A:H2-He', 'H2-H2': 'A:H2-H2'}, 'B': {'H2-He': 'B:H2-He'},
                      'M': {'H2-He': 'manual'}}
    _E2[key] = w
    return w


OPS = {
    # add-exp: the object added by hand was built with the 'exp' mode (add: with 'linear')
    'xsec': [['path', 'A'], ['path', 'B'], ['interp', 'linear'], ['interp', 'exp'], ['mem', True], ['mem', False],
             ['get', 'CO'], ['get', 'CO2'], ['add', 'CO'], ['add', 'CO2'], ['clear'], ['add-exp', 'CO']],
    'ktable': [['path', 'A'], ['path', 'B'], ['interp', 'linear'], ['interp', 'exp'],
               ['get', 'CO'], ['get', 'CO2'], ['add', 'CO'], ['clear'], ['add-exp', 'CO']],
    'cia': [['path', 'A'], ['path', 'B'], ['path', 'M'], ['path', 'A-list'], ['get', 'H2-He'], ['get', 'H2-H2'], ['add', 'H2-He'],
            ['add', 'H2-H2']],
}


def _value_probe(which, obj, tab, mode):
    """(got, want) at one cell-centre and one node of the source's own table"""
    if which == 'cia':
        T = 0.5 * (tab['T'][0] + tab['T'][1])
        got = [np.asarray(obj.cia(T), float), np.asarray(obj.cia(tab['T'][-1]), float)]
        want = [opacfmt.cia_T(tab['x'], tab['T'], T), opacfmt.cia_T(tab['x'], tab['T'], tab['T'][-1])]
        return np.concatenate(got), np.concatenate(want)
    Tg, Pg = tab['T'], tab['P']
    T = 0.5 * (Tg[0] + Tg[1])
    P = float(np.sqrt(Pg[0] * Pg[1]))
    x = np.asarray(tab['x']) * 1e4
    got = [np.asarray(obj.opacity(T, P), float).ravel(), np.asarray(obj.opacity(Tg[-1], Pg[0]), float).ravel()]
    want = [opac.interp_opacity(x, Tg, Pg, T, P, mode).ravel(), opac.interp_opacity(x, Tg, Pg, Tg[-1], Pg[0], mode).ravel()]
    return np.concatenate(got), np.concatenate(want)


def _from_taurex(e):
    import traceback
    for fs in traceback.extract_tb(e.__traceback__):
        f = fs.filename.replace('\\', '/')
        if '/taurex/' in f and '/verif/' not in f:
            return True
    return False


def _history(case, which):
    r = core.R(case)
    fx.reset_caches()
    from taurex.cache import OpacityCache, CIACache
    from taurex.cache.ktablecache import KTableCache
    w = e2_world(which)
    cache = {'xsec': OpacityCache, 'ktable': KTableCache, 'cia': CIACache}[which]()
    model = opacfmt.CacheModel(w['avail'], existing='raise' if which == 'cia' else 'skip')
    objs = {}             # molecule -> the object registered in the model
    last_cfg = 'start'
    diverged = False
    file_of = w['files']
    dir_of = dict((os.path.realpath(f), os.path.dirname(os.path.realpath(f))) for f in file_of.values())
    hist = case['hist']
    path_kind = ['str']
    manual_mode = {}      # molecule -> mode its hand-added object was built with (None: a mode was set since)

    def content():
        return sorted((cache.cia_dict if which == 'cia' else cache.opacity_dict).keys())

    def bad(sub, sig, **kw):
        r.check(False, sub, sig, hist=hist, **kw)
        return True

    with OpenCounter(w['base']) as oc:
        for step, op in enumerate(hist):
            k = op[0]
            own_mode = 'linear'
            if k == 'add-exp':
                k, own_mode = 'add', 'exp'
            before = content()
            oc.take()
            raised = None
            obj = None
            new = None
            try:
                if k == 'path':
                    d = w['dirs'][op[1].split('-')[0]]
                    path_kind[0] = 'str'
                    if op[1].endswith('-list'):
                        d = [d]            # the same directory configured as a one-element list of search paths
                        path_kind[0] = 'list'
                    if which == 'xsec':
                        cache.set_opacity_path(d)
                    elif which == 'ktable':
                        cache.set_ktable_path(d)
                    else:
                        cache.set_cia_path(d)
                elif k == 'interp':
                    OpacityCache().set_interpolation(op[1])     # the one documented switch
                elif k == 'mem':
                    cache.set_memory_mode(op[1])
                elif k == 'clear':
                    cache.clear_cache()
                elif k == 'add':
                    t = w['tables']['manual']
                    if which == 'xsec':
                        new = fx.TinyOp(op[1], t['wn'], t['T'], t['P'], t['x'] * 1e4, own_mode)
                        cache.add_opacity(new)
                    elif which == 'ktable':
                        new = fx.TinyK(op[1], t['wn'], t['T'], t['P'], t['x'] * 1e4, t['weights'], own_mode)
                        cache.add_opacity(new)
                    else:
                        from taurex.cia import PickleCIA
                        new = PickleCIA(file_of['manual'], op[1])
                        oc.take()
                        cache.add_cia(new)
                elif k == 'get':
                    obj = cache[op[1]]
            except Exception as e:
                if not _from_taurex(e):
                    raise                      # a bug of this harness, not of the code under test
                raised = e
            opens, pickles = oc.take()
            where = '%s/%s' % (which, k)

            if k in ('path', 'interp', 'mem', 'clear'):
                model.configure(['path', op[1].split('-')[0]] if k == 'path' else op)
                if k != 'path':
                    last_cfg = k
                if k == 'interp':
                    # "takes effect for every opacity served afterwards": also for one that was added by hand before
                    for m_ in manual_mode:
                        manual_mode[m_] = None
                if raised is not None:
                    diverged = bad('no-exception', 'cache/%s/raised/%s' % (where, type(raised).__name__),
                                   step=step, exc=repr(raised))
            elif k == 'add':
                mol = op[1]
                want = model.allowed_add(mol, mol in before)
                if want == 'raise':
                    r.check(raised is not None, 'refusal', 'cache/%s/duplicate-not-refused' % where, hist=hist, step=step)
                    model.commit_add(mol, 'ignored')
                elif raised is not None:
                    diverged = bad('no-exception', 'cache/%s/raised/%s' % (where, type(raised).__name__),
                                   step=step, exc=repr(raised))
                else:
                    model.commit_add(mol, want)
                    if want == 'registered':
                        objs[mol] = new
                        manual_mode[mol] = own_mode
            else:
                mol = op[1]
                allowed = model.allowed_get(mol)
                prev = objs.get(mol)
                cur = os.path.realpath(w['dirs'][model.path]) if model.path else None
                if raised is not None:
                    outcome = 'raise'
                elif prev is not None and obj is prev:
                    outcome = 'hit'
                else:
                    outcome = 'load'
                if outcome not in allowed:
                    if outcome == 'raise':
                        sig = 'cache/%s/raised/%s' % (where, type(raised).__name__)
                    elif outcome == 'load':
                        sig = 'cache/%s/other-object-although-cached' % which
                    else:
                        sig = 'cache/%s/served-although-unavailable' % which
                    diverged = bad('served-object', sig, step=step, allowed=sorted(allowed), outcome=outcome,
                                   exc=repr(raised))
                    break
                r.check(True, 'served-object')
                src_new = model.loadable(mol)
                model.commit_get(mol, outcome)
                if outcome == 'hit':
                    r.check(not opens, 'loaded-once', 'cache/%s/hit-opened-files' % which, opens=opens, hist=hist, step=step)
                    src = model.reg[mol]['src']
                elif outcome == 'load':
                    objs[mol] = obj
                    src = src_new
                    target = os.path.realpath(file_of[src])
                    for f, dd in sorted(dir_of.items()):
                        n = opens.get(f, 0)
                        probe = 1 if (which == 'xsec' and f.endswith(('.h5', '.hdf5')) and dd == cur) else 0
                        if f == target:
                            r.check(1 <= n <= 1 + probe and pickles.get(f, 0) <= 1, 'loaded-once',
                                    'cache/%s/load-count' % which, file=f, opens=n, hist=hist, step=step)
                        elif dd == cur:
                            r.check(n <= probe, 'loaded-once', 'cache/%s/opened-unrequested-file' % which, file=f,
                                    opens=n, hist=hist, step=step)
                        else:
                            r.check(n == 0, 'configured-path', 'cache/%s/opened-file-outside-configured-path' % which,
                                    file=f, opens=n, hist=hist, step=step)
                else:
                    objs.pop(mol, None)
                    for f, dd in sorted(dir_of.items()):
                        if dd != cur:
                            r.check(opens.get(f, 0) == 0, 'configured-path',
                                    'cache/%s/opened-file-outside-configured-path' % which, file=f, hist=hist)
                if outcome != 'raise':
                    name = obj.pairName if which == 'cia' else obj.moleculeName
                    r.check(name == mol, 'name', 'cache/%s/served-name' % which, got=name, want=mol)
                    mode = (manual_mode.get(mol) or model.current_mode()) if src == 'manual' else model.current_mode()
                    got, want = _value_probe(which, obj, w['tables'][src], mode)
                    r.observe(got)
                    sig = 'cache/%s/served-values' % which
                    if src != 'manual' and which != 'cia':
                        other = 'exp' if mode == 'linear' else 'linear'
                        if core.close(got, _value_probe(which, obj, w['tables'][src], other)[1], core.RTOL, ATOL):
                            sig = 'cache/%s/mode-not-in-effect-after-%s' % (which, last_cfg)
                    if not r.eq(got, want, 'served-values', sig, atol=ATOL if which != 'cia' else 1e-80,
                                hist=hist, step=step, source=src, mode=mode, outcome=outcome):
                        diverged = True
                    r.nontrivial = True
            # nothing is registered that was neither requested nor added by hand (a request for one molecule / pair does
            # not pull in the others of the directory)
            extra_ = sorted(set(content()) - set(model.reg))
            if extra_ and not diverged:
                diverged = bad('loaded-once', 'cache/%s/registered-unrequested' % which, step=step, extra=extra_)
            if diverged:
                break
    # everything that can influence a later step: the model state, what the cache's own dictionary
    # lists, and whether it still holds the very objects the model registered
    d = cache.cia_dict if which == 'cia' else cache.opacity_dict
    state = (model.key(), path_kind[0], tuple((m, d[m] is objs.get(m)) for m in content()),
             tuple(sorted((m_, str(v_)) for m_, v_ in manual_mode.items() if m_ in content())))
    r.observe(repr(state))
    r.key = None if diverged else repr(state)
    r.extra = None
    return r


def hist_xsec(case):
    return _history(case, 'xsec')


def hist_ktable(case):
    return _history(case, 'ktable')


def hist_cia(case):
    return _history(case, 'cia')


# ----------------------------------------------------------------------------------------------
# directory-change histories: the configured path gains a file between two requests (a private directory per
# history).  What the path can provide NOW decides a request, not what it held when it was first looked at.
# ----------------------------------------------------------------------------------------------
DROP_FORMATS = {'xsec': ['pickle', 'h5', 'exo'], 'ktable': ['kpickle', 'kh5'], 'cia': ['db', 'cia']}
DROP_OPS = [['get', 'X'], ['get', 'Y'], ['drop', 'Y'], ['interp', 'exp'], ['clear']]
DROP_NAMES = {'xsec': ('CO2', 'CO'), 'ktable': ('CO2', 'CO'), 'cia': ('H2-He', 'H2-H2')}


def _drop_write(which, fmt, d, mol, salt):
    if which == 'cia':
        rg = fx.rng('c14-drop-cia', salt)
        tg, wn = [100.0, 300.0, 700.0], [50.0, 150.0, 400.0, 800.0]
        t = {'wn': wn, 'T': tg, 'x': 10 ** rg.uniform(-0.5, 0.5, size=(3, 4)) * 1e-55}
        if fmt == 'db':
            W.write_pickle_cia(os.path.join(d, '%s_2011.db' % mol), t)
        else:
            W.write_hitran_cia(os.path.join(d, '%s_2011.cia' % mol), mol,
                               [{'wn': wn, 'rows': dict((T, t['x'][i]) for i, T in enumerate(tg))}])
        return t
    t = logical_table(3, 3, 4, 'generic', ('c14-drop', salt), ng=2 if which == 'ktable' else 0)
    if fmt == 'pickle':
        W.write_pickle_xsec(os.path.join(d, '%s.R15000.TauREx.pickle' % mol), t, mol)
    elif fmt == 'h5':
        W.write_hdf5_xsec(os.path.join(d, '%s_R1000.h5' % mol), t, mol, unit='Pa')
    elif fmt == 'exo':
        W.write_exotransmit(os.path.join(d, 'opac%s.dat' % mol), t)
    elif fmt == 'kpickle':
        W.write_pickle_ktable(os.path.join(d, '%s.R100.ktable.TauREx.pickle' % mol), t, mol)
    else:
        W.write_hdf5_ktable(os.path.join(d, '%s_R100.h5' % mol), t, unit='Pa', name=mol)
    return t


def drop_fn(case):
    from taurex.cache import OpacityCache, CIACache
    from taurex.cache.ktablecache import KTableCache
    r = core.R(case)
    fx.reset_caches()
    which, fx_, fy = case['which'], case['fx'], case['fy']
    X, Y = DROP_NAMES[which]
    d = fx.fresh_dir('c14_drop')
    cache = {'xsec': OpacityCache, 'ktable': KTableCache, 'cia': CIACache}[which]()
    tabs = {X: _drop_write(which, fx_, d, X, 'X')}
    {'xsec': getattr(cache, 'set_opacity_path', None), 'ktable': getattr(cache, 'set_ktable_path', None),
     'cia': getattr(cache, 'set_cia_path', None)}[which](d)
    mode = 'linear'
    names = []
    for op in case['hist']:
        names.append(op[0] + (op[1] if op[0] in ('get', 'drop') else ''))
        sig = '%s/%s+%s' % (which, fx_, fy)
        if op[0] == 'drop':
            if Y not in tabs:
                tabs[Y] = _drop_write(which, fy, d, Y, 'Y')
            continue
        if op[0] == 'interp':
            OpacityCache().set_interpolation(op[1])
            mode = op[1]
            continue
        if op[0] == 'clear':
            if which != 'cia':
                cache.clear_cache()
            continue
        mol = X if op[1] == 'X' else Y
        try:
            obj = cache[mol]
            exc = None
        except Exception as e:
            if not _from_taurex(e):
                raise
            obj, exc = None, e
        if mol not in tabs:
            r.check(exc is not None, 'served-object', 'dirchange/%s/served-although-unavailable' % sig, hist=case['hist'])
            continue
        if not r.check(exc is None, 'served-object', 'dirchange/%s/not-found-although-in-path' % sig, exc=repr(exc),
                       hist=case['hist'], steps='>'.join(names)):
            break
        name = obj.pairName if which == 'cia' else obj.moleculeName
        r.check(name == mol, 'name', 'dirchange/%s/served-name' % sig, got=name, want=mol)
        got, want = _value_probe(which, obj, tabs[mol], mode)
        r.eq(got, want, 'served-values', 'dirchange/%s/served-values' % sig, atol=ATOL if which != 'cia' else 1e-80,
             hist=case['hist'], mode=mode)
        r.observe(got)
        r.nontrivial = True
    return r


def explore(ctx):
    thorough = ctx.tier == 'thorough'
    shapes = [(3, 3), (2, 2), (2, 3), (3, 2)] + ([(4, 4), (2, 4), (4, 3)] if thorough else [])
    nWs = [4, 3] + ([7] if thorough else [])
    pats = ['generic', 'wide']
    units = ['bar', 'Pa', 'atm', 'mbar'] + (['hPa', 'kPa', 'Ba', 'torr'] if thorough else [])
    styles = ['str', 'bytes', 'array', 'vlen-array']
    wnq = ['none']      # restricted wavenumber requests are C13's subject (an Exo-Transmit grid is 1 ulp off its cm-1 values)
    cases = []
    P = itertools.product
    # TauREx2 pickle
    for sh, nW, pat, (fn, tag), mode, via, wq in P(shapes, nWs, pats, FN_PICKLE, ['linear', 'exp'], ['cache', 'class'], wnq):
        cases.append({'container': 'pickle', 'shape': list(sh), 'nW': nW, 'pattern': pat, 'fname': fn, 'tag': tag,
                      'mode': mode, 'via': via, 'wn': wq})
    # ... written by Python 2 (TauREx 2 files), small and of realistic size (several read buffers long)
    for nW, mode, via, (fn, tag) in P([4, 6000] + ([20000] if thorough else []), ['linear', 'exp'], ['cache', 'class'], FN_PICKLE[:2]):
        cases.append({'container': 'pickle', 'shape': [3, 3], 'nW': nW, 'pattern': 'generic', 'fname': fn, 'tag': tag,
                      'mode': mode, 'via': via, 'wn': 'none', 'py2': 1})
    # ... an HDF5 table of more than 8 MiB (three pressures x three temperatures x 140000 points)
    for mem, via in P([True, False], ['cache', 'class']):
        cases.append({'container': 'h5', 'shape': [3, 3], 'nW': 140000, 'pattern': 'generic', 'fname': FN_H5[0][0],
                      'tag': FN_H5[0][1], 'unit': 'bar', 'style': 'str', 'mem': mem, 'mode': 'linear', 'via': via, 'wn': 'none'})
    # HDF5
    h5shapes = shapes if thorough else shapes[:2]
    for sh, unit, st, mem, (fn, tag), mode, via, wq in P(h5shapes, units, styles, [True, False], FN_H5,
                                                          ['linear', 'exp'], ['cache', 'class'], wnq):
        cases.append({'container': 'h5', 'shape': list(sh), 'nW': 4, 'pattern': 'generic', 'fname': fn, 'tag': tag,
                      'unit': unit, 'style': st, 'mem': mem, 'mode': mode, 'via': via, 'wn': wq})
    # Exo-Transmit
    for sh, nW, pat, (fn, tag), mode, via, wq in P(shapes, nWs, pats, FN_EXO, ['linear', 'exp'], ['cache', 'class'], wnq):
        cases.append({'container': 'exo', 'shape': list(sh), 'nW': nW, 'pattern': pat, 'fname': fn, 'tag': tag,
                      'mode': mode, 'via': via, 'wn': wq})
        if pat == 'generic' and mode == 'linear':
            # the wavelength blocks of the file listed in increasing wavenumber instead of increasing wavelength
            cases.append({'container': 'exo', 'shape': list(sh), 'nW': nW, 'pattern': pat, 'fname': fn, 'tag': tag,
                          'mode': mode, 'via': via, 'wn': wq, 'exo_order': 'wavenumber'})
    # every container once more from a directory whose name holds a dot
    for c_ in list(cases):
        if c_['shape'] == [3, 3] and c_['nW'] == 4 and c_['pattern'] == 'generic' and c_['mode'] == 'linear' and \
                c_.get('exo_order') is None and c_.get('unit', 'bar') == 'bar' and c_.get('style', 'str') == 'str' and \
                c_.get('mem', True) is True:
            cases.append(dict(c_, dotdir=True))
    # k-tables
    ngs = [2, 1, 3]
    for sh, ng, (fn, tag), mode, via in P(shapes, ngs, FN_KPICKLE, ['linear', 'exp'], ['cache', 'class']):
        cases.append({'container': 'kpickle', 'shape': list(sh), 'nW': 4, 'ng': ng, 'pattern': 'generic', 'fname': fn,
                      'tag': tag, 'mode': mode, 'via': via, 'wn': 'none'})
    for sh, ng, unit, mem, (fn, tag), mode, via in P(h5shapes, ngs, units, [True, False], FN_KH5, ['linear', 'exp'],
                                                    ['cache', 'class']):
        cases.append({'container': 'kh5', 'shape': list(sh), 'nW': 4, 'ng': ng, 'pattern': 'generic', 'fname': fn,
                      'tag': tag, 'unit': unit, 'mem': mem, 'mode': mode, 'via': via, 'wn': 'none'})
        if fn == FN_KH5[0][0] and unit == units[0] and mem:
            # (in-memory loading converts to double precision; a table streamed from the file is interpolated in the file's
            # own precision, and nothing more is demanded of it)
            for pat_ in ('generic', 'wide'):
                cases.append({'container': 'kh5', 'shape': list(sh), 'nW': 4, 'ng': ng, 'pattern': pat_, 'fname': fn,
                              'tag': tag, 'unit': unit, 'mem': mem, 'mode': mode, 'via': via, 'wn': 'none', 'f32': 1})
    for c_ in list(cases):
        if c_['container'].startswith('k') and c_['shape'] == [3, 3] and c_['mode'] == 'linear' and c_.get('ng') == 2 and \
                c_.get('unit', 'bar') == 'bar' and c_.get('mem', True) is True and not c_.get('dotdir'):
            cases.append(dict(c_, dotdir=True))
    ctx.bounds.update(xsec_cases=len(cases), shapes=len(shapes), units=units,
                      lattice='all nodes + all cell centres + below/above on both axes')
    import time
    t0 = time.time()
    ctx.run_cases('xsec_case', cases, phase='formats')
    ctx.notes.append('formats: %d cases %.1fs' % (len(cases), time.time() - t0))

    ccases = []
    nTs = [5, 4, 3] + ([6] if thorough else [])
    for nT, lo, hi, mid, neg, order, fn, layout, via, nb in P(nTs, [0, 1, 2, 3], [0, 1, 2], [0, 1], [0, 1],
                                                             ['block', 'temperature', 'reverse', 'block-reverse'], FN_CIA,
                                                             ['separate', 'same'], ['class', 'cache'], [2, 1, 3]):
        c = {'nT': nT, 'lo': lo, 'hi': hi, 'mid': mid, 'neg': neg, 'order': order, 'fname': fn, 'layout': layout,
             'via': via, 'nblocks': nb}
        if not cia_valid(c):
            continue
        if layout == 'same' and via == 'class':
            continue
        if not thorough and ((fn != FN_CIA[0]) + (order != 'block') + (neg != 0) + (nb != 2) + (layout != 'separate') > 1) \
                and not (neg == 1 and fn == FN_CIA[0] and order == 'block' and nb == 2 and layout == 'separate'):
            continue
        ccases.append(c)
        if nb > 1 and neg == 0 and fn == FN_CIA[0] and layout == 'separate':
            ccases.append(dict(c, touch=1))
        if neg == 0 and fn == FN_CIA[0] and layout == 'separate' and order == 'block':
            ccases.append(dict(c, col3=1))       # data lines carrying the optional third (uncertainty) column
    ctx.bounds.update(cia_cases=len(ccases))
    t0 = time.time()
    ctx.run_cases('cia_case', ccases, phase='cia')
    ctx.notes.append('cia: %d cases %.1fs' % (len(ccases), time.time() - t0))

    dc = []
    for which, fmts in DROP_FORMATS.items():
        for fx_, fy in P(fmts, fmts):
            for dd in range(1, (5 if thorough else 4) + 1):
                for h in P(DROP_OPS, repeat=dd):
                    if which == 'cia' and any(o[0] in ('interp', 'clear') for o in h):
                        continue
                    if sum(1 for o in h if o[0] == 'drop') != 1 or h[-1][0] != 'get':
                        continue
                    dc.append({'which': which, 'fx': fx_, 'fy': fy, 'hist': [list(o) for o in h]})
    ctx.bounds.update(directory_change_histories=len(dc), directory_change_depth=5 if thorough else 4)
    ctx.run_cases('drop_fn', dc, phase='dirchange')

    depth = 8 if thorough else 5
    for which, fn in (('xsec', 'hist_xsec'), ('ktable', 'hist_ktable'), ('cia', 'hist_cia')):
        ops = OPS[which]
        t0 = time.time()
        seen = ctx.bfs(fn, [[]], lambda h, extra, ops=ops: ops, depth, phase='cache-' + which)
        ctx.notes.append('cache-%s: depth %d, %d states %.1fs' % (which, depth, len(seen), time.time() - t0))
