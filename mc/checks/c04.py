"""C04 - opacity interpolation in T and P is sound everywhere (DESIGN.md section 4, C04).

Engine E1.  A case = (table shape, value pattern, interpolation mode, layout, wavenumber request);
inside a case the full 8x8 (T,P) query lattice (below / min / 1/4 / 1/2 / interior node / last cell
/ max / above on both axes) is evaluated against ref.opac.
"""
import itertools
import numpy as np

from mc import core, fixtures as fx
from mc.ref import opac

ID = 'C04'
RULE = ('full product of table shape x value pattern x mode x layout (xsec, k-table with 1-3 g) x '
        'wavenumber request; every case evaluates the complete (T,P) query lattice (8x8: the interior, '
        'four edges, four corners incl. the two mixed ones, exact nodes).  A case is non-trivial when '
        'at least one query lies strictly inside a cell and the table is not flat.')
ASSUME = ['numba kernels, numpy trusted', 'table values positive (1e-40..1), neighbouring nodes within 1e3 of each other',
          'outside the grid only the bracket/non-negativity/finite invariants are demanded (the statement does not fix the formula there)']

PATTERNS = ['generic', 'incT', 'decT', 'saddle', 'flat', 'wide', 'tiny', 'cliff']
LAYOUTS = ['xsec', 'k1', 'k2', 'k3', 'k2v']      # k2v: two g-points, table exposed as a non-contiguous transposed view
WNREQ = ['none', 'full', 'sub', 'single', 'desc', 'bands']


def axis_points(grid, log=False, fine=False):
    g = np.log10(np.asarray(grid, float)) if log else np.asarray(grid, float)
    pts = []
    if fine:
        # thorough: every node, five points inside every cell, two points outside each end
        inv = (lambda v: float(10 ** v)) if log else float
        span = g[-1] - g[0]
        pts.append(('below', inv(g[0] - 0.3 * span) if log else float(g[0] * 0.5)))
        pts.append(('below', inv(g[0] - 1e-9 * span) if log else float(g[0] * (1 - 1e-12))))
        for i in range(len(g)):
            pts.append(('min' if i == 0 else 'max' if i == len(g) - 1 else 'node', float(grid[i])))
            if i < len(g) - 1:
                for f in (1e-9, 0.25, 0.5, 0.75, 1 - 1e-9):
                    pts.append(('cell', inv(g[i] + f * (g[i + 1] - g[i]))))
        pts.append(('above', inv(g[-1] + 1e-9 * span) if log else float(g[-1] * (1 + 1e-12))))
        pts.append(('above', inv(g[-1] + 0.3 * span) if log else float(g[-1] * 1.5)))
        return pts
    span = g[-1] - g[0]
    inv = (lambda v: float(10 ** v)) if log else float
    pts.append(('below', inv(g[0] - 0.3 * span) if log else float(g[0] * 0.5)))
    pts.append(('min', float(grid[0])))
    pts.append(('q1', inv(g[0] + 0.25 * (g[1] - g[0]))))
    pts.append(('third', inv(g[0] + (g[1] - g[0]) / 3.0)))       # not a whole number on whole-number axes
    pts.append(('half', inv(g[0] + 0.5 * (g[1] - g[0]))))
    if len(g) > 2:
        pts.append(('node', float(grid[1])))
        # a quarter of a unit (of a decade for pressures) above an interior node: its whole-number part IS the node
        pts.append(('node+', inv(g[1] + 0.25) if not log else inv(g[1] + 0.25 * min(1.0, g[2] - g[1]))))
    pts.append(('last', inv(g[-2] + 0.7 * (g[-1] - g[-2]))))
    pts.append(('max', float(grid[-1])))
    pts.append(('above', inv(g[-1] + 0.3 * span) if log else float(g[-1] * 1.5)))
    return pts


def make_table(case):
    nP, nT = case['shape']
    nW = 4
    pat = case['pattern']
    per_wn = None
    mag = 1e-24
    p = pat
    if pat == 'wide':
        p = 'generic'
        per_wn = [1.0, 1e-7, 1e-14, 1e-20]
        mag = 1e-4          # cm^2 values 1 .. 1e-20
    elif pat == 'tiny':
        p = 'generic'
        per_wn = [1.0, 1e-7, 1e-14, 1e-20]
        mag = 1e-24         # down to 1e-40 cm^2
    if pat == 'cliff':
        p = 'generic'
    x = fx.table(nP, nT, nW, mag, salt=('c04', pat, case.get('variant', 0)), pattern=p, per_wn=per_wn)
    if pat == 'cliff':
        # neighbouring pressure rows thirty decades apart (a line wing next to a window): the outermost rows are the
        # small ones, so anything of the inner rows leaking into an edge answer swamps it
        f = np.full(nP, 1e30)
        f[0] = f[-1] = 1.0
        x = x * f[:, None, None] * 1e-16
    lay = case['layout']
    if lay != 'xsec':
        ng = int(lay[1])
        mult = np.array([1.0, 2.5, 0.3])[:ng]
        x = x[..., None] * mult[None, None, None, :]
    return x


def build(case, x):
    nP, nT = case['shape']
    Tg, Pg, wn = fx.T_GRIDS[nT], fx.P_GRIDS[nP], fx.WN_GRIDS[4]
    keep = bool(case.get('intT'))
    Tg_ = np.array(Tg, dtype=np.int64) if keep else Tg      # intT: the temperature axis is an integer array
    if case['layout'] == 'xsec':
        op = fx.TinyOp('H2O', wn, Tg_, np.array(Pg, dtype=float), x, case['mode'], keep_dtype=keep)
    else:
        ng = int(case['layout'][1])
        w = np.array([0.2, 0.5, 0.3])[:ng]
        op = fx.TinyK('H2O', wn, Tg_, np.array(Pg, dtype=float), x, w / w.sum(), case['mode'], keep_dtype=keep,
                      stored='pTgw' if case['layout'].endswith('v') else 'pTwg')
    return op, Tg, Pg, np.array(wn)


# a second table alive in the same process whose axes have the same length and the same first and last node as the
# table under test, but other interior nodes (anything memoised per process on a summary of an axis collides)
ALT_T = {3: [200.0, 1500.0, 2500.0], 4: [200.0, 800.0, 1700.0, 2500.0]}
ALT_P = {3: [1e-2, 1e3, 1e6], 4: [1e-2, 1e2, 1e4, 1e6]}


def build_twin(case, x):
    nP, nT = case['shape']
    Tg, Pg, wn = ALT_T.get(nT, fx.T_GRIDS[nT]), ALT_P.get(nP, fx.P_GRIDS[nP]), fx.WN_GRIDS[4]
    if case['layout'] == 'xsec':
        op = fx.TinyOp('CH4', wn, Tg, Pg, x * 0.5, case['mode'])
    else:
        ng = int(case['layout'][1])
        w = np.array([0.2, 0.5, 0.3])[:ng]
        op = fx.TinyK('CH4', wn, Tg, Pg, x * 0.5, w / w.sum(), case['mode'])
    return op, Tg, Pg


def twin_sweep(r, case, twin, x, Tg, Pg, tag, when):
    for (tn, T), (pn, P) in itertools.product(axis_points(Tg), axis_points(Pg, log=True)):
        if tn in ('below', 'above') or pn in ('below', 'above'):
            continue
        got = np.asarray(twin.opacity(T, P, None), dtype=float)
        r.eq(got, opac.interp_opacity(x * 0.5, Tg, Pg, T, P, case['mode']), 'second-table-in-process',
             'twin/%s/%s' % (when, tag), T=T, P=P)


def case_fn(case):
    r = core.R(case)
    fx.reset_caches()
    x = make_table(case)
    op, Tg, Pg, wn = build(case, x)
    twin = None
    if max(case['shape']) > 2:
        twin, tTg, tPg = build_twin(case, x)
        twin_sweep(r, case, twin, x, tTg, tPg, '%s/%s' % (case['mode'], 'ktable' if case['layout'] != 'xsec' else 'xsec'),
                   'first')
    req = case['wn']
    if req == 'none':
        wreq, sel = None, slice(None)
    elif req == 'full':
        wreq, sel = wn.copy(), slice(None)
    elif req == 'sub':
        wreq, sel = wn[1:3].copy(), slice(1, 3)
    elif req == 'desc':          # a sub-range listed in wavelength order (descending wavenumber)
        wreq, sel = wn[[2, 1]].copy(), [2, 1]
    elif req == 'bands':         # native points of three bands listed as middle, low, high
        wreq, sel = wn[[2, 0, 3]].copy(), [2, 0, 3]
    else:
        wreq, sel = wn[2:3].copy(), slice(2, 3)
    isk = case['layout'] != 'xsec'
    mode = case['mode']
    tag = '%s/%s' % (mode, 'ktable' if isk else 'xsec')
    if req in ('sub', 'desc'):
        # the caller keeps ONE request array and refills it in place for the next band: the answer follows the numbers
        # now in the array (here: the other pair of native points), not what the same object held at the last call
        buf = wn[0:2].copy() if req == 'sub' else wn[[1, 0]].copy()
        Tm, Pm = 0.5 * (Tg[0] + Tg[1]), float(np.sqrt(Pg[0] * Pg[1]))
        try:
            first_ = np.array(op.opacity(Tm, Pm, buf), dtype=float)
            buf[...] = wn[2:4] if req == 'sub' else wn[[3, 2]]
            second_ = np.array(op.opacity(Tm, Pm, buf), dtype=float)
            sel2 = slice(2, 4) if req == 'sub' else [3, 2]
            r.eq(second_, opac.interp_opacity(x[:, :, sel2], Tg, Pg, Tm, Pm, mode), 'request-buffer-reused',
                 'request-buffer-refilled/%s' % tag, rtol=1e-9, first=first_)
        except Exception as e:
            r.check(False, 'no-exception', 'exception/%s/request-buffer/%s' % (type(e).__name__, tag), exc=repr(e))
    fine = bool(case.get('fine'))
    lattice = list(itertools.product(axis_points(Tg, fine=fine), axis_points(Pg, log=True, fine=fine)))
    # the same object answers the whole lattice forwards and then backwards: an answer must not depend on the
    # queries that came before it
    for (tn, T), (pn, P) in lattice + lattice[::-1]:
        where = 'T=%s,P=%s' % (tn, pn)
        try:
            got = op.opacity(T, P, wreq)
        except Exception as e:
            r.check(False, 'no-exception', 'exception/%s/%s/%s' % (type(e).__name__, where, tag),
                    T=T, P=P, exc=repr(e))
            continue
        got = np.asarray(got, dtype=float)
        if float(T).is_integer():
            # the same point with the temperature (and the pressure when it is a whole number too) given as Python
            # ints (a layer temperature of 1000, a pressure of 100000)
            try:
                gi = np.asarray(op.opacity(int(T), int(P) if float(P).is_integer() else P, wreq), dtype=float)
                r.eq(gi, got, 'integer-arguments', 'int-args/%s' % tag, rtol=0, atol=0, T=T, P=P)
            except Exception as e:
                r.check(False, 'no-exception', 'exception/%s/int-args/%s' % (type(e).__name__, tag), T=T, P=P, exc=repr(e))
        xs = x[:, :, sel]
        want_shape = xs.shape[2:]
        if not r.check(got.shape == want_shape, 'shape', 'shape/%s' % tag, got=got.shape,
                       want=want_shape):
            continue
        r.observe(got)
        lo, hi = opac.bracket_nodes(xs, Tg, Pg, T, P)
        ref = opac.interp_opacity(xs, Tg, Pg, T, P, mode)
        tin = tn not in ('below', 'above')
        pin = pn not in ('below', 'above')
        r.check(bool(np.all(np.isfinite(got))), 'finite', 'finite/%s/%s' % (where, tag), T=T, P=P, got=got)
        r.check(bool(np.all(got >= 0)), 'non-negative', 'negative/%s/%s' % (where, tag), T=T, P=P, got=got)
        if tn == 'below' and pn == 'below':
            r.check(bool(np.all(got == 0)), 'zero-corner', 'zero-corner/%s' % tag, got=got)
            continue
        slack = 4 * np.finfo(float).eps * hi
        r.check(bool(np.all(got >= lo - slack) and np.all(got <= hi + slack)), 'bracket',
                'bracket/%s/%s' % (where, tag), T=T, P=P, got=got, lo=lo, hi=hi)
        if tn in ('min', 'node', 'max') and pn in ('min', 'node', 'max'):
            r.eq(got, ref, 'node-value', 'node/%s/%s' % (where, tag), rtol=1e-12, T=T, P=P)
        elif tin and pin:
            r.eq(got, ref, 'cell-value', 'cell/%s/%s' % (where, tag), T=T, P=P)
            if case['pattern'] != 'flat':
                r.nontrivial = True
    if twin is not None:
        twin_sweep(r, case, twin, x, tTg, tPg, tag, 'after')
    # --- one live object: equally long but different wavenumber windows asked one after the other in one cell,
    #     then the interpolation mode switched on the object itself
    Tm = 0.5 * (Tg[0] + Tg[1]) * 1.07
    Pm = float(10 ** (0.37 * np.log10(Pg[0]) + 0.63 * np.log10(Pg[1])))
    for a, b in ((0, 2), (1, 3), (2, 4), (0, 2), (1, 2), (3, 4), (2, 3)):
        w = wn[a:b].copy()
        try:
            got = np.asarray(op.opacity(Tm, Pm, w), float)
        except Exception as e:
            r.check(False, 'no-exception', 'exception/%s/window/%s' % (type(e).__name__, tag), exc=repr(e))
            continue
        r.eq(got, opac.interp_opacity(x[:, :, a:b], Tg, Pg, Tm, Pm, mode), 'window-sequence', 'window-sequence/%s' % tag,
             window=[a, b])
    other = 'exp' if mode == 'linear' else 'linear'
    op.set_interpolation_mode(other)
    got = np.asarray(op.opacity(Tm, Pm, None), float)
    r.eq(got, opac.interp_opacity(x, Tg, Pg, Tm, Pm, other), 'mode-switch-on-live-object', 'mode-switch/%s->%s/%s' % (
        mode, other, 'ktable' if isk else 'xsec'))
    # the whole lattice again on the switched object: inside the grid (edges included) against the reference of the new
    # mode, everywhere (outside included) against an object constructed in the new mode
    fresh, _, _, _ = build(dict(case, mode=other), x)
    for (tn, T), (pn, P) in lattice:
        where = 'T=%s,P=%s' % (tn, pn)
        try:
            got = np.asarray(op.opacity(T, P, wreq), dtype=float)
            want = np.asarray(fresh.opacity(T, P, wreq), dtype=float)
        except Exception as e:
            r.check(False, 'no-exception', 'exception/%s/switched/%s/%s' % (type(e).__name__, where, tag), exc=repr(e))
            continue
        r.eq(got, want, 'mode-switch-on-live-object', 'mode-switch-vs-fresh/%s/%s->%s/%s' % (
            where, mode, other, 'ktable' if isk else 'xsec'), rtol=1e-12, T=T, P=P)
        if tn not in ('below', 'above') and pn not in ('below', 'above'):
            r.eq(got, opac.interp_opacity(x[:, :, sel], Tg, Pg, T, P, other), 'mode-switch-on-live-object',
                 'mode-switch-cell/%s/%s->%s/%s' % (where, mode, other, 'ktable' if isk else 'xsec'), T=T, P=P)
    return r


def single_node_fn(case):
    """Tables with a single temperature and / or pressure node: along such an axis every query is bracketed by that one
    node, so the answer is the interpolation along the other axis at that node (the edge value outside it)."""
    r = core.R(case)
    fx.reset_caches()
    nP, nT = case['shape']
    Tg = [900.0] if nT == 1 else fx.T_GRIDS[nT]
    Pg = [3e1] if nP == 1 else fx.P_GRIDS[nP]
    wn = fx.WN_GRIDS[4]
    x = fx.table(nP, nT, 4, 1e-24, salt=('c04-single', nP, nT))
    isk = case['layout'] != 'xsec'
    if isk:
        ng = int(case['layout'][1])
        x = x[..., None] * np.array([1.0, 2.5, 0.3])[:ng][None, None, None, :]
        w = np.array([0.2, 0.5, 0.3])[:ng]
        op = fx.TinyK('H2O', wn, Tg, Pg, x, w / w.sum(), case['mode'])
    else:
        op = fx.TinyOp('H2O', wn, Tg, Pg, x, case['mode'])
    # the equivalent two-node table: the single node repeated
    x2, Tg2, Pg2 = x, list(Tg), list(Pg)
    if nT == 1:
        x2, Tg2 = np.concatenate([x2, x2], axis=1), [Tg[0], Tg[0] * 2.0]
    if nP == 1:
        x2, Pg2 = np.concatenate([x2, x2], axis=0), [Pg[0], Pg[0] * 100.0]
    tpts = [('below', Tg[0] * 0.5), ('min', Tg[0]), ('above', Tg[0] * 1.7)] if nT == 1 else axis_points(Tg)
    ppts = [('below', Pg[0] * 1e-2), ('min', Pg[0]), ('above', Pg[0] * 1e3)] if nP == 1 else axis_points(Pg, log=True)
    tag = '%s/%s/nP=%s,nT=%s' % (case['mode'], 'ktable' if isk else 'xsec', '1' if nP == 1 else 'n', '1' if nT == 1 else 'n')
    for (tn, T), (pn, P) in itertools.product(tpts, ppts):
        where = 'T=%s,P=%s' % (tn, pn)
        try:
            got = np.asarray(op.opacity(T, P, None), dtype=float)
        except Exception as e:
            r.check(False, 'no-exception', 'single-node/exception/%s/%s/%s' % (type(e).__name__, where, tag), T=T, P=P,
                    exc=repr(e))
            continue
        r.observe(got)
        if tn == 'below' and pn == 'below':
            r.check(bool(np.all(got == 0)), 'zero-corner', 'single-node/zero-corner/' + tag, got=got)
            continue
        Te = Tg[0] if nT == 1 else T
        Pe = Pg[0] if nP == 1 else P
        lo, hi = opac.bracket_nodes(x2, Tg2, Pg2, Te, Pe)
        slack = 4 * np.finfo(float).eps * hi
        r.check(bool(np.all(np.isfinite(got)) and np.all(got >= lo - slack) and np.all(got <= hi + slack)), 'bracket',
                'single-node/bracket/%s/%s' % (where, tag), T=T, P=P, got=got, lo=lo, hi=hi)
        tin = nT == 1 or tn not in ('below', 'above')
        pin = nP == 1 or pn not in ('below', 'above')
        if tin and pin:
            r.eq(got, opac.interp_opacity(x2, Tg2, Pg2, Te, Pe, case['mode'], zero_corner=False), 'cell-value',
                 'single-node/value/%s/%s' % (where, tag), T=T, P=P)
    r.nontrivial = True
    return r


def nodeaxis_fn(case):
    """Requests at exactly a tabulated pressure, for every two-significant-digit pressure m x 10^e (given in Pa, or in bar
    and converted as the file readers do): the node sits at the bottom, in the middle and at the top of the pressure
    axis, and the temperature is below, on, inside and above the temperature axis.  A node is inside the grid: the
    answer is the tabulated value there (the nearest temperature edge outside it), never the zero of the corner below
    both minima, whatever the last digit of the logarithm of the pressure rounds to."""
    r = core.R(case)
    fx.reset_caches()
    e, unit, mode, lay = case['e'], case['unit'], case['mode'], case['layout']
    Tg = fx.T_GRIDS[3]
    wn = fx.WN_GRIDS[4]
    x = fx.table(3, 3, 4, 1e-24, salt=('c04-nodeaxis',))
    isk = lay != 'xsec'
    if isk:
        x = x[..., None] * np.array([1.0, 2.5])[None, None, None, :]
    n = 0
    for m_ in range(1, 100):
        p0 = float('%de%d' % (m_, e))
        if unit == 'bar':
            p0 = p0 * 1e5
        for pos, Pg in (('bottom', [p0, p0 * 1e2, p0 * 1e5]), ('middle', [p0 * 1e-2, p0, p0 * 1e3]),
                        ('top', [p0 * 1e-5, p0 * 1e-2, p0])):
            Pg = np.array(Pg, dtype=float)
            if isk:
                op = fx.TinyK('H2O', wn, Tg, Pg, x, [0.4, 0.6], mode)
            else:
                op = fx.TinyOp('H2O', wn, Tg, Pg, x, mode)
            for tn, T in (('below', 100.0), ('min', Tg[0]), ('cell', 600.0), ('max', Tg[-1]), ('above', 3000.0)):
                got = np.asarray(op.opacity(T, p0, None), dtype=float)
                want = opac.interp_opacity(x, Tg, Pg, min(max(T, Tg[0]), Tg[-1]), p0, mode, zero_corner=False)
                n += 1
                r.eq(got, want, 'node-on-pressure-axis', 'nodeaxis/%s/T=%s/%s/%s' % (pos, tn, mode, 'ktable' if isk else 'xsec'),
                     rtol=1e-9, T=T, P=p0, pressure_grid=Pg)
    r.count('requests', n)
    r.observe(n)
    r.nontrivial = True
    return r


def nearlyeven_fn(case):
    """Axes that are evenly spaced only to about six digits (half-decade pressures written as 3.16228, temperatures as
    read from a text file) with strongly contrasting neighbouring nodes: a request a hair beside a node is still
    bracketed by the nodes of the cell it lies in."""
    r = core.R(case)
    fx.reset_caches()
    mode, lay = case['mode'], case['layout']
    Pg = np.array([1.0, 3.16228, 10.0, 31.6228, 100.0, 316.228, 1000.0])
    Tg = np.array([300.0, 600.001, 900.0, 1200.002, 1500.0])
    wn = fx.WN_GRIDS[4]
    g = fx.rng('c04-nearlyeven')
    x = 10 ** g.uniform(-0.3, 0.3, size=(len(Pg), len(Tg), 4)) * 1e-24
    contrast = np.where((np.arange(len(Pg))[:, None] + np.arange(len(Tg))[None, :]) % 2 == 0, 1e-6, 1e4)
    x = x * contrast[:, :, None]
    isk = lay != 'xsec'
    if isk:
        x = x[..., None] * np.array([1.0, 2.5])[None, None, None, :]
        op = fx.TinyK('H2O', wn, Tg, Pg, x, [0.4, 0.6], mode)
    else:
        op = fx.TinyOp('H2O', wn, Tg, Pg, x, mode)
    n = 0
    for axis in ('P', 'T'):
        nodes = Pg if axis == 'P' else Tg
        for k in range(1, len(nodes) - 1):
            for eps in (-3e-6, -1e-6, -2e-7, 2e-7, 1e-6, 3e-6):
                if axis == 'P':
                    P, T = float(nodes[k] * (1.0 + eps)), 750.0
                else:
                    P, T = 17.0, float(nodes[k] * (1.0 + eps))
                got = np.asarray(op.opacity(T, P, None), dtype=float)
                lo, hi = opac.bracket_nodes(x, Tg, Pg, T, P)
                n += 1
                slack = 1e-9 * hi
                r.check(bool(np.all(np.isfinite(got)) and np.all(got >= lo - slack) and np.all(got <= hi + slack)), 'bracket',
                        'nearly-even/bracket/%s/%s/%s' % (axis, mode, 'ktable' if isk else 'xsec'), T=T, P=P, got=got,
                        lo=lo, hi=hi)
                r.eq(got, opac.interp_opacity(x, Tg, Pg, T, P, mode), 'cell-value',
                     'nearly-even/value/%s/%s/%s' % (axis, mode, 'ktable' if isk else 'xsec'), rtol=1e-6, T=T, P=P)
    r.count('requests', n)
    r.observe(n)
    r.nontrivial = True
    return r


def bigtable_fn(case):
    """A table with more spectral points than any power-of-two block an interpolation kernel might work in: every
    wavenumber of the interior, edge and outside answers against the reference."""
    r = core.R(case)
    fx.reset_caches()
    nW = case['nW']
    Tg, Pg = fx.T_GRIDS[2], fx.P_GRIDS[2]
    g = fx.rng('c04big', nW)
    x = (10 ** g.uniform(-1.0, 1.0, size=(2, 2, nW))) * 1e-24 * 1e4
    isk = case['layout'] != 'xsec'
    wn = np.linspace(500.0, 5000.0, nW)
    if isk:
        x = x[..., None] * np.array([1.0, 2.5])[None, None, None, :]
        op = fx.TinyK('H2O', wn, Tg, Pg, x, [0.4, 0.6], case['mode'])
    else:
        op = fx.TinyOp('H2O', wn, Tg, Pg, x, case['mode'])
    tag = '%s/%s' % (case['mode'], 'ktable' if isk else 'xsec')
    for (tn, T), (pn, P) in itertools.product(axis_points(Tg), axis_points(Pg, log=True)):
        got = np.asarray(op.opacity(T, P, None), dtype=float)
        if tn == 'below' and pn == 'below':
            r.check(bool(np.all(got == 0)), 'zero-corner', 'big/zero-corner/' + tag)
            continue
        lo, hi = opac.bracket_nodes(x, Tg, Pg, T, P)
        slack = 4 * np.finfo(float).eps * hi
        okb = (got >= lo - slack) & (got <= hi + slack) & np.isfinite(got)
        r.check(bool(np.all(okb)), 'bracket', 'big/bracket/%s' % tag, T=T, P=P,
                first_bad=np.argwhere(~okb)[:4].tolist(), count=int((~okb).sum()))
        if tn not in ('below', 'above') and pn not in ('below', 'above'):
            want = opac.interp_opacity(x, Tg, Pg, T, P, case['mode'])
            okv = np.isclose(got, want, rtol=1e-9, atol=0)
            r.check(bool(np.all(okv)), 'cell-value', 'big/value/%s' % tag, T=T, P=P,
                    first_bad=np.argwhere(~okv)[:4].tolist(), count=int((~okv).sum()))
    r.observe(got[::4999])
    r.nontrivial = True
    return r


def explore(ctx):
    bt = [{'nW': nW, 'mode': md, 'layout': lay} for nW, md, lay in
          ((65537, 'exp', 'xsec'), (70001, 'linear', 'xsec'), (40001, 'exp', 'k2'), (131073, 'exp', 'xsec'),
           (140003, 'linear', 'k2'))]
    ctx.run_cases('bigtable_fn', bt, phase='large-table')
    sn = [{'shape': list(sh), 'mode': mode, 'layout': lay} for sh in ((1, 3), (3, 1), (1, 2), (2, 1), (1, 1))
          for mode in ('linear', 'exp') for lay in LAYOUTS]
    ctx.run_cases('single_node_fn', sn, phase='single-node')
    es = range(-8, 9) if ctx.tier == 'thorough' else range(-6, 7)
    na = [{'e': e_, 'unit': u_, 'mode': md, 'layout': lay} for e_ in es for u_ in ('Pa', 'bar')
          for md, lay in (('linear', 'xsec'), ('exp', 'xsec'), ('exp', 'k2'))]
    ctx.run_cases('nodeaxis_fn', na, phase='pressure-nodes')
    ne = [{'mode': md, 'layout': lay} for md in ('linear', 'exp') for lay in ('xsec', 'k2')]
    ctx.run_cases('nearlyeven_fn', ne, phase='nearly-even-axes')
    shapes = [(2, 2), (2, 3), (3, 2), (3, 3)]
    if ctx.tier == 'thorough':
        shapes += [(4, 4), (2, 4), (4, 3), (4, 2), (3, 4)]
        pats, wnreq = PATTERNS, WNREQ
    else:
        pats, wnreq = ['generic', 'saddle', 'wide', 'tiny', 'flat', 'cliff'], ['none', 'sub', 'full', 'desc', 'bands']
    cases = []
    for shape, pat, mode, lay, wq in itertools.product(shapes, pats, ['linear', 'exp'], LAYOUTS, wnreq):
        cases.append({'shape': list(shape), 'pattern': pat, 'mode': mode, 'layout': lay, 'wn': wq})
        if pat == 'generic' and wq == 'none':
            cases.append({'shape': list(shape), 'pattern': pat, 'mode': mode, 'layout': lay, 'wn': wq, 'intT': True})
        if ctx.tier == 'thorough' and wq == 'none' and pat != 'cliff':
            # (not for 'cliff': a point 1e-9 of the way into a cell whose far node is thirty decades larger is decided by the
            # last digits of its own cell fraction - ill-conditioned for any implementation, the reference included)
            for variant in range(1, 4 if pat in ('generic', 'wide', 'tiny') else 1):
                cases.append({'shape': list(shape), 'pattern': pat, 'mode': mode, 'layout': lay, 'wn': wq,
                              'variant': variant, 'fine': True})
            cases.append({'shape': list(shape), 'pattern': pat, 'mode': mode, 'layout': lay, 'wn': wq, 'fine': True})
    ctx.bounds.update(shapes=len(shapes), lattice='8x8 (7x7 for 2-node axes)')
    ctx.run_cases('case_fn', cases)
