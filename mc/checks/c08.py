"""C08 - prior transforms are monotone inverse-CDF maps in the declared space (DESIGN.md 4, C08).

Engine E1.  Five case families, each evaluated on the complete u-lattice against mc.ref.priors
(inverse normal CDF by bisection on math.erfc - independent of scipy.stats):

  direct   cls(**kwargs) constructed in Python: every ordered pair of bounds (both orders),
           every (mean, std), containers list / tuple / ndarray
  lin      lin_bounds / lin_mean / lin_std  ==  the same prior built from their log10
  text     create_prior("<name>(<kw>=<value>, ...)") == direct construction == reference, for
           name forms (as written, lower, UPPER) x documented keyword combinations and orders x
           tuple / list brackets x whitespace layouts x number formats
  unknown  a name that is no prior must not yield a prior
  default  priors that Optimizer.compile_params / optimizer.compile_params derive from a fitting
           parameter's mode and bounds, and the value update_model hands to the model
"""
import itertools
import math

import numpy as np

from mc import core, fixtures as fx
from mc.ref import priors as ref

ID = 'C08'
RULE = ('full product of prior class x every ordered pair of bound letters (both orders) / every (mean, std) '
        'letter x container; lin_* forms against their log10 form; text grammar: name form x keyword '
        'combination and order x bracket x whitespace layout x number format x value letters; default priors: '
        'parameter x mode operation x bounds operation.  Every case evaluates the complete 12-point u lattice '
        '(0, 1e-12 ... 1-1e-6, 1).  A case is non-trivial when it differs from the constructor defaults '
        '(bounds [0,1] as written, mean 0.5, std 0.25).')
ASSUME = ['math.erfc / math.log10 of the C library trusted (reference inverse normal CDF = bisection on erfc)',
          'documented text syntax = keyword arguments as in doc/source/user/taurex/fitting.rst (plus lin_std by the '
          'same lin_* rule); a text with positional arguments must either equal the direct construction or be rejected',
          'values only on the declared lattices (|bounds| <= 1e3, std >= 1e-3); std > 0',
          'Gaussian boundaries() are only required to be an ordered finite pair (the statement does not define them)',
          'values handed to prior() are Python floats or ints; numpy integer scalars are outside the alphabet (10**np.int64(-4) '
          'raises in numpy itself, on the unchanged tree too)']

U = [0.0, 1e-12, 1e-6, 0.1, 0.16, 0.25, 0.5, 0.75, 0.84, 0.9, 1 - 1e-6, 1.0]
XS = [-12.0, -3.0, -1.0, 0.0, 0.5, 2.0]

BOUND_VALUES = [-12.0, -3.0, -1.0, 0.0, 0.5, 2.0, 1e3]
LIN_BOUND_VALUES = [1e-300, 1e-12, 1e-3, 0.5, 2.0, 1e3, 1e300]     # incl. the far ends of the double range
MEANS = [-4.0, 0.0, 1.0, 1e3]
STDS = [1e-3, 0.3, 2.0]
LIN_MEANS = [1e-290, 1e-4, 1.0, 50.0]
LIN_STDS = [100.0, 2.0]

CLASSES = ['Uniform', 'LogUniform', 'Gaussian', 'LogGaussian']


def pairs(vals):
    return [[a, b] for a, b in itertools.permutations(vals, 2)]


def klass(name):
    import taurex.core.priors as tp
    return getattr(tp, name)


def order_of(kw):
    for k in ('bounds', 'lin_bounds'):
        if k in kw:
            return 'ordered' if kw[k][0] < kw[k][1] else 'reversed'
    return 'n/a'


def kwkey(kw):
    return '+'.join(kw) if kw else 'defaults'


# ------------------------------------------------------------------------------------------------
# oracles shared by all families
# ------------------------------------------------------------------------------------------------
def check_prior(r, p, rp, tag):
    """p: real prior; rp: reference prior.  Inverse CDF on the lattice, support, monotonicity,
    back-transform, boundaries."""
    xs = []
    for u in U:
        raw = p.sample(u)          # what a sampler wrapper gets back and hands to prior()
        x = raw
        want, tol = rp.sample(u)
        uc = 'u=0' if u == 0.0 else ('u=1' if u == 1.0 else 'interior')
        try:
            x = float(x)
        except Exception:
            r.check(False, 'sample', 'sample/not-a-number/%s' % tag, u=u, got=repr(x))
            continue
        xs.append(x)
        if math.isinf(want):
            ok = (x == want)
        else:
            ok = (not math.isnan(x)) and abs(x - want) <= tol
        r.check(ok, 'inverse-cdf', 'inverse-cdf/%s/%s' % (tag, uc), u=u, got=x, want=want, tol=tol)
        lo, hi = rp.support()
        r.check((not math.isnan(x)) and lo - tol <= x <= hi + tol, 'support', 'support/%s/%s' % (tag, uc),
                u=u, got=x, lo=lo, hi=hi)
        # value handed to the model
        if math.isfinite(x):
            got_m = p.prior(raw)
            r.eq(got_m, rp.to_model(x), 'to-model', 'to-model/%s' % tag, x=x)
    r.observe(np.array(xs, dtype=float))
    r.check(all(a <= b for a, b in zip(xs[:-1], xs[1:])) and len(xs) == len(U), 'monotone', 'monotone/%s' % tag,
            xs=xs)
    for x in XS:
        r.eq(p.prior(x), rp.to_model(x), 'to-model', 'to-model/%s' % tag, x=x)
    # whole-number values handed over as Python ints (a fit value of -4 written without a decimal point)
    for xi in (-12, -4, 0, 3, 20):
        for conv, cname in ((int, 'int'),):
            try:
                got_i = p.prior(conv(xi))
            except Exception as e:
                r.check(False, 'to-model', 'to-model-raised/%s/%s' % (cname, tag), x=xi, exc=repr(e))
                continue
            r.eq(float(got_i), rp.to_model(float(xi)), 'to-model', 'to-model-%s/%s' % (cname, tag), x=xi)
    b = p.boundaries()
    okb = len(b) == 2
    if okb:
        b0, b1 = float(b[0]), float(b[1])
        if rp.kind == 'uniform':
            t = 8 * ref.EPS * max(abs(rp.lo), abs(rp.hi))
            okb = abs(b0 - rp.lo) <= t and abs(b1 - rp.hi) <= t
        else:
            okb = math.isfinite(b0) and math.isfinite(b1) and b0 < b1
    r.check(okb, 'boundaries', 'boundaries/%s' % tag, got=repr(b))


def snapshot(p):
    from taurex.core.priors import PriorMode
    b = p.boundaries()
    return {'cls': type(p).__name__, 'params': p.params(), 'log': p.priorMode is PriorMode.LOG,
            'bounds': [float(b[0]), float(b[1])], 'samples': [float(p.sample(u)) for u in U]}


def same(r, a, b, sub, tag):
    """Two real priors must be the same object in every observable respect."""
    sa, sb = snapshot(a), snapshot(b)
    r.check(sa['cls'] == sb['cls'] and sa['log'] == sb['log'], sub, '%s/class/%s' % (sub, tag), a=sa['cls'], b=sb['cls'])
    r.check(sa['params'] == sb['params'], sub, '%s/params/%s' % (sub, tag), a=sa['params'], b=sb['params'])
    r.eq(sa['bounds'], sb['bounds'], sub, '%s/boundaries/%s' % (sub, tag), rtol=1e-13)
    r.eq(sa['samples'], sb['samples'], sub, '%s/samples/%s' % (sub, tag), rtol=1e-13)


def container(v, how):
    if not isinstance(v, (list, tuple)):
        return v
    if how == 'tuple':
        return tuple(v)
    if how == 'ndarray':
        return np.array(v, dtype=float)
    if how in ('ints', 'intarray'):
        # whole numbers handed over as Python ints / an integer array (bounds = (-12, 2) as written in many input files)
        if all(float(x).is_integer() for x in v):
            return [int(x) for x in v] if how == 'ints' else np.array([int(x) for x in v], dtype=np.int64)
        return list(v)
    return list(v)


# ------------------------------------------------------------------------------------------------
# family 1: direct construction
# ------------------------------------------------------------------------------------------------
def direct_case(case):
    r = core.R(case)
    fx.reset_caches()
    cls, kw = case['cls'], dict(case['kw'])
    args = dict((k, container(v, case.get('container', 'list'))) for k, v in kw.items())
    p = klass(cls)(**args)
    tag = '%s/%s/%s' % (cls, kwkey(kw), order_of(kw))
    check_prior(r, p, ref.from_spec(cls, kw), tag)
    r.nontrivial = bool(kw)
    return r



# ------------------------------------------------------------------------------------------------
# family 1b: a live prior whose bounds are changed after it has already been sampled
# ------------------------------------------------------------------------------------------------
def rebound_case(case):
    """sample -> set_bounds(new) -> sample on ONE prior object, for every ordered pair of bound letters: after the
    change the prior must be indistinguishable from one constructed with the new bounds."""
    r = core.R(case)
    fx.reset_caches()
    cls = case['cls']
    p = klass(cls)(bounds=list(case['first']))
    for u in U:
        p.sample(u)
    p.boundaries()
    p.params()
    p.set_bounds(list(case['second']))
    tag = 'rebound/%s/%s' % (cls, order_of({'bounds': case['second']}))
    check_prior(r, p, ref.from_spec(cls, {'bounds': case['second']}), tag)
    same(r, p, klass(cls)(bounds=list(case['second'])), 'rebound-equals-fresh', tag)
    r.nontrivial = True
    return r


# ------------------------------------------------------------------------------------------------
# family 2: lin_* arguments == their log10
# ------------------------------------------------------------------------------------------------
def lin_case(case):
    r = core.R(case)
    fx.reset_caches()
    cls, kw = case['cls'], dict(case['kw'])
    logkw = {}
    for k, v in kw.items():
        if k == 'lin_bounds':
            logkw['bounds'] = [math.log10(x) for x in v]
        elif k.startswith('lin_'):
            logkw[k[4:]] = math.log10(v)
        else:
            logkw[k] = v
    p_lin = klass(cls)(**kw)
    p_log = klass(cls)(**logkw)
    tag = '%s/%s/%s' % (cls, kwkey(kw), order_of(kw))
    check_prior(r, p_lin, ref.from_spec(cls, kw), tag)
    same(r, p_lin, p_log, 'lin-equiv', tag)
    r.nontrivial = True
    return r


# ------------------------------------------------------------------------------------------------
# family 3: text grammar
# ------------------------------------------------------------------------------------------------
def fmt_num(v, how):
    v = float(v)
    if how == 'int' and v == int(v) and abs(v) < 1e15:
        return str(int(v)), int(v)
    if how == 'exp':
        s = '%.6e' % v
        if float(s) == v:
            return s, v
    if how == 'plus':            # an explicit sign on every number (+6.0, -2.0), as Python literals allow
        return ('%+r' % v if False else ('+' + repr(v) if v >= 0 else repr(v))), v
    return repr(v), v


def render(case):
    """Returns (text, kwargs as Python would receive them from the same source text)."""
    name = {'exact': case['cls'], 'lower': case['cls'].lower(), 'upper': case['cls'].upper()}[case['name']]
    ws = case['ws']
    comma = {'compact': ',', 'doc': ', ', 'spaced': ' , ', 'trail': ','}[ws]
    eq = ' = ' if ws == 'spaced' else '='
    pad = ' ' if ws == 'spaced' else ''
    op, cl = ('(', ')') if case['bracket'] == 'tuple' else ('[', ']')
    parts = []
    kwargs = {}
    for k, v in case['kw']:
        if isinstance(v, (list, tuple)):
            items = [fmt_num(x, case['num']) for x in v]
            txt = op + pad + comma.join(s for s, _ in items) + pad + cl
            val = [x for _, x in items]
            val = tuple(val) if case['bracket'] == 'tuple' else val
        else:
            txt, val = fmt_num(v, case['num'])
        parts.append(k + eq + txt)
        kwargs[k] = val
    text = name + '(' + pad + comma.join(parts) + pad + ')'
    if ws == 'trail':
        text += '  '
    return text, kwargs


def text_case(case):
    from taurex.parameter.factory import create_prior
    r = core.R(case)
    fx.reset_caches()
    cls = case['cls']
    text, kwargs = render(case)
    plain = dict((k, list(v) if isinstance(v, (list, tuple)) else v) for k, v in kwargs.items())
    tag = '%s/%s/%s/%s' % (cls, case['name'], kwkey(plain), order_of(plain))
    try:
        p = create_prior(text)
    except Exception as e:
        r.check(False, 'text-accepted', 'text/rejected/%s/%s' % (type(e).__name__, tag), text=text, exc=repr(e))
        return r
    r.check(type(p) is klass(cls), 'text-class', 'text/class/%s' % tag, text=text, got=type(p).__name__)
    direct = klass(cls)(**kwargs)
    same(r, p, direct, 'text-equiv', tag)
    check_prior(r, p, ref.from_spec(cls, plain), 'text/' + tag)
    r.nontrivial = True
    return r


# sequences of prior texts: what an earlier text of an input file said must not colour a later one (every ordered pair
# and triple of a small alphabet per class; the object built LAST is compared with direct construction)
SEQ_TEXTS = {
    'Uniform': [[], [['bounds', [0.5, 2.0]]], [['bounds', [-12.0, -3.0]]]],
    'LogUniform': [[], [['bounds', [-6.0, -1.0]]], [['lin_bounds', [1e-12, 1e-3]]], [['bounds', [-3.0, 0.5]]]],
    'Gaussian': [[], [['mean', 1.0], ['std', 0.3]], [['mean', 5.0]], [['std', 2.0]]],
    'LogGaussian': [[], [['mean', -4.0], ['std', 0.5]], [['lin_mean', 1e-4]], [['std', 0.25]], [['lin_std', 3.0]]],
}


def textseq_case(case):
    from taurex.parameter.factory import create_prior
    r = core.R(case)
    fx.reset_caches()
    cls = case['cls']
    p = None
    for kw in case['seq']:
        c_ = {'cls': cls, 'kw': kw, 'name': 'exact', 'bracket': 'tuple', 'ws': 'doc', 'num': 'repr'}
        text, kwargs = render(c_)
        try:
            p = create_prior(text)
        except Exception as e:
            r.check(False, 'text-accepted', 'textseq/rejected/%s/%s' % (type(e).__name__, cls), text=text, exc=repr(e),
                    seq=case['seq'])
            return r
    direct = klass(cls)(**kwargs)
    plain = dict((k, list(v) if isinstance(v, (list, tuple)) else v) for k, v in kwargs.items())
    earlier = sorted(set(k_ for kw in case['seq'][:-1] for k_, _ in kw) - set(plain))
    tag = '%s/last=%s/earlier-only=%s' % (cls, kwkey(plain), '+'.join(earlier) or 'none')
    r.check(type(p) is klass(cls), 'text-class', 'textseq/class/%s' % tag, text=text, got=type(p).__name__)
    sa, sb = snapshot(p), snapshot(direct)
    r.check(sa == sb, 'text-equiv', 'textseq/differs-from-direct/%s' % tag, seq=case['seq'], got=sa['params'],
            want=sb['params'])
    r.observe(sa['samples'])
    r.nontrivial = len(case['seq']) > 1
    return r



def positional_case(case):
    """Outside the documented keyword syntax, but the documentation says the syntax is that of a
    Python call: a text with positional arguments may be rejected, it must not silently build a
    different prior than the same call does in Python."""
    from taurex.parameter.factory import create_prior
    r = core.R(case)
    fx.reset_caches()
    cls = case['cls']
    vals = case['args']
    text = '%s(%s)' % (cls, ', '.join(repr(tuple(v)) if isinstance(v, list) else repr(v) for v in vals))
    args = [tuple(v) if isinstance(v, list) else v for v in vals]
    direct = klass(cls)(*args)
    try:
        p = create_prior(text)
    except Exception as e:
        r.check(True, 'positional', text=text, exc=repr(e))
        r.observe('rejected')
        return r
    sa, sb = snapshot(p), snapshot(direct)
    r.check(sa == sb, 'positional', 'text/positional-arguments-dropped', text=text, got=sa['params'],
            want=sb['params'])
    r.observe(sa['samples'])
    r.nontrivial = True
    return r


# ------------------------------------------------------------------------------------------------
# family 4: unknown names
# ------------------------------------------------------------------------------------------------
def unknown_case(case):
    from taurex.parameter.factory import create_prior
    from taurex.core.priors import Prior
    r = core.R(case)
    fx.reset_caches()
    try:
        p = create_prior(case['text'])
    except Exception as e:
        r.check(True, 'unknown-name', exc=type(e).__name__)
        r.observe(type(e).__name__)
        return r
    r.check(not isinstance(p, Prior), 'unknown-name', 'unknown-name/accepted/%s' % case['form'],
            text=case['text'], got=type(p).__name__)
    r.observe(type(p).__name__)
    return r


# ------------------------------------------------------------------------------------------------
# family 5: default priors from mode and bounds
# ------------------------------------------------------------------------------------------------
class _Holder(object):
    """Plain stand-in for a forward model / observation: the two dictionaries the optimizer reads."""

    def __init__(self, objs):
        self.fittingParameters = {}
        self.derivedParameters = {}
        for o in objs:
            self.fittingParameters.update(o.fitting_parameters())

    def create_binner(self):
        return None


PARAMS = {'T': ('linear', [300.0, 2000.0]), 'kappa_irr': ('log', [1e-10, 1.0]), 'alpha': ('linear', [0.0, 1.0])}


def default_case(case):
    from taurex.optimizer.optimizer import Optimizer, compile_params
    from taurex.data.profiles.temperature import Isothermal, Guillot2010
    r = core.R(case)
    fx.reset_caches()
    iso, gui = Isothermal(T=1000.0), Guillot2010()
    model = _Holder([iso, gui])
    obs = _Holder([])
    if case.get('on_obs'):
        # the target parameter is owned by the observation (the optimiser compiles the model's and the observation's
        # parameters in two passes over one prior table)
        own = [iso] if case['param'] == 'T' else [gui]
        model = _Holder([o for o in (iso, gui) if o not in own])
        obs = _Holder(own)
    expect = {}
    allparams = dict(model.fittingParameters)
    allparams.update(obs.fittingParameters)
    # documented defaults of the real parameters must be what PARAMS says (harness sanity)
    for name in ('T', 'kappa_irr', 'alpha'):
        t = allparams[name]
        if t[4] != PARAMS[name][0] or list(t[6]) != PARAMS[name][1]:
            r.fail('harness', 'harness/param-defaults-changed', name=name, got=[t[4], list(t[6])])
            return r
    opt = Optimizer('c08', observed=None, model=model)
    opt._observed = obs
    target, other = case['param'], case['other']
    for name in list(allparams):
        opt.disable_fit(name)
    for name in (target, other):
        opt.enable_fit(name)
        expect[name] = [PARAMS[name][0], list(PARAMS[name][1])]
    pre = bool(case.get('precompile'))
    if pre:
        # a user prior on the other parameter and a first compilation with the documented defaults; the
        # default prior of the target must nevertheless follow the settings current at the LAST compilation
        from taurex.core.priors import Uniform
        ob = PARAMS[other][1]
        opt.set_prior(other, Uniform(bounds=[ob[0] + 0.25 * (ob[1] - ob[0]), ob[0] + 0.5 * (ob[1] - ob[0])]))
        opt.compile_params()
    if case['mode'] is not None:
        opt.set_mode(target, case['mode'])
        expect[target][0] = case['mode'].lower()
    if case['bounds'] is not None:
        opt.set_boundary(target, list(case['bounds']))
        expect[target][1] = list(case['bounds'])
    opt.compile_params()
    names = [p[0] for p in opt.fitting_parameters]
    r.check(sorted(names) == sorted([target, other]) and len(opt.fitting_priors) == 2, 'default-compiled',
            'default/compiled-set', names=names)
    tagm = '%s/%s%s%s' % (expect[target][0], 'ordered' if expect[target][1][0] < expect[target][1][1] else 'reversed',
                          '/recompiled-next-to-user-prior' if pre else '', '/observation-owned' if case.get('on_obs') else '')
    cube = []
    for name, prior in zip(names, opt.fitting_priors):
        cube.append(0.25)
        if pre and name == other:
            r.check(type(prior).__name__ == 'Uniform', 'user-prior-kept', 'default/user-prior-lost')
            continue
        mode, bounds = expect[name]
        want_cls, rp = ref.default_prior(mode, bounds)
        what = tagm if name == target else 'untouched-' + mode
        r.check(type(prior).__name__ == want_cls, 'default-class', 'default/class/%s' % what,
                name=name, got=type(prior).__name__, want=want_cls)
        check_prior(r, prior, rp, 'default/' + what)
    # the value that reaches the model: uniform quantile 0.25 in the declared space, 10** in log mode
    vals = [float(p.sample(c)) for p, c in zip(opt.fitting_priors, cube)]
    opt.update_model(vals)
    for name, param in zip(names, opt.fitting_parameters):
        if pre and name == other:
            continue
        mode, bounds = expect[name]
        _, rp = ref.default_prior(mode, bounds)
        x, _ = rp.sample(0.25)
        r.eq(param[2](), rp.to_model(x), 'default-to-model', 'default/to-model/%s' % (tagm if name == target else 'untouched'),
             name=name, mode=mode, bounds=bounds)
    # the module-level function on a hand-made parameter tuple
    store = {}
    tup = ('p', '$p$', lambda: store.get('v'), lambda v: store.__setitem__('v', v), expect[target][0], True,
           list(expect[target][1]))
    fp, pri, allp, der = compile_params({'p': tup, 'q': ('q', 'q', None, None, 'log', False, [1.0, 2.0])}, {})
    ok = len(fp) == 1 and len(pri) == 1 and list(allp) == ['p'] and allp['p'] is pri[0]
    r.check(ok, 'default-function', 'default/function/selection', n=len(fp))
    if ok:
        want_cls, rp = ref.default_prior(*expect[target])
        r.check(type(pri[0]).__name__ == want_cls, 'default-class', 'default/class/function/%s' % tagm,
                got=type(pri[0]).__name__)
        check_prior(r, pri[0], rp, 'default-function/' + tagm)
    # ... and called again in the same process for a parameter of the same name, with the other mode and other bounds
    # and once more without the optional third argument: the default prior follows the tuple handed in now (nothing is
    # remembered between calls)
    for again_mode, again_bounds, third in (('log' if expect[target][0] == 'linear' else 'linear', [2.0, 50.0], True),
                                            (expect[target][0], [3.0, 7.0], False),
                                            ('log' if expect[target][0] == 'linear' else 'linear', [4.0, 9.0], False)):
        tup2 = ('p', '$p$', lambda: store.get('v'), lambda v: store.__setitem__('v', v), again_mode, True, list(again_bounds))
        try:
            fp2, pri2, allp2, _ = compile_params({'p': tup2}, {}, {}) if third else compile_params({'p': tup2}, {})
        except Exception as e:
            r.check(False, 'default-function', 'default/function/second-call-raised/%s' % type(e).__name__, exc=repr(e))
            break
        if r.check(len(pri2) == 1, 'default-function', 'default/function/second-call-selection', n=len(pri2)):
            want_cls2, rp2 = ref.default_prior(again_mode, again_bounds)
            r.check(type(pri2[0]).__name__ == want_cls2, 'default-class', 'default/class/function-second-call/%s' % again_mode,
                    got=type(pri2[0]).__name__, want=want_cls2)
            check_prior(r, pri2[0], rp2, 'default-function-second-call/' + again_mode)
    r.nontrivial = case['mode'] is not None or case['bounds'] is not None
    return r


def userprior_case(case):
    """A prior set for a parameter is the one the optimiser compiles, whatever the parameter's own mode and bounds are -
    also when they could not give a default prior at all (log mode over bounds that include zero or negative values:
    the reason a user supplies a prior there)."""
    from taurex.optimizer.optimizer import Optimizer
    from taurex.data.profiles.temperature import Isothermal, Guillot2010
    from taurex.core.priors import PriorMode
    from taurex.parameter.factory import create_prior
    r = core.R(case)
    fx.reset_caches()
    iso, gui = Isothermal(T=1000.0), Guillot2010()
    model, obs = _Holder([iso, gui]), _Holder([])
    if case.get('on_obs'):
        model, obs = _Holder([iso]), _Holder([gui])
    opt = Optimizer('c08u', observed=None, model=model)
    opt._observed = obs
    for name in list(model.fittingParameters) + list(obs.fittingParameters):
        opt.disable_fit(name)
    target = 'alpha'
    opt.enable_fit(target)
    opt.enable_fit('T')
    if case['mode'] is not None:
        opt.set_mode(target, case['mode'])
    if case['bounds'] is not None:
        opt.set_boundary(target, list(case['bounds']))
    kind, args = case['prior']
    if case['via'] == 'text':
        user = create_prior('%s(%s)' % (kind, ', '.join('%s=%r' % kv for kv in args)))
    else:
        user = klass(kind)(**dict((k_, list(v_) if isinstance(v_, (list, tuple)) else v_) for k_, v_ in args))
    twin = klass(kind)(**dict((k_, list(v_) if isinstance(v_, (list, tuple)) else v_) for k_, v_ in args))
    opt.set_prior(target, user)
    tag = '%s/mode=%s/bounds=%s' % (kind, str(case['mode']).lower(), 'none' if case['bounds'] is None else
                                     'with-zero' if min(case['bounds']) == 0 else 'negative' if min(case['bounds']) < 0
                                     else 'positive')
    for round_ in ('first-compile', 'recompile'):
        try:
            opt.compile_params()
        except Exception as e:
            r.check(False, 'user-prior-kept', 'userprior/compile-raised/%s/%s' % (type(e).__name__, tag), exc=repr(e),
                    round=round_)
            return r
        names = [p_[0] for p_ in opt.fitting_parameters]
        if not r.check(sorted(names) == ['T', target] and len(opt.fitting_priors) == 2, 'default-compiled',
                       'userprior/compiled-set', names=names):
            return r
        pr = opt.fitting_priors[names.index(target)]
        r.check(pr is user, 'user-prior-kept', 'userprior/not-the-prior-set/%s' % tag, got=type(pr).__name__, round=round_)
        for u_ in (0.0, 0.25, 0.5, 1.0):
            r.eq(float(pr.sample(u_)), float(twin.sample(u_)), 'user-prior-kept', 'userprior/sample/%s' % tag, rtol=0, u=u_)
        is_log = pr.priorMode is not PriorMode.LINEAR
        r.check(opt.fit_names[names.index(target)] == ('log_' + target if is_log else target), 'user-prior-kept',
                'userprior/name/%s' % tag, got=opt.fit_names)
        vec = [0.0, 0.0]
        vec[names.index('T')] = 1234.0
        x_ = float(twin.sample(0.25))
        vec[names.index(target)] = x_
        opt.update_model(vec)
        r.eq(float(gui.fitting_parameters()[target][2]()), 10 ** x_ if is_log else x_, 'default-to-model',
             'userprior/to-model/%s' % tag, rtol=1e-12)
    r.observe(kind, case['mode'], case['bounds'])
    r.nontrivial = True
    return r



# ------------------------------------------------------------------------------------------------
# enumeration
# ------------------------------------------------------------------------------------------------
def explore(ctx):
    thorough = ctx.tier == 'thorough'
    bpairs = pairs(BOUND_VALUES)
    lpairs = pairs(LIN_BOUND_VALUES)
    ms = [[m, s] for m in MEANS for s in STDS]
    lms = [[m, s] for m in LIN_MEANS for s in STDS]
    # generic (seed-dependent) values: one pair of bounds in both orders, one (mean, std), one lin pair
    g = fx.rng('c08', 'generic')
    ga, gb = [float('%.6g' % v) for v in sorted(g.uniform(-12.0, 1e3, size=2))]
    gm, gs = float('%.6g' % g.uniform(-4.0, 1e3)), float('%.6g' % 10 ** g.uniform(-3, 0.3))
    gl = [float('%.6g' % 10 ** v) for v in sorted(g.uniform(-12.0, 3.0, size=2))]
    bpairs += [[ga, gb], [gb, ga]]
    lpairs += [gl, gl[::-1]]
    ms.append([gm, gs])
    lms.append([gl[0], gs])

    # 1. direct
    direct = [{'cls': 'Uniform', 'kw': {}}, {'cls': 'LogUniform', 'kw': {}}, {'cls': 'Gaussian', 'kw': {}},
              {'cls': 'LogGaussian', 'kw': {}}]
    for cls in ('Uniform', 'LogUniform'):
        for b in bpairs:
            for cont in ('list', 'tuple', 'ndarray', 'ints', 'intarray'):
                if cont in ('ints', 'intarray') and not all(float(x).is_integer() for x in b):
                    continue
                direct.append({'cls': cls, 'kw': {'bounds': b}, 'container': cont})
    for cls in ('Gaussian', 'LogGaussian'):
        for m, s in ms:
            direct.append({'cls': cls, 'kw': {'mean': m, 'std': s}})
        for m in MEANS:
            direct.append({'cls': cls, 'kw': {'mean': m}})
        for s in STDS:
            direct.append({'cls': cls, 'kw': {'std': s}})
    ctx.run_cases('direct_case', direct, phase='direct')
    reb = [{'cls': cls, 'first': a, 'second': b} for cls in ('Uniform', 'LogUniform')
           for a in bpairs[::3] for b in bpairs if a != b]
    ctx.run_cases('rebound_case', reb, phase='rebound')

    # 2. lin_* == log10
    lin = [{'cls': 'LogUniform', 'kw': {'lin_bounds': b}} for b in lpairs]
    lin += [{'cls': 'LogGaussian', 'kw': {'lin_mean': m, 'std': s}} for m, s in lms]
    lin += [{'cls': 'LogGaussian', 'kw': {'lin_mean': m}} for m in LIN_MEANS]
    lin += [{'cls': 'LogGaussian', 'kw': {'lin_mean': m, 'lin_std': s}} for m in LIN_MEANS for s in LIN_STDS]
    lin += [{'cls': 'LogGaussian', 'kw': {'mean': m, 'lin_std': s}} for m in MEANS for s in LIN_STDS]
    ctx.run_cases('lin_case', lin, phase='lin')

    # 3. text grammar
    if thorough:
        tb = [[0.8, 5.0], [-12.0, -2.0]] + bpairs
        tl = [[1e-12, 1e-2]] + lpairs
        tms = [[1.0, 0.3], [-4.0, 2.0]] + ms
        tlms = [[1e-4, 2.0]] + lms
    else:
        tb = [[0.8, 5.0], [-12.0, -2.0], [5.0, 0.8], [-3.0, 0.0], [0.5, 1e3], [0.0, -12.0], [1e3, -1.0], [gb, ga]]
        tl = [[1e-12, 1e-2], [1e3, 1e-3], [0.5, 2.0], gl[::-1]]
        tms = [[1.0, 0.3], [-4.0, 2.0], [1e3, 1e-3], [0.0, 0.3], [gm, gs]]
        tlms = [[1e-4, 2.0], [50.0, 0.3], [1.0, 1e-3], [gl[0], gs]]
    kwsets = []          # (cls, [(key, value), ...])
    for cls in ('Uniform', 'LogUniform'):
        kwsets.append((cls, []))
        kwsets += [(cls, [('bounds', b)]) for b in tb]
    kwsets += [('LogUniform', [('lin_bounds', b)]) for b in tl]
    for cls in ('Gaussian', 'LogGaussian'):
        kwsets.append((cls, []))
        for m, s in tms:
            kwsets += [(cls, [('mean', m), ('std', s)]), (cls, [('std', s), ('mean', m)])]
        kwsets += [(cls, [('mean', tms[0][0])]), (cls, [('std', tms[0][1])])]
    for m, s in tlms:
        kwsets += [('LogGaussian', [('lin_mean', m), ('std', s)]), ('LogGaussian', [('std', s), ('lin_mean', m)])]
    kwsets += [('LogGaussian', [('lin_mean', tlms[0][0])]),
               ('LogGaussian', [('lin_mean', tlms[0][0]), ('lin_std', 100.0)]),
               ('LogGaussian', [('mean', -4.0), ('lin_std', 100.0)])]
    text = []
    seen_text = set()
    for (cls, kw), name, br, ws, num in itertools.product(
            kwsets, ['exact', 'lower', 'upper'], ['tuple', 'list'], ['doc', 'compact', 'spaced', 'trail'],
            ['repr', 'int', 'exp', 'plus']):
        has_seq = any(isinstance(v, list) for _, v in kw)
        if br == 'list' and not has_seq:
            continue
        c = {'cls': cls, 'kw': [[k, v] for k, v in kw], 'name': name, 'bracket': br, 'ws': ws, 'num': num}
        if core.ohash(c) not in seen_text:
            seen_text.add(core.ohash(c))
            text.append(c)
    ctx.run_cases('text_case', text, phase='text')
    import itertools as _it
    tseq = [{'cls': c_, 'seq': [list(k_) for k_ in sq]} for c_, al in SEQ_TEXTS.items()
            for n_ in ((1, 2, 3) if thorough else (1, 2)) for sq in _it.product(al, repeat=n_)]
    ctx.run_cases('textseq_case', tseq, phase='text-sequences')

    pos = [{'cls': 'Uniform', 'args': [[1.0, 2.0]]}, {'cls': 'LogUniform', 'args': [[-3.0, -1.0]]},
           {'cls': 'Gaussian', 'args': [1.0, 0.3]}, {'cls': 'LogGaussian', 'args': [-4.0, 2.0]},
           {'cls': 'Gaussian', 'args': [1.0]}]
    ctx.run_cases('positional_case', pos, phase='positional', serial=True)

    # 4. unknown names
    unk = [{'text': t, 'form': f} for t, f in [
        ('Foo(bounds=(1, 2))', 'other-word'), ('Normal(mean=1, std=2)', 'other-word'),
        ('Uniforms(bounds=(1, 2))', 'suffix'), ('Uni(bounds=(1, 2))', 'prefix'),
        ('Log(bounds=(1, 2))', 'prefix'), ('foo()', 'other-word')]]
    ctx.run_cases('unknown_case', unk, phase='unknown', serial=True)

    # 5. default priors
    dflt = []
    lin_b = [None] + (bpairs if thorough else [[300.0, 2500.0], [2500.0, 300.0], [-12.0, 2.0], [1e3, -3.0], [0.0, 0.5],
                                                [0.5, 0.0], [-1.0, -3.0]])
    log_b = [None] + (lpairs if thorough else [[1e-12, 1e-3], [1e-3, 1e-12], [0.5, 2.0], [1e3, 0.5], [2.0, 1e3]])
    for param, other in (('T', 'kappa_irr'), ('kappa_irr', 'T'), ('alpha', 'kappa_irr'), ('kappa_irr', 'alpha')):
        for mode in (None, 'linear', 'log', 'LOG', 'Linear'):
            eff = (mode or PARAMS[param][0]).lower()
            for b in (log_b if eff == 'log' else lin_b):
                if eff == 'log' and b is None and min(PARAMS[param][1]) <= 0:
                    continue        # log10 of a non-positive default bound: outside the statement
                dflt.append({'param': param, 'other': other, 'mode': mode, 'bounds': b})
                if mode is not None or b is not None:
                    dflt.append({'param': param, 'other': other, 'mode': mode, 'bounds': b, 'precompile': True})
                    if (param, other) in (('T', 'kappa_irr'), ('kappa_irr', 'T')):
                        dflt.append({'param': param, 'other': other, 'mode': mode, 'bounds': b, 'precompile': True,
                                     'on_obs': True})
                        dflt.append({'param': param, 'other': other, 'mode': mode, 'bounds': b, 'on_obs': True})
    ctx.run_cases('default_case', dflt, phase='default')
    up = [{'mode': md, 'bounds': b_, 'prior': pr_, 'via': via, 'on_obs': oo}
          for md in (None, 'log', 'linear', 'LOG') for b_ in (None, [0.0, 1.0], [1.0, 0.0], [-1.0, 1.0], [0.1, 0.9])
          for pr_ in (('LogUniform', (('bounds', (-3.0, 0.0)),)), ('Uniform', (('bounds', (0.2, 0.8)),)),
                      ('LogUniform', (('lin_bounds', (1e-3, 1.0)),)), ('Gaussian', (('mean', 0.4), ('std', 0.1))),
                      ('LogGaussian', (('mean', -1.0), ('std', 0.3))))
          for via in ('direct', 'text') for oo in (False, True)]
    ctx.run_cases('userprior_case', up, phase='user-prior')

    ctx.bounds.update(u_lattice=len(U), direct=len(direct), lin=len(lin), text=len(text), positional=len(pos),
                      unknown=len(unk), default=len(dflt),
                      bound_pairs=len(bpairs), lin_bound_pairs=len(lpairs), mean_std=len(ms))
