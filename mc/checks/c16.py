"""C16 - output files hold what was computed and reload to the same model (DESIGN.md section 4).

Three parts, each a bounded exhaustive enumeration on the real writer / binner / loader:

(a) dict_case      nested dictionaries -> HDF5Output.store_dictionary -> read back with h5py
(b) spectrum_case  binner.generate_spectrum_output for every binner x OutputSize x model type
(c) model_case     model.write -> taurex_hdf5_to_model -> write -> load   (E1, component product)
    hist_case      the same under operation histories set:<param> / reload          (E2, BFS)

Oracles are in mc/ref/c16_output.py (no TauREx code).  In (c) the oracle is the *original* object:
the rebuilt model must show the same classes, the same public parameter values and the same
spectrum, and writing it again must give the same file.
"""
import itertools
import os

import numpy as np

from mc import core, fixtures as fx
from mc.ref import c16_output as ref

ID = 'C16'
RULE = ('(a) every leaf letter (scalars, strings incl. 64/65 chars and non-ascii, arrays, lists, '
        'tuples, string lists, nested dicts) under every key letter at nesting depth 1-3, plus '
        'all ordered sibling pairs of leaf letters, each written by HDF5Output.store_dictionary '
        'and read back with h5py; a leaf the writer refuses with an exception is outside the '
        'quantifier only when it is in the declared may-refuse set; (b) full product binner x '
        'OutputSize x model type x layers x target grid; (c) <=2 deviations (quick) / full product '
        '(thorough) of model type x temperature x pressure x gas set x fill gases x contributions '
        'x history letter with non-default parameter values, write->load->write->load, plus BFS '
        '(depth 2) over set:<fitting parameter>/reload histories on rich configurations.  A case '
        'is non-trivial when a non-default letter took part in the verdict.')
ASSUME = ['h5py / HDF5 library, numpy, numba kernels trusted',
          'dictionary keys are strings without "/" (HDF5 uses "/" as the path separator)',
          'components that need external data which is not shipped (PhoenixStar, plugin chemistries, HydrogenIon '
          'whose finalize() is not implemented, Earth/Mars planets) are not enumerated; the file based profiles '
          '(TemperatureFile, FilePressureProfile, ChemistryFile) are, with files written by the check that still '
          'exist at reload time',
          'an exception raised by the writer is a refusal (outside the quantifier) only for the '
          'declared may-refuse leaf letters; the forward model is tiny (<=20 layers, 7 wavenumbers, '
          'in-memory opacity tables)']

WN = fx.WN_GRIDS[7]


_BY = [False]       # building the bystander model: other values everywhere, files in other directories


def gv(name, base, spread=0.05):
    """generic value: base*(1 +- spread), deterministic in (VERIF_SEED, name)"""
    v = float(base * (1.0 + spread * (2.0 * fx.rng('c16', name).uniform() - 1.0)))
    return v * 1.07 if _BY[0] else v


def _dir(name):
    return fx.fresh_dir(name + ('_by' if _BY[0] else ''))


# ================================================================================================
# (a) dictionaries
# ================================================================================================
S64 = 'abcdefgh' * 8
S65 = 'abcdefgh' * 8 + 'Z'
NONASCII = u'µm Ångström'

# letter -> (may_refuse, description)
LEAVES = [
    ('float', False), ('negfloat', False), ('nan', False), ('inf', False), ('int', False),
    ('bigint', False), ('negint', False), ('true', False), ('false', False), ('npfloat', False),
    ('npint', False),
    ('str', False), ('str0', False), ('str64', False), ('str65', False), ('strU', False),
    ('strsp', False), ('strnl', False),
    ('a0', False), ('a1', False), ('a2', False), ('a2T', False), ('a1step', False), ('ai1', False),
    ('ai2', False), ('aempty', False), ('abool', True), ('af32', False), ('a3', False),
    # one-element arrays (the profiles of a one-layer atmosphere): shape (1,) and (1, 1) stay what they are
    ('a1one', False), ('a2one', False), ('ai1one', False),
    ('lnum', False), ('lint', False), ('tnum', False), ('lempty', False), ('larr', False),
    ('llist', False), ('lbool', True), ('tarr', False),
    ('ls', False), ('ls1', False), ('ls0', False), ('ls64', False), ('ls65', False),
    ('lsU', False), ('ts', False), ('lsmix65', False), ('lsU65', False), ('lsUmix', False), ('strU65', False),
    ('dict0', False), ('dict2', False),
    # declared may-refuse letters (DESIGN: probed, the writer raises)
    ('npf32', True), ('npbool', True), ('none', True), ('lmix', True), ('lrag', True),
    ('npi32', True), ('complex', True),
]
LEAF_NAMES = [l for l, _ in LEAVES]
MAY_REFUSE = dict(LEAVES)
CORE_LEAVES = ['float', 'int', 'true', 'str', 'str65', 'strU', 'a1', 'a2', 'ai1', 'a1one', 'a2one', 'lnum', 'larr',
               'ls', 'ls65', 'lsU', 'lsU65', 'lsUmix', 'dict2', 'tnum']
KEYS = ['k', 'k0', 'a b', u'kµ', 'K.1', ' k ']


def make_leaf(letter, salt):
    r = fx.rng('c16leaf', letter, salt)
    u = lambda *s: r.uniform(0.5, 2.0, size=s)          # noqa: E731
    if letter == 'float':
        return float(u())
    if letter == 'negfloat':
        return -float(u()) * 1e-30
    if letter == 'nan':
        return float('nan')
    if letter == 'inf':
        return float('-inf')
    if letter == 'int':
        return int(r.randint(1, 1000))
    if letter == 'bigint':
        return 2 ** 40 + int(r.randint(1, 1000))
    if letter == 'negint':
        return -int(r.randint(1, 1000))
    if letter == 'true':
        return True
    if letter == 'false':
        return False
    if letter == 'npfloat':
        return np.float64(u())
    if letter == 'npint':
        return np.int64(r.randint(1, 1000))
    if letter == 'str':
        return 'abc'
    if letter == 'str0':
        return ''
    if letter == 'str64':
        return S64
    if letter == 'str65':
        return S65
    if letter == 'strU':
        return NONASCII
    if letter == 'strsp':
        return ' lead and trail  '
    if letter == 'strnl':
        return 'two\nlines\ttab'
    if letter == 'a0':
        return np.array(float(u()))
    if letter == 'a1one':
        return u(1)
    if letter == 'a2one':
        return u(1, 1)
    if letter == 'ai1one':
        return r.randint(0, 100, size=1)
    if letter == 'a1':
        return u(3)
    if letter == 'a2':
        return u(2, 3)
    if letter == 'a2T':
        return u(3, 2).T
    if letter == 'a1step':
        return u(7)[::2]
    if letter == 'ai1':
        return r.randint(0, 100, size=3)
    if letter == 'ai2':
        return r.randint(0, 100, size=(2, 2))
    if letter == 'aempty':
        return np.array([])
    if letter == 'abool':
        return np.array([True, False, True])
    if letter == 'af32':
        return u(3).astype(np.float32)
    if letter == 'a3':
        return u(2, 2, 2)
    if letter == 'lnum':
        return [1, float(u())]
    if letter == 'lint':
        return [int(x) for x in r.randint(0, 100, size=3)]
    if letter == 'tnum':
        return (float(u()), float(u()))
    if letter == 'lempty':
        return []
    if letter == 'larr':
        return [u(2), u(2), u(2)]
    if letter == 'llist':
        return [[1.0, float(u())], [3.0, 4.0]]
    if letter == 'lbool':
        return [True, False]
    if letter == 'tarr':
        return (u(2), u(2))
    if letter == 'ls':
        return ['a', 'bb', 'H2O']
    if letter == 'ls1':
        return ['solo']
    if letter == 'ls0':
        return ['', 'x']
    if letter == 'ls64':
        return [S64, 'x']
    if letter == 'ls65':
        return [S65]
    if letter == 'lsU':
        return [NONASCII, 'x']
    if letter == 'lsU65':       # non-ascii AND longer than 64 bytes in utf-8 (40 characters, 80 bytes)
        return [u'\u00b5' * 40]
    if letter == 'lsUmix':      # 62 characters / 66 utf-8 bytes next to shorter entries
        return ['x' * 58 + u'\u00c5\u00b5\u00e9\u00f1', 'ab', u'\u00b5m']
    if letter == 'strU65':
        return u'\u00b5' * 40
    if letter == 'ts':
        return ('H2', 'He')
    if letter == 'lsmix65':
        return ['short', S65, 'mid' * 10]
    if letter == 'dict0':
        return {}
    if letter == 'dict2':
        return {'x': float(u()), 'y': {'z': r.randint(0, 9, size=2), 'w': 'str'}}
    if letter == 'npf32':
        return np.float32(1.5)
    if letter == 'npbool':
        return np.bool_(True)
    if letter == 'none':
        return None
    if letter == 'lmix':
        return ['a', 1]
    if letter == 'lrag':
        return [u(2), u(3)]
    if letter == 'npi32':
        return np.int32(7)
    if letter == 'complex':
        return 1.0 + 2.0j
    raise ValueError(letter)


def build_tree(spec, letters, path=''):
    """spec: list of [key, node]; node = ['leaf', letter] | ['dict', spec].  Returns the Python
    dictionary; letters[path] = leaf letter."""
    out = {}
    for key, node in spec:
        p = path + '/' + key
        if node[0] == 'leaf':
            out[key] = make_leaf(node[1], p)
            letters[p] = node[1]
        else:
            out[key] = build_tree(node[1], letters, p)
    return out


# violation signatures name the *class* of the leaf, so one defect has one signature
SIGCLASS = {'ls65': 'strlist-over-64-chars', 'lsmix65': 'strlist-over-64-chars', 'lsU': 'strlist-non-ascii',
            'lsU65': 'strlist-non-ascii-over-64-bytes', 'lsUmix': 'strlist-non-ascii-over-64-bytes'}


def letter_of(path, letters):
    """leaf letter responsible for a path (longest registered prefix)."""
    best = None
    for p, l in letters.items():
        if path == p or path.startswith(p + '/') or path.startswith(p):
            if best is None or len(p) > len(best[0]):
                best = (p, l)
    return best[1] if best else 'unregistered-name'


def dict_case(case):
    import h5py
    from taurex.output.hdf5 import HDF5Output
    r = core.R(case)
    fx.reset_caches()
    letters = {}
    d = build_tree(case['tree'], letters)
    used = sorted(set(letters.values()))
    fn = os.path.join(fx.fresh_dir('c16a'), 'd.h5')
    group = case.get('group')
    via = case.get('via')
    try:
        if via == 'append':          # taurex.taurex.main: model first, results appended later
            with HDF5Output(fn) as o:
                o.store_dictionary({'ModelParameters': {'before': 1.0}})
        with HDF5Output(fn, append=(via == 'append')) as o:
            if case.get('pre'):
                o.store_dictionary({'before': 1.0}, group_name='Pre')
            if via in ('subgroup', 'append'):     # group.store_dictionary, as main() does
                o.create_group('Output').store_dictionary(d, group_name=group)
            else:
                o.store_dictionary(d, group_name=group)
    except Exception as e:
        refusable = [l for l in used if MAY_REFUSE.get(l)]
        r.count('refused')
        # a refusal is outside the quantifier only when a may-refuse letter is present
        r.check(bool(refusable), 'a:accepted', 'a/refused/%s/%s' % (type(e).__name__, '+'.join(used)),
                exc=repr(e)[:300])
        r.observe('refused', type(e).__name__)
        return r
    with h5py.File(fn, 'r') as f:
        g = f['Output'] if case.get('via') in ('subgroup', 'append') else f
        if case.get('via') == 'append':
            mp = ref.h5_tree(f['ModelParameters'])
            r.check(list(mp) == ['before'] and float(mp['before']) == 1.0, 'a:other-group-untouched',
                    'a/append-clobbered')
        g = g[group] if group else g
        read = ref.h5_tree(g)
        if case.get('pre'):
            pre = ref.h5_tree(f['Pre'])
            r.check(list(pre) == ['before'] and float(pre['before']) == 1.0, 'a:other-group-untouched',
                    'a/other-group')
            if not group:
                read.pop('Pre', None)
    diffs = list(ref.tree_diff(read, d))
    r.check(True, 'a:readback')
    for path, kind, why in diffs:
        l_ = letter_of(path, letters)
        r.check(False, 'a:readback', 'a/%s/%s' % (kind, SIGCLASS.get(l_, l_)), path=path, why=why,
                tree=case['tree'])
    r.observe(sorted(read.keys()), [repr(np.asarray(v).shape) if not isinstance(v, dict) else 'g'
                                     for v in read.values()], used)
    if any(l not in ('float',) for l in used):
        r.nontrivial = True
    return r


def dict_cases(tier):
    cases = []
    leaf_set = LEAF_NAMES
    # 1. every leaf x key letter x depth 1..3 (the leaf sits at that depth, beside a float)
    for letter, key, depth in itertools.product(leaf_set, KEYS, (1, 2, 3)):
        spec = [[key, ['leaf', letter]], ['zz', ['leaf', 'float']]]
        for lvl in range(depth - 1):       # the enclosing groups carry the key letter as well
            spec = [[key + 'g%d' % lvl, ['dict', spec]], [key, ['leaf', 'int']]]
        cases.append({'tree': spec, 'group': 'G'})
    # 2. ordered sibling pairs (name expansion of one leaf must not disturb another)
    pair_set = leaf_set if tier == 'thorough' else CORE_LEAVES
    for a, b in itertools.product(pair_set, pair_set):
        cases.append({'tree': [['p', ['leaf', a]], ['p0', ['leaf', b]]], 'group': 'G'})
    # 3. root / second group placement
    for letter in leaf_set:
        # root-level placement: the file object itself only takes dictionaries of dictionaries
        cases.append({'tree': [['top', ['dict', [['k', ['leaf', letter]]]]]], 'group': None})
        cases.append({'tree': [['k', ['leaf', letter]]], 'group': 'Solutions', 'via': 'subgroup'})
        cases.append({'tree': [['k', ['leaf', letter]]], 'group': None, 'via': 'subgroup'})
        cases.append({'tree': [['k', ['leaf', letter]]], 'group': 'Spectra', 'via': 'append'})
        cases.append({'tree': [['k', ['leaf', letter]]], 'group': 'G', 'pre': True})
    if tier == 'thorough':
        # all triples of core leaves in a nested layout
        for a, b, c in itertools.product(CORE_LEAVES, CORE_LEAVES, CORE_LEAVES):
            cases.append({'tree': [['u', ['leaf', a]],
                                   ['v', ['dict', [['u', ['leaf', b]],
                                                   ['w', ['dict', [['u', ['leaf', c]]]]]]]]],
                          'group': 'Solutions'})
    return cases


# ================================================================================================
# tiny models (shared by b and c)
# ================================================================================================
def register_opacities():
    from taurex.cache import OpacityCache, CIACache
    for m, mag in (('H2O', 3e-25), ('CH4', 1e-25)):
        x = fx.table(3, 3, 7, mag, salt=('c16', m), pattern='generic',
                     per_wn=[0.3, 1.0, 3.0, 0.1, 10.0, 1.0, 0.03])
        OpacityCache().add_opacity(fx.TinyOp(m, WN, fx.T_GRIDS[3], fx.P_GRIDS[3], x))
    for pair, mag in (('H2-He', 2e-56), ('H2-H2', 5e-56)):
        rr = fx.rng('c16cia', pair)
        x = mag * 10 ** rr.uniform(-0.3, 0.3, size=(3, 7))
        CIACache().add_cia(fx.TinyCIA(pair, WN, [100.0, 1000.0, 4000.0], x))


def n_layers(case):
    return 20 if case.get('gases') == 'twolayer' else 6


def make_temperature(letter, N, pmax, pmin):
    from taurex.temperature import Isothermal, Guillot2010, NPoint, Rodgers2000, TemperatureFile
    from taurex.data.profiles.temperature.temparray import TemperatureArray
    if letter == 'iso':
        return Isothermal(T=gv('iso.T', 1234.0))
    if letter == 'guillot':
        return Guillot2010(T_irr=gv('g.Tirr', 1400.0), kappa_irr=gv('g.kir', 0.02),
                           kappa_v1=gv('g.kv1', 0.004), kappa_v2=gv('g.kv2', 0.003),
                           alpha=gv('g.alpha', 0.4), T_int=gv('g.Tint', 400.0))
    if letter == 'npoint0':
        return NPoint(T_surface=gv('np.Ts', 1500.0), T_top=gv('np.Tt', 700.0), smoothing_window=30)
    if letter == 'npoint1P':
        return NPoint(T_surface=gv('np.Ts', 1500.0), T_top=gv('np.Tt', 700.0),
                      P_surface=gv('np.Ps', 0.5 * pmax), P_top=gv('np.Pt', 3 * pmin),
                      temperature_points=[gv('np.T1', 1100.0)], pressure_points=[gv('np.P1', 1e3)],
                      smoothing_window=40, limit_slope=gv('np.ls', 5000.0))
    if letter == 'npoint2':
        return NPoint(T_surface=gv('np.Ts', 1500.0), T_top=gv('np.Tt', 700.0),
                      temperature_points=[gv('np.T1', 1000.0), gv('np.T2', 1250.0)],
                      pressure_points=[gv('np.P1', 3e3), gv('np.P2', 2e1)], smoothing_window=20)
    if letter == 'rodgers':
        return Rodgers2000(temperature_layers=[gv('r.T%d' % i, t) for i, t in
                                               enumerate(np.linspace(1600.0, 700.0, N))],
                           correlation_length=gv('r.cl', 3.0))
    if letter == 'rodgersC':
        cov = np.exp(-np.abs(np.subtract.outer(np.arange(N), np.arange(N))) / gv('r.c', 2.0))
        return Rodgers2000(temperature_layers=[gv('r.T%d' % i, t) for i, t in
                                               enumerate(np.linspace(1600.0, 700.0, N))],
                           correlation_length=gv('r.cl', 3.0), covariance_matrix=cov)
    if letter == 'tarray':
        return TemperatureArray(tp_array=[gv('ta.T%d' % i, t) for i, t in
                                          enumerate(np.linspace(1700.0, 600.0, N))])
    if letter == 'tarrayP':
        return TemperatureArray(tp_array=[gv('ta.T0', 1700.0), gv('ta.T1', 1000.0), gv('ta.T2', 600.0)],
                                p_points=[pmax, gv('ta.P1', 1e2), pmin])
    if letter == 'tfile':
        d = _dir('c16tfile')
        p = os.path.join(d, 'tp.txt')
        P = np.logspace(np.log10(pmax), np.log10(pmin), 4)
        T = [gv('tf.T%d' % i, t) for i, t in enumerate([1650.0, 1300.0, 900.0, 650.0])]
        np.savetxt(p, np.column_stack([P, T]))
        return TemperatureFile(filename=p, temp_col=1, press_col=0)
    raise ValueError(letter)


def make_gases(letter, N):
    from taurex.chemistry import ConstantGas, TwoLayerGas, PowerGas, ArrayGas
    from taurex.data.profiles.chemistry.gas.twopointgas import TwoPointGas
    if letter == 'h2o':
        return [ConstantGas('H2O', mix_ratio=gv('h2o', 2e-4))]
    if letter == 'three':
        return [ConstantGas('H2O', mix_ratio=gv('h2o', 2e-4)), ConstantGas('CH4', mix_ratio=gv('ch4', 5e-4)),
                ConstantGas('N2', mix_ratio=gv('n2', 2e-2))]
    if letter == 'twolayer':
        return [ConstantGas('H2O', mix_ratio=gv('h2o', 2e-4)),
                TwoLayerGas('CH4', mix_ratio_surface=gv('ch4s', 8e-4), mix_ratio_top=gv('ch4t', 1e-5),
                            mix_ratio_P=gv('ch4p', 5e2), mix_ratio_smoothing=20)]
    if letter == 'power':
        return [PowerGas('H2O', profile_type='TiO', mix_ratio_surface=gv('pw.s', 3e-4), alpha=gv('pw.a', 0.4),
                         beta=gv('pw.b', -800.0), gamma=gv('pw.g', 3.5))]
    if letter == 'array':
        return [ArrayGas('H2O', mix_ratio_array=[gv('ag%d' % i, x) for i, x in
                                                 enumerate(np.logspace(-3.3, -5, N))])]
    if letter == 'twopoint':
        return [ConstantGas('H2O', mix_ratio=gv('h2o', 2e-4)),
                TwoPointGas('CH4', mix_ratio_surface=gv('ch4s', 8e-4), mix_ratio_top=gv('ch4t', 1e-5))]
    raise ValueError(letter)


def make_contribs(letter, have=('H2', 'He')):
    """have: molecules present in the atmosphere (CIA pairs need both partners)."""
    from taurex import contributions as C
    out = [C.AbsorptionContribution()]
    parts = letter.split('+')[1:]
    if letter == 'all':
        parts = ['ray', 'cia', 'clouds', 'lee']
    for p in parts:
        if p == 'ray':
            out.append(C.RayleighContribution())
        elif p in ('cia', 'cia1'):
            pairs = [q for q in (['H2-He', 'H2-H2'] if p == 'cia' else ['H2-H2'])
                     if all(x in have for x in q.split('-'))]
            out.append(C.CIAContribution(cia_pairs=pairs))
        elif p == 'cia0':       # a collision-induced source left without pairs (its default): a source without components
            out.append(C.CIAContribution())
        elif p == 'clouds':
            out.append(C.SimpleCloudsContribution(clouds_pressure=gv('cl.p', 2e3)))
        elif p == 'lee':
            out.append(C.LeeMieContribution(lee_mie_radius=gv('lee.r', 0.05), lee_mie_q=gv('lee.q', 30.0),
                                            lee_mie_mix_ratio=gv('lee.m', 1e-6), lee_mie_bottomP=gv('lee.b', 1e4),
                                            lee_mie_topP=gv('lee.t', 1e1)))
        elif p == 'flat':
            out.append(C.FlatMieContribution(flat_mix_ratio=gv('fl.m', 2e-6), flat_bottomP=gv('fl.b', 1e4),
                                             flat_topP=gv('fl.t', 1e1)))
        else:
            raise ValueError(p)
    return out


DEFAULT_CFG = {'kind': 'T', 'temp': 'iso', 'press': 'simple', 'gases': 'h2o', 'fill': 'H2He',
               'contribs': 'abs'}


def build_model(cfg):
    """fresh model from a configuration of letters; every numeric parameter is non-default."""
    from taurex.model import TransmissionModel, EmissionModel, DirectImageModel
    from taurex.planet import Planet
    from taurex.stellar import BlackbodyStar
    from taurex.pressure import SimplePressureProfile, ArrayPressureProfile
    from taurex.chemistry import TaurexChemistry
    c = dict(DEFAULT_CFG)
    c.update(cfg)
    N = c.get('N') or n_layers(c)
    pmax, pmin = gv('pmax', 2e5), gv('pmin', 0.3)
    fill = {'H2He': (['H2', 'He'], gv('fill.he', 0.2)), 'H2': (['H2'], 0.17),
            'H2HeN2': (['H2', 'He', 'N2'], [gv('fill.he', 0.2), gv('fill.n2', 0.04)]),
            'He': ('He', 0.5),
            # a fill gas that also has opacity data (an active absorber fills the atmosphere, as in a CO2 / N2 world)
            'CH4H2': (['CH4', 'H2'], gv('fill.h2', 0.3))}[c['fill']]
    if c['fill'] == 'CH4H2' and c['gases'] != 'h2o':
        fill = (['H2', 'He'], gv('fill.he', 0.2))      # (methane is a trace gas of the other gas letters)
    if c['gases'] == 'three' and c['fill'] == 'H2HeN2':
        fill = (['H2', 'He', 'CO2'], fill[1])
    if c['gases'] == 'chemfile':
        from taurex.chemistry import ChemistryFile
        fn = os.path.join(_dir('c16chemfile'), 'mix.txt')
        h2o = np.array([gv('cf%d' % i, x) for i, x in enumerate(np.logspace(-3.3, -4.5, N))])
        ch4 = np.full(N, gv('cf.ch4', 3e-4))
        rest = 1.0 - h2o - ch4
        np.savetxt(fn, np.column_stack([h2o, rest * 0.8, ch4, rest * 0.2]))
        chem = ChemistryFile(gases=['H2O', 'H2', 'CH4', 'He'], filename=fn)
        fill = (['H2', 'He'], None)
    else:
        chem = TaurexChemistry(fill_gases=fill[0], ratio=fill[1])
        for g in make_gases(c['gases'], N):
            chem.addGas(g)
    if c['press'] == 'simple':
        press = SimplePressureProfile(nlayers=N, atm_min_pressure=pmin, atm_max_pressure=pmax)
    elif c['press'] == 'array':
        press = ArrayPressureProfile(np.logspace(np.log10(pmax), np.log10(pmin), N))
    elif c['press'] == 'array-reversed':     # tabulated from the top of the atmosphere down, reverse=True
        press = ArrayPressureProfile(np.logspace(np.log10(pmin), np.log10(pmax), N), reverse=True)
    elif c['press'] == 'file':
        from taurex.pressure import FilePressureProfile
        fn = os.path.join(_dir('c16pfile'), 'p.txt')
        if _BY[0]:      # the bystander reads a bottom-up single-column file in Pa with the default arguments
            np.savetxt(fn, np.logspace(np.log10(pmax), np.log10(pmin), N))
            press = FilePressureProfile(filename=fn)
        else:
            np.savetxt(fn, np.column_stack([np.arange(N), np.logspace(np.log10(pmin), np.log10(pmax), N) / 1e5]))
            press = FilePressureProfile(filename=fn, usecols=1, units='bar', reverse=True)
    elif c['press'] == 'file-tab':       # a TAB separated file read with an explicit delimiter
        from taurex.pressure import FilePressureProfile
        fn = os.path.join(_dir('c16pfile'), 'p.txt')
        np.savetxt(fn, np.column_stack([np.arange(N), np.logspace(np.log10(pmax), np.log10(pmin), N) * (1.07 if _BY[0] else 1.0)]),
                   delimiter='\t')
        press = FilePressureProfile(filename=fn, usecols=1, delimiter='\t')
    else:
        raise ValueError(c['press'])
    kw = dict(planet=Planet(planet_mass=gv('pl.m', 0.8), planet_radius=gv('pl.r', 1.1),
                            planet_distance=gv('pl.d', 0.05), impact_param=gv('pl.i', 0.3),
                            orbital_period=gv('pl.o', 3.0), albedo=gv('pl.a', 0.2),
                            transit_time=gv('pl.t', 2500.0)),
              star=BlackbodyStar(temperature=gv('st.t', 5400.0), radius=gv('st.r', 0.9), distance=gv('st.d', 12.0),
                                 magnitudeK=gv('st.k', 9.0), mass=gv('st.m', 0.95), metallicity=gv('st.z', 1.1)),
              pressure_profile=press, temperature_profile=make_temperature(c['temp'], N, pmax, pmin),
              chemistry=chem)
    kind = c['kind']
    if kind == 'T':
        m = TransmissionModel(**kw)
    elif kind == 'Tnew':
        m = TransmissionModel(new_path_method=True, **kw)
    elif kind == 'E3':
        m = EmissionModel(ngauss=3, **kw)
    elif kind == 'D2':
        m = DirectImageModel(ngauss=2, **kw)
    else:
        raise ValueError(kind)
    have = [fill[0]] if isinstance(fill[0], str) else list(fill[0])
    for cb in make_contribs(c['contribs'], have):
        m.add_contribution(cb)
    m.build()
    return m


# ------------------------------------------------------------------------------------------------
# public description of a model (the observable the statement talks about)
# ------------------------------------------------------------------------------------------------
def _val(x):
    if x is None:
        return None
    if isinstance(x, (bool, np.bool_)):
        return bool(x)
    if isinstance(x, (bytes, str)):
        return x.decode() if isinstance(x, bytes) else x
    a = np.asarray(x)
    if a.dtype.kind in 'OSU':
        return [str(v) for v in a.ravel().tolist()]
    if a.ndim == 0:
        return float(a)
    return [float(v) for v in a.ravel()]


def describe(m):
    """flat dict 'Component.attr' -> value of everything a user can set on the built-in components:
    component classes, every fitting parameter, and the constructor settings that are not fitting
    parameters (read through public properties where they exist)."""
    d = {}
    d['model.class'] = type(m).__name__
    d['model.ngauss'] = _val(getattr(m, '_ngauss', None))
    d['model.new_path_method'] = _val(getattr(m, 'new_method', None))
    t = m.temperature
    tn = type(t).__name__
    d['temperature.class'] = tn
    if tn == 'NPoint':
        d['NPoint.smoothing_window'] = t._smooth_window
        d['NPoint.limit_slope'] = t._limit_slope
        d['NPoint.npoints'] = len(t._t_points)
    if tn == 'Rodgers2000':
        d['Rodgers2000.covariance_matrix'] = None if t._covariance is None else _val(t._covariance)
    if tn in ('TemperatureArray', 'TemperatureFile'):
        d[tn + '.tp_array'] = _val(t._tp_profile)
        d[tn + '.p_points'] = None if t._p_profile is None else _val(t._p_profile)
    p = m.pressure
    d['pressure.class'] = type(p).__name__
    d['pressure.nlayers'] = p.nLayers
    d['pressure.profile'] = _val(p.profile)
    pl = m.planet
    d['planet.class'] = type(pl).__name__
    for a in ('impactParameter', 'orbitalPeriod', 'albedo', 'transitTime'):
        d['planet.' + a] = _val(getattr(pl, a))
    st = m.star
    d['star.class'] = type(st).__name__
    for a in ('temperature', 'radius', 'mass', 'distance', 'magnitudeK', '_metallicity'):
        d['star.' + a.strip('_')] = _val(getattr(st, a))
    ch = m.chemistry
    d['chemistry.class'] = type(ch).__name__
    d['chemistry.active'] = sorted(ch.activeGases)
    d['chemistry.inactive'] = sorted(ch.inactiveGases)
    if hasattr(ch, '_fill_gases'):
        fg = ch._fill_gases
        d['chemistry.fill_gases'] = [fg] if isinstance(fg, str) else [str(x) for x in fg]
    d['chemistry.gases'] = sorted(str(x) for x in ch.gases)
    if type(ch).__name__ == 'ChemistryFile':
        d['ChemistryFile.filename'] = _val(ch._filename)
    for g in (ch._gases if type(ch).__name__ == 'TaurexChemistry' else []):
        gn = type(g).__name__
        d['gas.%s.class' % g.molecule] = gn
        if gn == 'TwoLayerGas':
            d['TwoLayerGas.mix_ratio_smoothing'] = _val(g.mixRatioSmoothing)
        if gn == 'ArrayGas':
            d['ArrayGas.mix_ratio_array'] = _val(g._mix_ratio_array)
    d['contributions'] = sorted(type(c).__name__ for c in m.contribution_list)
    for c in m.contribution_list:
        if type(c).__name__ == 'CIAContribution':
            d['CIAContribution.cia_pairs'] = sorted(str(x) for x in c.ciaPairs)
    for k, v in m.fittingParameters.items():
        d['fit:' + k] = _val(v[2]())
    return d


UNSET_SENTINEL = ('fit:P_surface', 'fit:P_top')   # NPoint: None and any negative value both mean "use the profile end"


def _same(a, b):
    if a is None or b is None:
        return a is None and b is None
    if isinstance(a, bool) or isinstance(b, bool):
        return isinstance(a, bool) and isinstance(b, bool) and a == b
    if isinstance(a, str) or isinstance(b, str):
        return a == b
    if isinstance(a, list) and isinstance(b, list) and any(isinstance(x, str) for x in a + b):
        return a == b
    try:
        return ref.same_numbers(a, b, exact=False, rtol=1e-12)
    except Exception:
        return False


def desc_diff(d1, d2):
    """keys whose values differ (rtol 1e-12 on numbers)."""
    out = []
    for k in sorted(set(d1) | set(d2)):
        if k not in d1 or k not in d2:
            out.append((k, d1.get(k, '<absent>'), d2.get(k, '<absent>')))
            continue
        a, b = d1[k], d2[k]
        if k in UNSET_SENTINEL:
            a = None if (a is None or a < 0) else a
            b = None if (b is None or b < 0) else b
        same = _same(a, b)
        if not same:
            out.append((k, a, b))
    return out


def sig_key(k):
    """structural signature of a description key: digits of enumerated parameters are dropped so
    that T_point1/T_point2 or T_3/T_4 share a signature."""
    import re
    if k.startswith('fit:'):
        return 'fit:' + re.sub(r'^(T_point|P_point|T_)\d+$', r'\1#', k[4:])
    return k


def write_model(m, path):
    from taurex.output.hdf5 import HDF5Output
    with HDF5Output(path) as o:
        m.write(o)


def diagnose_load(path):
    """which component loaders fail on this file (observation of the implementation, used only to
    name the violation)."""
    import h5py
    from taurex.util import hdf5 as H
    bad = []
    with h5py.File(path, 'r') as f:
        loc = f['ModelParameters']
        probes = [('Temperature', lambda: H.load_temperature_from_hdf5(loc), 'temperature_type'),
                  ('Pressure', lambda: H.load_pressure_from_hdf5(loc), 'pressure_type'),
                  ('Planet', lambda: H.load_planet_from_hdf5(loc), 'planet_type'),
                  ('Star', lambda: H.load_star_from_hdf5(loc), 'star_type')]
        for grp, fn, tkey in probes:
            try:
                fn()
            except Exception as e:
                cls = loc[grp][tkey][()]
                bad.append('%s:%s' % (cls.decode() if isinstance(cls, bytes) else cls, type(e).__name__))
        try:
            H.load_chemistry_from_hdf5(loc)
        except Exception as e:
            names = []
            for k in loc['Chemistry']:
                it = loc['Chemistry'][k]
                if isinstance(it, h5py.Group):
                    try:
                        H.load_gas_from_hdf5(loc['Chemistry'], k)
                    except Exception as e2:
                        cls = it['gas_type'][()]
                        names.append('%s:%s' % (cls.decode() if isinstance(cls, bytes) else cls,
                                                type(e2).__name__))
            cls = loc['Chemistry']['chemistry_type'][()]
            bad.extend(names or ['%s:%s' % (cls.decode() if isinstance(cls, bytes) else cls, type(e).__name__)])
        for k in loc['Contributions']:
            try:
                H.load_contrib_from_hdf5(loc['Contributions'], k)
            except Exception as e:
                bad.append('%s:%s' % (k, type(e).__name__))
    return sorted(set(bad)) or ['model']


def diagnose_write(m):
    from taurex.output.hdf5 import HDF5Output
    bad = []
    parts = [m.temperature, m.pressure, m.planet, m.star, m.chemistry] + list(m.contribution_list)
    for i, part in enumerate(parts):
        p = os.path.join(fx.fresh_dir('c16diag'), 'w%d.h5' % i)
        try:
            with HDF5Output(p) as o:
                part.write(o.create_group('X'))
        except Exception as e:
            bad.append('%s:%s' % (type(part).__name__, type(e).__name__))
    return sorted(set(bad)) or ['model']


def load_model(path):
    from taurex.util.hdf5 import taurex_hdf5_to_model
    m = taurex_hdf5_to_model(path)
    m.build()
    return m


def roundtrip(r, m1, tag, d, deep=True):
    """write m1 -> load -> compare with m1 -> write again -> compare files -> load -> compare.
    Returns the first reloaded model (or None)."""
    import h5py
    s1 = np.array(m1.model()[1], dtype=float)
    g1 = np.array(m1.nativeWavenumberGrid, dtype=float)
    d1 = describe(m1)
    r.observe(s1, sorted(d1.items(), key=lambda kv: kv[0]))
    f1 = os.path.join(d, tag + '_1.h5')
    try:
        write_model(m1, f1)
    except Exception as e:
        # the writer refuses this model: nothing is stored, so nothing can come back changed
        r.count('c:write-refused')
        for comp in diagnose_write(m1):
            r.check(False, 'c:write', 'c/write-raised/%s' % comp, exc=repr(e)[:300])
        return None
    try:
        m2 = load_model(f1)
    except Exception as e:
        for comp in diagnose_load(f1):
            r.check(False, 'c:load', 'c/load-raised/%s' % comp, exc=repr(e)[:300])
        return None
    r.check(True, 'c:load')
    d2 = describe(m2)
    dd = desc_diff(d1, d2)
    r.check(True, 'c:values')
    for k, a, b in dd:
        r.check(False, 'c:values', 'c/value/%s' % sig_key(k), key=k, original=a, reloaded=b)
    s2 = np.array(m2.model()[1], dtype=float)
    r.eq(np.array(m2.nativeWavenumberGrid, dtype=float), g1, 'c:grid', 'c/grid', rtol=1e-12)
    spectrum_verdict(r, m2, s2, s1, dd, 'c')
    if not deep:
        return m2
    # second generation: fixed point of write o load
    f2 = os.path.join(d, tag + '_2.h5')
    try:
        write_model(m2, f2)
        with h5py.File(f1, 'r') as a, h5py.File(f2, 'r') as b:
            fd = list(ref.h5_diff(ref.h5_tree(a['ModelParameters']), ref.h5_tree(b['ModelParameters']),
                                  rtol=1e-12))
        r.check(True, 'c:fixed-point')
        for path, why in fd:
            r.check(False, 'c:fixed-point', 'c/fixed-point%s' % path, path=path, why=why)
        m3 = load_model(f2)
        s3 = np.array(m3.model()[1], dtype=float)
        dd3 = desc_diff(d2, describe(m3))
        r.check(not dd3, 'c:gen2-values', 'c/gen2-value/%s' % '+'.join(sorted(set(sig_key(k) for k, _, _ in dd3))),
                diff=dd3[:5])
        r.eq(s3, s2, 'c:gen2-spectrum', 'c/gen2-spectrum', rtol=1e-12)
    except Exception as e:
        r.check(False, 'c:gen2', 'c/gen2-raised/%s' % type(e).__name__, exc=repr(e)[:300])
    return m2


REPAIR = {
    'model.new_path_method': lambda m, v: setattr(m, 'new_method', v),
    'model.ngauss': lambda m, v: setattr(m, '_ngauss', int(v)),
    'NPoint.limit_slope': lambda m, v: setattr(m.temperature, '_limit_slope', v),
    'NPoint.smoothing_window': lambda m, v: setattr(m.temperature, '_smooth_window', v),
    'Rodgers2000.covariance_matrix': lambda m, v: setattr(
        m.temperature, '_covariance', None if v is None else np.array(v).reshape(m.nLayers, m.nLayers)),
}


def spectrum_verdict(r, m2, s2, s1, dd, part):
    """The rebuilt model must give the original spectrum.  When it does not and parameter values
    differ as well (each already reported as its own violation) the original values are put
    back on the rebuilt model: if that restores the spectrum the difference is a consequence of
    those reported values, otherwise it is a violation of its own."""
    if core.close(s2, s1, 1e-12):
        r.check(True, part + ':spectrum')
        return
    if not dd:
        r.eq(s2, s1, part + ':spectrum', part + '/spectrum/all-values-equal', rtol=1e-12)
        return
    try:
        for k, a, b in dd:
            if k.startswith('fit:') and a is not None and a != '<absent>':
                m2[k[4:]] = a
            elif k in REPAIR:
                REPAIR[k](m2, a)
        s2b = np.array(m2.model()[1], dtype=float)
    except Exception:
        s2b = None
    if s2b is not None and core.close(s2b, s1, 1e-12):
        r.count(part + ':spectrum-explained-by-reported-values')
        r.check(True, part + ':spectrum')
        return
    r.eq(s2, s1, part + ':spectrum', part + '/spectrum/not-explained-by-value-differences', rtol=1e-12,
         values=[k for k, _, _ in dd])


def set_factor(name):
    """deterministic factor in [1.03, 1.12] for 'set:<name>' (structure independent of the seed)."""
    return 1.03 + 0.09 * fx.rng('c16set', name).uniform()


def apply_set(m, name):
    old = m.fittingParameters[name][2]()
    if old is None:
        return False
    new = float(old) * set_factor(name)
    if name in ('alpha',):           # Guillot alpha must stay in (0,1)
        new = min(new, 0.95)
    m[name] = new
    return True


def model_case(case):
    r = core.R(case)
    fx.reset_caches()
    register_opacities()
    d = fx.fresh_dir('c16c')
    m1 = build_model(case)
    # a bystander: a second model of the same component classes with other values and other files, created after the
    # first and alive while the first is written and reloaded (nothing of it may end up in the first one's file)
    _BY[0] = True
    try:
        bystander = build_model(case)
    finally:
        _BY[0] = False
    hist = case.get('hist', 'fresh')
    if hist in ('setall', 'eval-setall'):
        if hist == 'eval-setall':
            m1.model()
        for name in sorted(m1.fittingParameters):
            apply_set(m1, name)
        if hist == 'eval-setall':
            m1.model()
    m2 = roundtrip(r, m1, 'm', d)
    if m2 is not None:
        refused_then_written(r, m1, d)
    if any(case.get(k, v) != v for k, v in DEFAULT_CFG.items()) or hist != 'fresh':
        r.nontrivial = True
    return r


def refused_then_written(r, m, d):
    """One open output: a write while the model is invalid (a mixing ratio above one) is refused; the parameter is put
    back and the same output is written again.  The file then holds the valid model exactly as a fresh file does."""
    from taurex.output.hdf5 import HDF5Output
    name = next((n for n in ('H2O', 'CH4') if n in m.fittingParameters), None)
    if name is None:
        r.count('c:refused-write-not-applicable')
        return
    back = m.fittingParameters[name][2]()
    want_s = np.array(m.model()[1], dtype=float)
    want_d = describe(m)
    path = os.path.join(d, 'refused.h5')
    try:
        with HDF5Output(path) as o:
            m.fittingParameters[name][3](1.5)
            try:
                m.write(o)
                refused = False
            except Exception:
                refused = True
            m.fittingParameters[name][3](back)
            if not refused:
                r.count('c:invalid-model-written')       # the writer does not validate: nothing to test here
                return
            m.write(o)
        m3 = load_model(path)
    except Exception as e:
        r.check(False, 'c:write', 'c/write-after-refused-write/%s' % type(e).__name__, exc=repr(e)[:300])
        return
    dd = desc_diff(want_d, describe(m3))
    r.check(not dd, 'c:values', 'c/value-after-refused-write', diff=dd[:5])
    r.eq(np.array(m3.model()[1], dtype=float), want_s, 'c:spectrum', 'c/spectrum-after-refused-write', rtol=1e-12)


# ------------------------------------------------------------------------------------------------
# E2: histories
# ------------------------------------------------------------------------------------------------
HIST_CFGS = [
    {'kind': 'T', 'temp': 'npoint2', 'gases': 'twolayer', 'contribs': 'abs+ray+clouds'},
    {'kind': 'E3', 'temp': 'guillot', 'gases': 'three', 'fill': 'H2HeN2', 'contribs': 'abs+cia+lee'},
    {'kind': 'T', 'temp': 'rodgers', 'gases': 'power', 'contribs': 'abs+flat', 'N': 4},
    {'kind': 'D2', 'temp': 'iso', 'gases': 'array', 'fill': 'H2', 'contribs': 'abs+cia1'},
]


def hist_case(case):
    """hist[0] = ['cfg', cfg]; then ['set', name] | ['reload'].  Two replays on fresh objects: with
    the reload operations executed (write -> load replaces the model) and with them skipped; the
    final states must agree (reload is the identity), and the final state must survive one more
    write -> load."""
    r = core.R(case)
    hist = case['hist']
    cfg = hist[0][1]
    d = fx.fresh_dir('c16h')

    def replay(with_reload):
        fx.reset_caches()
        register_opacities()
        m = build_model(cfg)
        m.model()
        for i, op in enumerate(hist[1:]):
            if op[0] == 'set':
                apply_set(m, op[1])
                m.model()
            elif op[0] == 'reload' and with_reload:
                f = os.path.join(d, 'h%d.h5' % i)
                write_model(m, f)
                m = load_model(f)
        return m
    has_reload = any(op[0] == 'reload' for op in hist[1:])
    try:
        mA = replay(True)
    except Exception as e:
        r.check(False, 'h:replay', 'h/raised/%s/%s' % (type(e).__name__, cfg.get('temp')), exc=repr(e)[:300])
        r.key = None
        return r
    sA = np.array(mA.model()[1], dtype=float)
    dA = describe(mA)
    if has_reload:
        mB = replay(False)
        sB = np.array(mB.model()[1], dtype=float)
        dd = desc_diff(describe(mB), dA)
        r.check(True, 'h:reload-identity')
        for k, a, b in dd:
            r.check(False, 'h:reload-identity', 'c/value/%s' % sig_key(k), key=k, without_reload=a, with_reload=b)
        spectrum_verdict(r, mA, sA, sB, dd, 'h')
        if dd:      # spectrum_verdict may have repaired mA: take the observation again
            sA = np.array(mA.model()[1], dtype=float)
            dA = describe(mA)
    roundtrip(r, mA, 'f', d, deep=(len(hist) <= 2))
    r.key = core.ohash(sorted(dA.items(), key=lambda kv: kv[0]), sA)
    r.extra = sorted(k for k, v in mA.fittingParameters.items() if v[2]() is not None)
    r.nontrivial = len(hist) > 1
    return r


def hist_ops(hist, extra):
    return [['set', n] for n in (extra or [])] + [['reload']]


# ================================================================================================
# (b) spectrum dictionaries
# ================================================================================================
GRIDS = {'g3': [900.0, 2200.0, 4400.0], 'g2': [1200.0, 3600.0], 'g4out': [300.0, 1100.0, 2900.0, 7000.0],
         'g5': [600.0, 1250.0, 2000.0, 3100.0, 5200.0],
         # the mid-points between these centres, and the upper end of the last bin, are native points (1500, 3000, 4500)
         'gedge': [750.0, 2250.0, 3750.0]}
WIDTHS = {'g3': [640.0, 910.0, 1530.0], 'g2': [1000.0, 2100.0], 'g4out': [150.0, 700.0, 1300.0, 900.0],
          'g5': [300.0, 410.0, 520.0, 930.0, 1840.0], 'gedge': [1500.0, 1500.0, 1500.0]}
BINNERS = ['native', 'simple', 'simpleW', 'flux', 'fluxW', 'fluxWrev', 'fluxS']


def make_binner(letter, grid):
    from taurex.binning import NativeBinner, SimpleBinner, FluxBinner
    g = np.array(GRIDS[grid])
    w = np.array(WIDTHS[grid])
    if letter == 'native':
        return NativeBinner(), None, None
    if letter == 'simple':
        return SimpleBinner(g.copy()), g, ref.midpoint_widths(g)
    if letter == 'simpleW':
        return SimpleBinner(g.copy(), wngrid_width=w.copy()), g, w
    if letter == 'flux':
        return FluxBinner(g.copy()), g, ref.midpoint_widths(g)
    if letter == 'fluxW':
        return FluxBinner(g.copy(), wngrid_width=w.copy()), g, w
    if letter == 'fluxWrev':      # observation given in wavelength order: descending wavenumber
        return FluxBinner(g[::-1].copy(), wngrid_width=w[::-1].copy()), g, w
    if letter == 'fluxS':         # one scalar width for all bins
        return FluxBinner(g.copy(), wngrid_width=float(w[0])), g, np.full(len(g), float(w[0]))
    raise ValueError(letter)


def spectrum_case(case):
    import h5py
    from taurex import OutputSize
    from taurex.output.hdf5 import HDF5Output
    r = core.R(case)
    fx.reset_caches()
    register_opacities()
    m = build_model({'kind': case['kind'], 'N': case['N'], 'temp': 'npoint0' if case['N'] > 1 else 'iso', 'gases': 'three',
                     'contribs': 'abs+ray+cia0'})
    res = m.model()
    wn, flux, tau = [np.array(x, dtype=float) for x in res[:3]]
    size = case['size']
    bl = case['binner']
    binner, egrid, ewidth = make_binner(bl, case['grid'])
    out = binner.generate_spectrum_output(res, output_size=OutputSize[size])
    cls = type(binner).__name__
    # what was computed
    r.check('native_wngrid' in out and ref.same_numbers(out['native_wngrid'], wn), 'b:native-grid',
            'b/native_wngrid/%s' % cls)
    r.check('native_spectrum' in out and ref.same_numbers(out['native_spectrum'], flux), 'b:native-spectrum',
            'b/native_spectrum/%s' % cls)
    r.eq(out.get('native_wlgrid'), ref.wl_of_wn(wn), 'b:wlgrid', 'b/native_wlgrid/%s' % cls, rtol=1e-14)
    # optical depths by output size
    want_native_tau = size == 'heavy'
    want_binned_tau = size != 'lighter' and bl != 'native'
    r.check(('native_tau' in out) == want_native_tau, 'b:tau-presence', 'b/native_tau-presence/%s/%s' % (cls, size),
            keys=sorted(out))
    r.check(('binned_tau' in out) == want_binned_tau, 'b:tau-presence', 'b/binned_tau-presence/%s/%s' % (cls, size),
            keys=sorted(out))
    if 'native_tau' in out:
        r.check(ref.same_numbers(out['native_tau'], tau), 'b:native-tau', 'b/native_tau/%s' % cls)
    names_with_tau = [k for k in out if 'tau' in k]
    r.check(set(names_with_tau) <= {'native_tau', 'binned_tau'}, 'b:tau-names', 'b/tau-names/%s' % cls,
            keys=names_with_tau)
    if bl != 'native':
        order = np.argsort(egrid)
        eg, ew = egrid[order], ewidth[order]
        ok_keys = all(k in out for k in ('binned_wngrid', 'binned_wlgrid', 'binned_wnwidth', 'binned_wlwidth',
                                         'binned_spectrum'))
        if r.check(ok_keys, 'b:binned-keys', 'b/binned-keys/%s' % cls, keys=sorted(out)):
            bg = np.array(out['binned_wngrid'], dtype=float)
            bw = np.array(out['binned_wnwidth'], dtype=float)
            o2 = np.argsort(bg)
            r.eq(bg[o2], eg, 'b:binned-grid', 'b/binned_wngrid/%s' % cls, rtol=1e-14)
            # the widths stored are those of the same bins (paired with their centres)
            r.eq(bw[o2] if bw.shape == bg.shape else bw, ew, 'b:binned-wnwidth', 'b/binned_wnwidth/%s' % bl,
                 rtol=1e-12)
            r.eq(out['binned_wlgrid'], ref.wl_of_wn(bg), 'b:wlgrid', 'b/binned_wlgrid/%s' % cls, rtol=1e-14)
            r.eq(out['binned_wlwidth'], ref.wlwidth_at_centre(bg, bw), 'b:binned-wlwidth',
                 'b/binned_wlwidth/%s' % cls, rtol=1e-12)
            fresh = make_binner(bl, case['grid'])[0]
            g_, s_, _, w_ = fresh.bindown(np.array(out['native_wngrid']), np.array(out['native_spectrum']))
            r.check(ref.same_numbers(g_, bg), 'b:binned-spectrum', 'b/binned_spectrum-grid/%s' % cls)
            r.check(ref.same_numbers(out['binned_spectrum'], s_, exact=False, rtol=1e-12), 'b:binned-spectrum',
                    'b/binned_spectrum/%s' % cls, got=out['binned_spectrum'], want=s_)
            if 'binned_tau' in out:
                t_ = fresh.bindown(wn.copy(), tau.copy())[1]
                r.check(ref.same_numbers(out['binned_tau'], t_, exact=False, rtol=1e-12), 'b:binned-tau',
                        'b/binned_tau/%s' % cls)
    # the per-source results stored next to the spectrum: each source's entry holds what model_contrib() computed
    # for that source, each component's entry what model_full_contrib() computed for that component
    if case.get('contribs', True):
        from taurex.util.output import store_contributions
        try:
            sc = store_contributions(binner, m, output_size=OutputSize[size])
            _, cd = m.model_contrib()
            _, fd = m.model_full_contrib()
        except Exception as e:
            sc = None
            r.check(False, 'b:contributions', 'b/contributions/raised/%s/%s' % (type(e).__name__, cls), exc=repr(e))
        if sc is not None:
            r.check(sorted(sc) == sorted(cd), 'b:contributions', 'b/contributions/names/%s' % cls, got=sorted(sc),
                    want=sorted(cd))
            for cname in sorted(cd):
                if cname not in sc:
                    continue
                e_ = sc[cname]
                r.check('native_spectrum' in e_ and ref.same_numbers(e_['native_spectrum'], np.asarray(cd[cname][0], float),
                                                                      exact=False, rtol=1e-12),
                        'b:contributions', 'b/contributions/source-spectrum/%s' % cls, source=cname)
                if 'native_tau' in e_:
                    r.check(ref.same_numbers(e_['native_tau'], np.asarray(cd[cname][1], float), exact=False, rtol=1e-12),
                            'b:contributions', 'b/contributions/source-tau/%s' % cls, source=cname)
                if bl != 'native' and 'binned_spectrum' in e_:
                    fb_ = make_binner(bl, case['grid'])[0]
                    r.check(ref.same_numbers(e_['binned_spectrum'], fb_.bindown(wn.copy(), np.asarray(cd[cname][0], float))[1],
                                             exact=False, rtol=1e-12), 'b:contributions',
                            'b/contributions/source-binned/%s' % cls, source=cname)
                for comp in fd.get(cname, []):
                    ce = e_.get(comp[0])
                    if not r.check(isinstance(ce, dict) and 'native_spectrum' in ce, 'b:contributions',
                                   'b/contributions/component-missing/%s' % cls, source=cname, component=comp[0]):
                        continue
                    r.check(ref.same_numbers(ce['native_spectrum'], np.asarray(comp[1], float), exact=False, rtol=1e-12),
                            'b:contributions', 'b/contributions/component-spectrum/%s' % cls, source=cname,
                            component=comp[0])
        # ... and as the program itself asks for them (the requested size reduced by three, a plain integer): no entry of
        # any source or component holds more optical depths than that reduced level allows
        try:
            sc_min = store_contributions(binner, m, output_size=OutputSize[size] - 3)
            def _tau_keys(dct, pre=''):
                out_ = []
                for k_, v_ in dct.items():
                    if isinstance(v_, dict):
                        out_ += _tau_keys(v_, pre + k_ + '/')
                    elif 'tau' in k_:
                        out_.append(pre + k_)
                return out_
            tk = _tau_keys(sc_min)
            lvl = int(OutputSize[size]) - 3         # a plain integer: heavy - 3 is the size 'light', the others lie below
            allowed = set()
            if lvl > int(OutputSize.lighter) and bl != 'native':
                allowed.add('binned_tau')
            if lvl > int(OutputSize.light):
                allowed.add('native_tau')
            extra_tau = [k_ for k_ in tk if k_.split('/')[-1] not in allowed]
            r.check(not extra_tau, 'b:contributions', 'b/contributions/tau-beyond-reduced-size/%s' % cls,
                    keys=extra_tau[:6], level=lvl)
        except Exception as e:
            r.check(False, 'b:contributions', 'b/contributions/raised-minimal/%s/%s' % (type(e).__name__, cls), exc=repr(e))
    # the dictionary goes to a file and comes back unchanged
    fn = os.path.join(fx.fresh_dir('c16b'), 's.h5')
    snapshot = dict((k, np.array(v, copy=True)) for k, v in out.items())
    with HDF5Output(fn) as o:
        o.store_dictionary(out, group_name='Spectra')
    with h5py.File(fn, 'r') as f:
        read = ref.h5_tree(f['Spectra'])
    r.check(True, 'b:file')
    for path, kind, why in ref.tree_diff(read, snapshot):
        r.check(False, 'b:file', 'b/file/%s%s' % (kind, path), why=why)
    r.observe(out.get('binned_spectrum'), out.get('binned_wlwidth'), sorted(out), flux)
    # the SAME binner object then describes a second result on a different native grid with the same number of
    # points (as a run over several models does): the second dictionary must describe its own grid, and the first
    # dictionary must still hold what it held
    # ... first on a grid with the same point count AND the same first and last point as before, spaced differently
    flux2 = flux[::-1] * 1.01
    if len(wn) > 2:
        span = wn[-1] - wn[0]
        wn3 = wn[0] + span * ((wn - wn[0]) / span) ** 1.4
        wn3[0], wn3[-1] = wn[0], wn[-1]
        out3 = binner.generate_spectrum_output((wn3, flux2, tau, None), output_size=OutputSize[size])
        r.check(ref.same_numbers(out3.get('native_wngrid'), wn3), 'b:second-output', 'b/third/native_wngrid/%s' % cls)
        if bl != 'native' and 'binned_spectrum' in out3:
            fresh3 = make_binner(bl, case['grid'])[0]
            r.check(ref.same_numbers(out3['binned_spectrum'], fresh3.bindown(wn3.copy(), flux2.copy())[1], exact=False,
                                     rtol=1e-12), 'b:second-output', 'b/third/binned_spectrum/%s' % cls)
            if 'binned_tau' in out3:
                r.check(ref.same_numbers(out3['binned_tau'], fresh3.bindown(wn3.copy(), tau.copy())[1], exact=False,
                                         rtol=1e-12), 'b:second-output', 'b/third/binned_tau/%s' % cls)
    # ... a result whose native points come in two ascending blocks, the higher block first (two opacity sources
    # concatenated): what is stored is what the binner gives for exactly those arrays - and for the same points sorted
    if len(wn) > 3 and bl != 'native':
        h_ = len(wn) // 2
        ix = np.concatenate([np.arange(h_, len(wn)), np.arange(0, h_)])
        wn4, fl4, tau4 = wn[ix].copy(), flux[ix].copy(), tau[..., ix].copy()
        try:
            out4 = binner.generate_spectrum_output((wn4, fl4, tau4, None), output_size=OutputSize[size])
            fresh4 = make_binner(bl, case['grid'])[0]
            r.check(ref.same_numbers(out4['binned_spectrum'], fresh4.bindown(wn4.copy(), fl4.copy())[1], exact=False,
                                     rtol=1e-12), 'b:second-output', 'b/blocks/binned_spectrum/%s' % cls)
            r.check(ref.same_numbers(out4['binned_spectrum'], fresh4.bindown(wn.copy(), flux.copy())[1], exact=False,
                                     rtol=1e-12), 'b:second-output', 'b/blocks/binned_spectrum-vs-sorted/%s' % cls)
            if 'binned_tau' in out4:
                r.check(ref.same_numbers(out4['binned_tau'], fresh4.bindown(wn.copy(), tau.copy())[1], exact=False,
                                         rtol=1e-12), 'b:second-output', 'b/blocks/binned_tau-vs-sorted/%s' % cls)
        except Exception as e:
            r.check(False, 'b:second-output', 'b/blocks/raised/%s/%s' % (type(e).__name__, cls), exc=repr(e))
    # ... then on a grid with other end points
    wn2 = wn * (1.0 + 0.013 * np.arange(len(wn)) / max(len(wn) - 1, 1)) + 3.0
    out2 = binner.generate_spectrum_output((wn2, flux2, tau, None), output_size=OutputSize[size])
    r.check(ref.same_numbers(out2.get('native_wngrid'), wn2), 'b:second-output', 'b/second/native_wngrid/%s' % cls)
    r.eq(out2.get('native_wlgrid'), ref.wl_of_wn(wn2), 'b:second-output', 'b/second/native_wlgrid/%s' % cls, rtol=1e-14)
    if 'native_wnwidth' in out2 and len(wn2) > 1:
        from mc.ref import binning as _rb
        r.eq(out2['native_wnwidth'], _rb.midpoint_widths(wn2), 'b:second-output', 'b/second/native_wnwidth/%s' % cls,
             rtol=1e-12)
    if bl != 'native' and 'binned_spectrum' in out2:
        fresh2 = make_binner(bl, case['grid'])[0]
        s2_ = fresh2.bindown(wn2.copy(), flux2.copy())[1]
        r.check(ref.same_numbers(out2['binned_spectrum'], s2_, exact=False, rtol=1e-12), 'b:second-output',
                'b/second/binned_spectrum/%s' % cls)
    for k, v in snapshot.items():
        r.check(ref.same_numbers(out[k], v), 'b:first-output-intact', 'b/first-output-overwritten/%s' % cls, key=k)
    r.nontrivial = bl != 'native' or size != 'heavy'
    return r


# ================================================================================================
def explore(ctx):
    thorough = ctx.tier == 'thorough'
    # (a)
    ca = dict_cases(ctx.tier)
    ctx.run_cases('dict_case', ca, phase='a')
    ctx.bounds['a.leaf_letters'] = len(LEAF_NAMES)
    ctx.bounds['a.depth'] = 3
    ctx.bounds['a.cases'] = len(ca)
    # (b)
    kinds = ['T', 'E3', 'D2']
    grids = ['g3', 'g2', 'g4out', 'g5', 'gedge'] if thorough else ['g3', 'g4out', 'gedge']
    Ns = [1, 2, 6] if thorough else [2, 6]
    cb = []
    for bl, size, kind, N, grid in itertools.product(BINNERS, ['heavy', 'light', 'lighter'], kinds, Ns, grids):
        if bl == 'native' and grid != grids[0]:
            continue
        cb.append({'binner': bl, 'size': size, 'kind': kind, 'N': N, 'grid': grid})
    ctx.run_cases('spectrum_case', cb, phase='b')
    ctx.bounds['b.cases'] = len(cb)
    # (c) E1
    dims = {
        'kind': ['T', 'Tnew', 'E3', 'D2'],
        'temp': ['iso', 'guillot', 'npoint0', 'npoint1P', 'npoint2', 'rodgers', 'rodgersC', 'tfile', 'tarray',
                 'tarrayP'],
        'press': ['simple', 'array', 'file', 'array-reversed', 'file-tab'],
        'gases': ['h2o', 'three', 'twolayer', 'power', 'array', 'twopoint', 'chemfile'],
        'fill': ['H2He', 'H2', 'H2HeN2', 'He', 'CH4H2'],
        'contribs': ['abs', 'abs+ray', 'abs+cia', 'abs+clouds', 'abs+lee', 'abs+flat', 'all'],
        'hist': ['fresh', 'setall', 'eval-setall'] if thorough else ['fresh', 'setall'],
    }
    if thorough:
        cc = core.product_cases(dims, core=['kind', 'temp', 'press', 'gases', 'contribs'], d=3)
        ctx.bounds['c.deviations'] = 3
        ctx.bounds['c.full_product_over'] = 'kind x temp x press x gases x contribs'
    else:
        cc = core.product_cases(dims, core=['kind', 'temp'], d=2)
        ctx.bounds['c.deviations'] = 2
    ctx.run_cases('model_case', cc, phase='c')
    ctx.bounds['c.cases'] = len(cc)
    # (c) E2
    roots = [[['cfg', c]] for c in (HIST_CFGS if thorough else HIST_CFGS[1:3])]
    ctx.bounds['h.configurations'] = len(roots)
    ctx.bfs('hist_case', roots, hist_ops, depth=2, phase='h')
    if thorough:
        ctx.bfs('hist_case', [[['cfg', HIST_CFGS[2]]]], hist_ops, depth=3, phase='h3')
