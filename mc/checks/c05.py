"""C05 - spectral binning is an overlap-weighted mean (DESIGN.md section 4, C05).

Engine E1.  Every case drives the real FluxBinner / SimpleBinner / NativeBinner over a complete
finite family of (native grid, target bins, spectrum, error, order) and compares every returned
number with mc.ref.binning (O(n*m) overlap weights, no sorting, no searching).

Families (one case = one (family, native grid letter, n, width mode[, slice]) and loops inside):
  single  every bin [a,b] of the target lattice as a 1-bin binner
  all     all lattice bins in one binner (overlapping, nested, touching, outside), three target orders,
          every spectrum letter x error letter in 1-D, the stack in 2-D (with and without 2-D errors)
  pairs   every ORDERED pair of bins of the coarse lattice as a 2-bin binner
  triples a tiling of the native range by 3 bins, <= 2 of its 6 edges moved over the lattice, all 6 orders
  auto    target widths None / scalar: every ordered 2- and 3-subset of a centre lattice
  perm    EVERY permutation of the native points (grid_width and error permuted with them)
  simple  SimpleBinner: every 2-/3-subset of an offset centre lattice x every native permutation, 1-D/2-D
  native  NativeBinner identity
"""
import itertools

import numpy as np

from mc import core, fixtures as fx
from mc.ref import binning as ref

ID = 'C05'
RULE = ('native grid letter (uniform, log, constant-R from create_grid_res, explicit widths with a gap, explicit '
        'unequal widths) x n=2..6 x native width mode (None -> mid-point widths, explicit) x family; inside a case '
        'the complete target family is enumerated: all bins [a,b] over the lattice {lo_i, lo_i+w_i/4, c_i, hi_i, gap '
        'mid-points, two points beyond each end} (1-bin binners and all at once), all ordered pairs on the coarse '
        'lattice, tilings with <=2 moved edges in all 6 orders, all ordered 2-/3-subsets of centres with None/scalar '
        'width, all permutations of the native points, SimpleBinner on all 2-/3-subsets of an offset centre lattice x '
        'all native permutations.  Spectra: constant, ramp, a spike at each position, two seeded generic, a linear '
        'combination of them, and the 2-D stack of all; errors None/constant/distinct/2-D.  A case is non-trivial '
        'when some target bin overlaps >= 2 native bins of different value with different overlap lengths.')
ASSUME = ['numpy trusted',
          'a native bin is [c-w/2, c+w/2]; with grid_width=None w is the mid-point width (documented default); '
          'only native grids whose lower and upper edges are both ascending are enumerated',
          'nothing is demanded of target bins whose total overlap with the native bins is <= 1e-9 of their width '
          '(touching / outside / inside a gap) except that no exception is raised',
          'SimpleBinner: targets ascending, >= 2 bins; nothing demanded of empty bins; a native point exactly on an '
          'edge may go to either side',
          'small-scope hypothesis: n <= 6 native points, <= 3 target bins per binner except the all-at-once family']

A_LIN, B_LIN = 2.5, -0.75
TOUCH = 1e-9


# ----------------------------------------------------------------------------------------------
# alphabets
# ----------------------------------------------------------------------------------------------
GRIDS = ['uniform', 'log', 'constR', 'gap', 'unequal', 'wide']


def native(letter, n):
    """(centres ascending, explicit widths)."""
    if letter == 'uniform':
        c = 10.0 + 2.0 * np.arange(n)
        w = np.full(n, 2.0)
    elif letter == 'log':
        c = 10.0 * 2.0 ** np.arange(n)
        w = c / 2.0                                  # R = 2, gaps between the bins
    elif letter == 'constR':
        from taurex.util.util import create_grid_res     # only as a generator of a documented grid
        g = create_grid_res(3.0, 10.0, 1e4)[:n]
        c, w = g[:, 0].copy(), g[:, 1].copy()
    elif letter == 'gap':
        c = np.array([10.0, 14.0, 16.0, 18.0, 20.0, 22.0])[:n]
        w = np.full(n, 2.0)
    elif letter == 'unequal':
        c = np.array([10.0, 13.0, 15.0, 20.0, 23.5, 26.5])[:n]
        w = np.array([2.0, 3.0, 1.0, 6.0, 1.0, 1.0])[:n]
    elif letter == 'wide':
        # an oversampled spectrum: every native bin is three and a half times as wide as the spacing of the centres (it
        # reaches beyond the centres of its neighbours on both sides)
        c = 10.0 + 2.0 * np.arange(n)
        w = np.full(n, 7.0)
    elif letter == 'unequal2':
        # same point count and the same first and last centre as 'unequal', other interior points (reuse phase only)
        c = np.array([10.0, 12.5, 16.0, 19.0, 24.0, 26.5])[:n]
        w = np.array([2.0, 2.0, 3.0, 2.0, 2.0, 1.0])[:n]
    else:
        raise ValueError(letter)
    return c, w


def eff_width(c, w, gw):
    return np.array(w, float) if gw == 'explicit' else ref.midpoint_widths(c)


def check_pre(c, w):
    lo, hi = c - w / 2, c + w / 2
    if not (np.all(np.diff(lo) >= 0) and np.all(np.diff(hi) >= 0) and np.all(w > 0)):
        raise AssertionError('alphabet letter is not an ordered native grid')


def lattice(c, w, fine=True):
    lo, hi = c - w / 2, c + w / 2
    pts = list(lo) + list(c) + list(hi)
    if fine:
        pts += list(lo + w / 4)
    for i in range(len(c) - 1):
        if lo[i + 1] > hi[i]:
            pts.append((hi[i] + lo[i + 1]) / 2)
    pts += [lo[0] - w[0], lo[0] - w[0] / 2, hi[-1] + w[-1] / 2, hi[-1] + w[-1]]
    return np.unique(np.array(pts, float))


def bins_of(lat):
    """all [a,b], a<b -> arrays (centre, width) ordered by (a, b)."""
    tc, tw = [], []
    for a, b in itertools.combinations(lat, 2):
        tc.append((a + b) / 2)
        tw.append(b - a)
    return np.array(tc), np.array(tw)


def spectra(letter, n):
    g = fx.rng('c05', 'spec', letter, n)
    g1 = g.uniform(0.5, 2.0, n)
    g2 = g.uniform(0.5, 2.0, n)
    rows = [('const', np.full(n, 3.0)), ('ramp', 1.0 + np.arange(n))]
    for k in range(n):
        s = np.zeros(n)
        s[k] = 1.0
        rows.append(('spike%d' % k, s))
    rows += [('g1', g1), ('g2', g2), ('lin', A_LIN * g1 + B_LIN * g2)]
    # eight decades per native point (a Planck tail): every bin is the mean of ITS points, whatever lies to its left
    rows.append(('decades', 10.0 ** (-8.0 * np.arange(n))))
    names = [a for a, _ in rows]
    return names, np.array([b for _, b in rows])


def errors(letter, n, k):
    g = fx.rng('c05', 'err', letter, n)
    d = 0.05 * (1.0 + np.arange(n)) * g.uniform(0.8, 1.25, n)
    e2 = np.array([d * (1.0 + 0.5 * j) + 0.01 * ((j * 7 + np.arange(n) * 3) % 5) for j in range(k)])
    return {'none': None, 'const': np.full(n, 0.1), 'distinct': d, '2d': e2}


def pos_class(a, b, L, H):
    def rel(x):
        return '<L' if x < L else '=L' if x == L else 'in' if x < H else '=H' if x == H else '>H'
    return 'a%s,b%s' % (rel(a), rel(b))


# ----------------------------------------------------------------------------------------------
# one comparison of a real FluxBinner.bindown call with the reference
# ----------------------------------------------------------------------------------------------
def flux_call(r, fb, exp_tc, exp_tw, c, w_eff, gw_arg, s, e, tag, fam, pos='', names=None, observe=True):
    """c, s, e, gw_arg are handed to the implementation as they are (possibly shuffled); w_eff are
    the widths the native points really have (same order as c).  Returns the binned value or None."""
    s = np.asarray(s)
    dim = s.ndim
    ekind = 'none' if e is None else ('2d' if np.ndim(e) == 2 else '1d')
    cls = '%s/%s,dim=%d' % (fam, tag, dim)
    # 2-D errors: one structural class whatever the family (the mechanism is family-independent)
    ecls = 'dim=2,err=2d' if ekind == '2d' else '%s/%s,dim=%d,err=%s' % (fam, tag, dim, ekind)
    sfx = ('/' + pos) if pos else ''
    args = (c.copy(), s.copy(), None if gw_arg is None else np.array(gw_arg, float),
            None if e is None else np.array(e, float))
    try:
        out = fb.bindown(*args)
    except Exception as ex:
        r.check(False, 'no-exception', 'flux/raised/%s/%s%s' % (type(ex).__name__, ecls, '' if ekind == '2d' else sfx),
                exc=repr(ex), c=c, s=s, e=e, gw=gw_arg, tc=exp_tc, tw=exp_tw)
        return None
    # inputs untouched
    r.check(np.array_equal(args[0], c) and np.array_equal(args[1], s), 'inputs-unchanged',
            'flux/inputs-mutated/' + cls)
    if not r.check(isinstance(out, tuple) and len(out) == 4, 'shape', 'flux/return-arity/' + cls):
        return None
    g_tc, g_val, g_err, g_tw = out
    g_tc = np.asarray(g_tc, float)
    g_tw = np.asarray(g_tw, float)
    m = len(exp_tc)
    # returned grid/width: the constructor's bins, centres ascending, each width with its centre
    want_pairs = sorted(zip(exp_tc.tolist(), exp_tw.tolist()))
    ok = g_tc.shape == (m,) and g_tw.shape == (m,)
    if ok:
        got_pairs = sorted(zip(g_tc.tolist(), g_tw.tolist()))
        ok = bool(np.all(np.diff(g_tc) >= 0)) and core.close(np.array(got_pairs), np.array(want_pairs), 1e-12)
    if not r.check(ok, 'grid', 'flux/grid/%s' % cls, got_grid=g_tc, got_width=g_tw, want=want_pairs):
        return None
    g_val = np.asarray(g_val, float)
    if not r.check(g_val.shape == s.shape[:-1] + (m,), 'shape', 'flux/shape/' + cls, got=g_val.shape):
        return None
    if observe:
        r.observe(g_val, g_err)
    val, err, sumw, W = ref.overlap_bin(c, w_eff, s, g_tc, g_tw, e)
    live = sumw > TOUCH * g_tw
    r.count('target-bins-overlapping', int(live.sum()))
    r.count('target-bins-not-overlapping', int((~live).sum()))
    if not live.any():
        return g_val
    scale = float(np.max(np.abs(s))) if s.size else 1.0
    if not r.eq(g_val[..., live], val[..., live], 'value', 'flux/value/%s%s' % (cls, sfx), atol=1e-13 * scale,
                c=c, w=w_eff, gw=gw_arg, s=s, tc=g_tc, tw=g_tw):
        return g_val
    # consequences named in the statement (cross-checks of implementation AND oracle)
    lo, hi = ref.overlap_bounds(s, W)
    # DESIGN 2.8 says 4 eps; a normalised 6-term weighted sum can legitimately be off by ~(n+2) ulp, so 16 eps
    slack = 16 * np.finfo(float).eps * max(scale, 1.0)
    r.check(bool(np.all(g_val[..., live] >= lo[..., live] - slack) and np.all(g_val[..., live] <= hi[..., live] + slack)),
            'bounds', 'flux/bounds/%s%s' % (cls, sfx), got=g_val, lo=lo, hi=hi)
    if names is not None and dim == 2:
        i0 = names.index('const')
        r.eq(g_val[i0][live], s[i0][0] * np.ones(int(live.sum())), 'constant', 'flux/constant/%s%s' % (cls, sfx), rtol=1e-12)
        ia, ib, il = names.index('g1'), names.index('g2'), names.index('lin')
        r.eq(g_val[il][live], A_LIN * g_val[ia][live] + B_LIN * g_val[ib][live], 'linearity',
             'flux/linearity/%s%s' % (cls, sfx), atol=1e-12 * scale)
        # verdict depended on unequal weights over unequal values?
        ir = names.index('ramp')
        for j in np.nonzero(live)[0]:
            ww = W[j][W[j] > 0]
            if len(ww) >= 2 and np.ptp(ww) > 0:
                r.nontrivial = True
                break
    if e is None:
        r.check(g_err is None, 'error', 'flux/error-not-none/' + cls)
    else:
        g_err = np.asarray(g_err, float) if g_err is not None else None
        if r.check(g_err is not None and g_err.shape == np.shape(e)[:-1] + (m,), 'shape',
                   'flux/error-shape/' + ecls, got=None if g_err is None else g_err.shape):
            r.eq(g_err[..., live], err[..., live], 'error', 'flux/error/%s%s' % (ecls, '' if ekind == '2d' else sfx),
                 c=c, w=w_eff, e=e, tc=g_tc, tw=g_tw)
    return g_val


def make_flux(tc, tw):
    from taurex.binning import FluxBinner
    return FluxBinner(np.array(tc, float), None if tw is None else (tw if np.isscalar(tw) else np.array(tw, float)))


def setup(case):
    fx.reset_caches()
    letter, n, gw = case['grid'], case['n'], case['gw']
    c, w = native(letter, n)
    w_eff = eff_width(c, w, gw)
    check_pre(c, w_eff)
    gw_arg = w.copy() if gw == 'explicit' else None
    names, S = spectra(letter, n)
    E = errors(letter, n, S.shape[0])
    return c, w_eff, gw_arg, names, S, E


# ----------------------------------------------------------------------------------------------
# families
# ----------------------------------------------------------------------------------------------
def fam_single(case):
    r = core.R(case)
    c, w_eff, gw_arg, names, S, E = setup(case)
    lat = lattice(c, w_eff)
    L, H = (c - w_eff / 2)[0], (c + w_eff / 2)[-1]
    tag = 'nat=sorted,gw=%s' % case['gw']
    ig = names.index('g1')
    for a, b in itertools.combinations(lat, 2):
        tc, tw = np.array([(a + b) / 2]), np.array([b - a])
        pos = pos_class(tc[0] - tw[0] / 2, tc[0] + tw[0] / 2, L, H)
        flux_call(r, make_flux(tc, tw), tc, tw, c, w_eff, gw_arg, S, None, tag, 'single', pos, names)
        flux_call(r, make_flux(tc, tw), tc, tw, c, w_eff, gw_arg, S[ig], E['distinct'], tag, 'single', pos)
    # scalar width for a 1-bin binner
    tc, tw = np.array([(L + H) / 2]), np.array([(H - L) / 2])
    flux_call(r, make_flux(tc, float(tw[0])), tc, tw, c, w_eff, gw_arg, S, None, tag, 'single-scalar', '', names)
    return r


def fam_all(case):
    r = core.R(case)
    c, w_eff, gw_arg, names, S, E = setup(case)
    tc, tw = bins_of(lattice(c, w_eff))
    m = len(tc)
    tag = 'nat=sorted,gw=%s' % case['gw']
    orders = {'given': np.arange(m), 'reversed': np.arange(m)[::-1],
              'strided': np.array([(7 * i + 3) % m for i in range(m)]) if m % 7 else np.roll(np.arange(m), m // 3)}
    for oname, o in orders.items():
        fb = make_flux(tc[o], tw[o])
        flux_call(r, fb, tc, tw, c, w_eff, gw_arg, S, None, tag, 'all', '', names)
        flux_call(r, fb, tc, tw, c, w_eff, gw_arg, S, E['2d'], tag, 'all', '', names, observe=False)
        if oname != 'given':
            continue
        for i, nm in enumerate(names):
            if case.get('lite') and nm.startswith('spike') and nm != 'spike0':
                continue                      # quick tier: the other spikes only inside the 2-D stack
            for ek in ('none', 'const', 'distinct'):
                flux_call(r, fb, tc, tw, c, w_eff, gw_arg, S[i], E[ek], tag, 'all', '', observe=False)
        # bin_model(model_output) is bindown(model_output[0], model_output[1])
        if case['gw'] == 'none':
            got = fb.bin_model((c.copy(), S[names.index('g1')].copy(), None, None))
            want = fb.bindown(c.copy(), S[names.index('g1')].copy())
            r.check(all(np.array_equal(np.asarray(x, float), np.asarray(y, float), equal_nan=True) if x is not None
                        else y is None for x, y in zip(got, want)), 'bin_model', 'flux/bin_model')
    return r


def fam_pairs(case):
    r = core.R(case)
    c, w_eff, gw_arg, names, S, E = setup(case)
    tc, tw = bins_of(lattice(c, w_eff, fine=False))
    tag = 'nat=sorted,gw=%s' % case['gw']
    i = case['first']
    ia, ib = names.index('g1'), names.index('g2')
    if i >= len(tc):
        return r
    for j in range(len(tc)):
        if j == i:
            continue
        ptc, ptw = np.array([tc[i], tc[j]]), np.array([tw[i], tw[j]])
        flux_call(r, make_flux(ptc, ptw), ptc, ptw, c, w_eff, gw_arg, S, None, tag, 'pairs', '', names)
        # 2 spectra x 2 target bins with 2-D errors (square shapes hide axis mix-ups behind broadcasting)
        if j > i:
            flux_call(r, make_flux(ptc, ptw), ptc, ptw, c, w_eff, gw_arg, S[[ia, ib]], E['2d'][:2], tag, 'pairs', '',
                      observe=False)
    return r


def n_pairs_bins(letter, n, gw):
    c, w = native(letter, n)
    return len(bins_of(lattice(c, eff_width(c, w, gw), fine=False))[0])


def fam_triples(case):
    r = core.R(case)
    c, w_eff, gw_arg, names, S, E = setup(case)
    lat = lattice(c, w_eff, fine=False)
    L, H = (c - w_eff / 2)[0], (c + w_eff / 2)[-1]
    inner = [x for x in lat if L < x < H]
    k1, k2 = inner[len(inner) // 3], inner[(2 * len(inner)) // 3]
    base = [L, k1, k1, k2, k2, H]                       # edges a1,b1,a2,b2,a3,b3 of the tiling
    tag = 'nat=sorted,gw=%s' % case['gw']
    seen = set()
    ig = names.index('g1')
    for nd in range(0, case['d'] + 1):
        for posn in itertools.combinations(range(6), nd):
            for vals in itertools.product(lat, repeat=nd):
                ed = list(base)
                for p, v in zip(posn, vals):
                    ed[p] = v
                if not all(ed[2 * q] < ed[2 * q + 1] for q in range(3)):
                    continue
                key = tuple(ed)
                if key in seen:
                    continue
                seen.add(key)
                tc = np.array([(ed[2 * q] + ed[2 * q + 1]) / 2 for q in range(3)])
                tw = np.array([ed[2 * q + 1] - ed[2 * q] for q in range(3)])
                for o in itertools.permutations(range(3)):
                    o = list(o)
                    fb = make_flux(tc[o], tw[o])
                    flux_call(r, fb, tc, tw, c, w_eff, gw_arg, S, None, tag, 'triples', '', names)
                    if o == [2, 0, 1]:
                        flux_call(r, fb, tc, tw, c, w_eff, gw_arg, S[ig], E['distinct'], tag, 'triples', '')
    r.count('triples', len(seen))
    return r


def fam_auto(case):
    """target widths None (mid-points of the sorted centres) and scalar."""
    r = core.R(case)
    c, w_eff, gw_arg, names, S, E = setup(case)
    L, H = (c - w_eff / 2)[0], (c + w_eff / 2)[-1]
    cl = np.unique(np.concatenate([[L - w_eff[0], L, H, H + w_eff[-1]], c, (c[1:] + c[:-1]) / 2, c + w_eff / 4]))
    if len(cl) > case['maxc']:
        sel = np.unique(np.round(np.linspace(0, len(cl) - 1, case['maxc'])).astype(int))
        cl = cl[sel]
    tag = 'nat=sorted,gw=%s' % case['gw']
    ig = names.index('g1')
    for k in (2, 3):
        for sub in itertools.permutations(range(len(cl)), k):
            tc = cl[list(sub)]
            tw = ref.midpoint_widths(tc)
            flux_call(r, make_flux(tc, None), tc, tw, c, w_eff, gw_arg, S, None, tag, 'auto-none', '', names)
            if list(sub) == sorted(sub):
                for sw in (0.75 * w_eff[0], 2.5 * w_eff[0]):
                    flux_call(r, make_flux(tc, float(sw)), tc, np.full(k, sw), c, w_eff, gw_arg, S[ig],
                              E['distinct'], tag, 'auto-scalar', '')
                    if np.all(tc == np.round(tc)):
                        # whole-number centres handed over as an integer array (np.arange), fractional scalar width
                        from taurex.binning import FluxBinner
                        flux_call(r, FluxBinner(tc.astype(np.int64), float(sw)), tc, np.full(k, sw), c, w_eff, gw_arg,
                                  S[ig], E['distinct'], tag, 'auto-scalar-intgrid', '')
                        flux_call(r, FluxBinner(tc.astype(np.int64)), tc, ref.midpoint_widths(tc), c, w_eff, gw_arg,
                                  S[ig], None, tag, 'auto-none-intgrid', '')
    return r


def probe_targets(c, w_eff):
    """a fixed multi-bin target: partial, narrower than native, wider, nested, outside, touching."""
    lo, hi = c - w_eff / 2, c + w_eff / 2
    L, H = lo[0], hi[-1]
    ed = [(L, H), (L - w_eff[0] / 2, c[0]), (c[0], c[-1]), (lo[-1] + w_eff[-1] / 4, H + w_eff[-1]),
          (lo[0] + w_eff[0] / 4, c[0]), (c[0], hi[0] + (lo[1] - hi[0]) / 2 + w_eff[1] / 4),
          (H, H + 1.0), (L - 2.0, L - 1.0), (c[len(c) // 2] - w_eff[len(c) // 2] / 4, hi[-1])]
    tc = np.array([(a + b) / 2 for a, b in ed])
    tw = np.array([b - a for a, b in ed])
    return tc, tw


def fam_perm(case):
    r = core.R(case)
    c, w_eff, gw_arg, names, S, E = setup(case)
    n = len(c)
    tc, tw = probe_targets(c, w_eff)
    fb = make_flux(tc, tw)
    ig = names.index('g1')
    perms = list(itertools.permutations(range(n)))
    lo_, hi_ = case.get('slice', [0, len(perms)])
    base = {}
    for p in perms[lo_:hi_]:
        p = list(p)
        tag = 'nat=%s,gw=%s' % ('sorted' if p == sorted(p) else 'shuffled', case['gw'])
        gp = None if gw_arg is None else gw_arg[p]
        v2 = flux_call(r, fb, tc, tw, c[p], w_eff[p], gp, S[:, p], None, tag, 'perm', '', names)
        for ek in ('const', 'distinct'):
            flux_call(r, fb, tc, tw, c[p], w_eff[p], gp, S[ig][p], E[ek][p], tag, 'perm', '', observe=False)
        flux_call(r, fb, tc, tw, c[p], w_eff[p], gp, S[:, p], E['2d'][:, p], tag, 'perm', '', names, observe=False)
        if gp is not None:
            # the native widths handed over as a plain list / tuple instead of an array: the same bins
            base_ = np.asarray(fb.bindown(c[p].copy(), S[ig][p].copy(), np.array(gp, float), E['distinct'][p].copy())[1:3], float)
            for conv, cname in ((list, 'list'), (tuple, 'tuple')):
                try:
                    alt = np.asarray(fb.bindown(c[p].copy(), S[ig][p].copy(), conv(float(v) for v in gp),
                                                E['distinct'][p].copy())[1:3], float)
                    r.check(bool(np.array_equal(alt, base_, equal_nan=True)), 'width-container',
                            'flux/width-container/%s/%s' % (cname, tag), got=alt, want=base_)
                except Exception as ex:
                    r.check(False, 'no-exception', 'flux/raised/%s/width-%s' % (type(ex).__name__, cname), exc=repr(ex))
        # bin_model (the tuple a forward model returns) gives what bindown gives, in any native order
        try:
            bm = np.asarray(fb.bin_model((c[p].copy(), S[ig][p].copy(), None, None))[1], float)
            bd = np.asarray(fb.bindown(c[p].copy(), S[ig][p].copy())[1], float)
            r.check(bool(np.array_equal(bm, bd, equal_nan=True)), 'bin-model', 'flux/bin_model-differs/%s' % tag, got=bm, want=bd)
        except Exception as ex:
            r.check(False, 'no-exception', 'flux/raised/%s/bin_model' % type(ex).__name__, exc=repr(ex))
        if case['grid'] == 'uniform':
            # one scalar for all native widths, narrower than the spacing (native bins with gaps between them)
            sw_ = 0.5 * float(w_eff[0])
            try:
                out_s = fb.bindown(c[p].copy(), S[ig][p].copy(), grid_width=sw_)
                got_s = np.asarray(out_s[1], float)
                gtc_, gtw_ = np.asarray(out_s[0], float), np.asarray(out_s[3], float)      # centres ascending
                val_s, _, sumw_s, _ = ref.overlap_bin(c[p], np.full(n, sw_), S[ig][p], gtc_, gtw_, None)
                live_s = sumw_s > TOUCH * gtw_
                r.eq(got_s[live_s], val_s[live_s], 'value', 'flux/value/scalar-native-width/%s' % tag, atol=1e-13)
            except Exception as ex:
                r.check(False, 'no-exception', 'flux/raised/%s/scalar-native-width' % type(ex).__name__, exc=repr(ex))
        if p != sorted(p):
            r.nontrivial = True
    return r


def fam_simple(case):
    from taurex.binning import SimpleBinner
    r = core.R(case)
    fx.reset_caches()
    letter, n = case['grid'], case['n']
    c, w = native(letter, n)
    names, S = spectra(letter, n)
    span = c[-1] - c[0]
    step = span / 5.0
    if case['edge']:
        # a native point exactly on an interior / outer edge
        cands = [[c[1] - 1.0, c[1] + 1.0], [c[0] - 1.0, c[0] + 1.0, c[-1] + 2.0], [c[0] + 0.5, c[0] + 1.5],
                 [c[0] - 2.0, c[-1] - 1.0, c[-1] + 1.0]]
        subsets = [np.array(sorted(t)) for t in cands]
    else:
        cl = np.array([c[0] - step + k * step + 0.3137 * step for k in range(8)])
        subsets = [cl[list(sub)] for k in case['sizes'] for sub in itertools.combinations(range(len(cl)), k)]
    perms = list(itertools.permutations(range(n)))
    for tc in subsets:
        lo, hi, cs, ce = ref.hist_bin(c, S, tc)
        if not case['edge'] and ce.any():
            raise AssertionError('offset lattice put a native point on an edge')
        want_w = ref.midpoint_widths(tc)
        for wmode in ('none', 'explicit'):
            tw_arg = None if wmode == 'none' else want_w * 0.5
            for p in perms:
                p = list(p)
                tag = 'nat=%s,edge=%s' % ('sorted' if p == sorted(p) else 'shuffled', bool(case['edge']))
                for dim, tdir in ((1, 'asc'), (2, 'asc'), (1, 'desc'), (2, 'desc')):
                    # desc: the same target bins listed from high to low wavenumber (an ascending wavelength grid);
                    # the answer, turned round, is judged exactly like the ascending one
                    if tdir == 'desc' and p != sorted(p):
                        continue
                    rev = slice(None, None, -1) if tdir == 'desc' else slice(None)
                    sb = SimpleBinner(tc[rev].copy(), None if tw_arg is None else tw_arg[rev].copy())
                    s = S[:, p] if dim == 2 else S[names.index('g1')][p]
                    l_, h_ = (lo, hi) if dim == 2 else (lo[names.index('g1')], hi[names.index('g1')])
                    tag = 'nat=%s,edge=%s%s' % ('sorted' if p == sorted(p) else 'shuffled', bool(case['edge']),
                                                ',target=descending' if tdir == 'desc' else '')
                    try:
                        out = sb.bindown(c[p].copy(), s.copy())
                    except Exception as ex:
                        if tdir == 'desc' and isinstance(ex, ValueError):
                            r.count('simple-descending-target-refused', 1)      # a refusal is not a wrong value
                            continue
                        r.check(False, 'no-exception', 'simple/raised/%s/%s,dim=%d' % (type(ex).__name__, tag, dim),
                                exc=repr(ex), c=c[p], tc=tc)
                        continue
                    if not r.check(isinstance(out, tuple) and len(out) == 4, 'shape', 'simple/return-arity'):
                        continue
                    g_tc, g_val, g_err, g_tw = out
                    if tdir == 'desc':
                        r.count('simple-descending-target-answered', 1)
                        g_tc, g_tw = np.asarray(g_tc)[::-1], np.asarray(g_tw)[::-1]
                        g_val = np.asarray(g_val, float)[..., ::-1]
                    r.check(np.array_equal(np.asarray(g_tc, float), tc) and g_err is None and
                            core.close(g_tw, want_w if tw_arg is None else tw_arg, 1e-12), 'grid',
                            'simple/grid/width=%s' % wmode, got=g_tw, want=want_w)
                    g_val = np.asarray(g_val, float)
                    if not r.check(g_val.shape == s.shape[:-1] + (len(tc),), 'shape', 'simple/shape/dim=%d' % dim,
                                   got=g_val.shape):
                        continue
                    if wmode == 'none' and p == sorted(p):
                        r.observe(g_val)
                    filled = (cs + ce) > 0 if case['edge'] else cs > 0
                    sure = cs > 0
                    r.count('simple-bins-filled', int(sure.sum()))
                    r.count('simple-bins-empty', int((~sure).sum()))
                    if case['edge']:
                        # either neighbour: the value, where a number at all, lies among the admissible means
                        gv = g_val[..., filled]
                        okb = np.isnan(gv) | ((gv >= l_[..., filled] - 1e-12) & (gv <= h_[..., filled] + 1e-12))
                        r.check(bool(np.all(okb)) and not np.any(np.isnan(g_val[..., sure & (ce == 0)])),
                                'hist-edge', 'simple/edge-value/%s,dim=%d' % (tag, dim), got=g_val, lo=l_, hi=h_, tc=tc)
                    elif sure.any():
                        r.eq(g_val[..., sure], l_[..., sure], 'hist-mean', 'simple/value/%s,dim=%d' % (tag, dim),
                             rtol=1e-12, c=c[p], s=s, tc=tc)
                        if cs.max() >= 2:
                            r.nontrivial = True
    return r


def fam_native(case):
    from taurex.binning import NativeBinner
    r = core.R(case)
    fx.reset_caches()
    letter, n = case['grid'], case['n']
    c, w = native(letter, n)
    names, S = spectra(letter, n)
    E = errors(letter, n, S.shape[0])
    for p in itertools.permutations(range(n)):
        p = list(p)
        for s, e in ((S[2][p], None), (S[-1][p], E['distinct'][p]), (S[:, p], E['2d'][:, p]), (S[:, p], None)):
            for gw in (None, w[p]):
                nb = NativeBinner()
                a = (c[p].copy(), s.copy(), None if gw is None else gw.copy(), None if e is None else e.copy())
                keep = [None if x is None else x.copy() for x in a]
                out = nb.bindown(*a)
                ok = isinstance(out, tuple) and len(out) == 4
                if ok:
                    def same(got, want):
                        return (got is None and want is None) or \
                            (got is not None and want is not None and np.array_equal(got, want))
                    # (grid, spectrum, error, width) as every binner returns, or the argument order
                    # (grid, spectrum, width, error) of the base-class docstring: the statement only says "unchanged"
                    ok = same(out[0], keep[0]) and same(out[1], keep[1]) and (
                        (same(out[2], keep[3]) and same(out[3], keep[2])) or
                        (same(out[2], keep[2]) and same(out[3], keep[3])))
                r.check(ok, 'native-identity', 'native/identity/err=%s,gw=%s' % (e is not None, gw is not None))
                r.observe(out[1])
        nb = NativeBinner()
        out = nb.bin_model((c[p].copy(), S[-1][p].copy(), None, None))
        r.check(np.array_equal(out[0], c[p]) and np.array_equal(out[1], S[-1][p]), 'native-identity',
                'native/bin_model')
    r.nontrivial = True
    return r


# ----------------------------------------------------------------------------------------------

def fam_reuse(case):
    """One binner object answers a sequence of bindown calls on different native grids, spectra (1-D / 2-D) and
    errors; every answer must equal the overlap reference (and therefore what a fresh binner returns): no state
    may leak from one call to the next."""
    from taurex.binning import FluxBinner, SimpleBinner
    r = core.R(case)
    fx.reset_caches()
    tc = np.array([11.0, 15.0, 21.0, 40.0])
    tw = np.array([3.0, 4.0, 6.0, 30.0])
    fb = FluxBinner(tc.copy(), tw.copy())
    calls = []
    kept = []
    for letter, n, gw, dim, err in case['seq']:
        c, w = native(letter, n)
        w_eff = eff_width(c, w, gw)
        names, S = spectra(letter, n)
        E = errors(letter, n, S.shape[0])
        s = S[-3] if dim == 1 else S[-3:]
        e = None if err == 'none' else (E['distinct'] if dim == 1 else E['2d'][-3:])
        calls.append((letter, n, gw, dim, err))
        tag = '>'.join('%s%d%s' % (a[0], a[3], 'e' if a[4] != 'none' else '') for a in calls)
        got = fb.bindown(c.copy(), s.copy(), grid_width=(w.copy() if gw == 'explicit' else None),
                         error=None if e is None else e.copy())
        val, er, sumw, W = ref.overlap_bin(c, w_eff, s, tc, tw, e)
        ok = sumw > 1e-9 * tw
        gv = np.asarray(got[1], float)
        r.eq(gv[..., ok], val[..., ok], 'reuse-value', 'reuse/value/%d-calls' % len(calls), rtol=1e-9, seq=tag)
        if e is not None:
            ge = np.asarray(got[2], float)
            r.eq(ge[..., ok], er[..., ok], 'reuse-error', 'reuse/error/%d-calls' % len(calls), rtol=1e-9, seq=tag)
        else:
            r.check(got[2] is None, 'reuse-error-none', 'reuse/error-not-none/%d-calls' % len(calls), seq=tag)
        kept.append((got, [None if a is None else np.array(a, dtype=float, copy=True) for a in got]))
        r.eq(np.asarray(got[0], float), tc, 'reuse-grid', 'reuse/grid', rtol=0)
        r.eq(np.asarray(got[3], float), tw, 'reuse-width', 'reuse/width', rtol=0)
        r.observe(gv)
    # what earlier calls returned is still what they returned (no result object is recycled by a later call)
    for k, (orig, copy) in enumerate(kept[:-1]):
        same = all((a is None and b is None) or (a is not None and b is not None and
                                                    np.array_equal(np.asarray(a, float), b, equal_nan=True))
                   for a, b in zip(orig, copy))
        r.check(same, 'earlier-result-intact', 'reuse/earlier-result-overwritten', call=k, of=len(kept))
    r.nontrivial = True
    return r


def explore(ctx):
    thorough = ctx.tier == 'thorough'
    ns = [2, 3, 4, 5, 6]
    gws = ['none', 'explicit']
    b = ctx.bounds

    cases = [{'grid': g, 'n': n, 'gw': gw} for g in GRIDS for n in ns for gw in gws]
    ctx.run_cases('fam_all', [dict(k, lite=0 if thorough else 1) for k in cases], phase='all', chunk=1)
    sing = cases if thorough else [k for k in cases if k['n'] <= 4]
    ctx.run_cases('fam_single', sing, phase='single', chunk=1)
    b['single_bin_targets'] = 'all [a,b] on the fine lattice, n<=%d' % (6 if thorough else 4)
    b['all_at_once'] = 'n<=6, 3 target orders'

    # ordered pairs
    if thorough:
        pn = [(g, n, gw) for g in GRIDS for n in (2, 3, 4) for gw in gws]
    else:
        pn = [(g, 2, gw) for g in GRIDS for gw in gws] + [('unequal', 3, 'none')]
    pc = []
    for g, n, gw in pn:
        for i in range(n_pairs_bins(g, n, gw)):
            pc.append({'grid': g, 'n': n, 'gw': gw, 'first': i})
    ctx.run_cases('fam_pairs', pc, phase='pairs', chunk=4)
    b['ordered_pairs'] = 'all ordered pairs of coarse-lattice bins for ' + ('n=2,3,4 all letters' if thorough else
                                                                            'n=2 all letters; n=3 unequal')

    # triples
    d = 2
    tn = [3, 4, 5] if thorough else [3]
    if thorough:
        tcases = [{'grid': g, 'n': n, 'gw': gw, 'd': d} for g in GRIDS for n in tn for gw in gws]
    else:
        tcases = [{'grid': g, 'n': 3, 'gw': 'none', 'd': 2 if g in ('uniform', 'log', 'unequal') else 1} for g in GRIDS]
        tcases += [{'grid': g, 'n': 4, 'gw': 'explicit', 'd': 1} for g in GRIDS]
    ctx.run_cases('fam_triples', tcases, phase='triples', chunk=1)
    b['triples'] = ('tiling + <=2 moved edges (all lattice values), all 6 target orders, n in %s' % tn if thorough else
                    'tiling + <=2 moved edges for n=3 uniform/log/unequal, <=1 for constR/gap and n=4 explicit; all 6 orders')

    # None / scalar target widths
    ac = [{'grid': g, 'n': n, 'gw': gw, 'maxc': 12 if thorough else 8} for g in GRIDS
          for n in ([2, 3, 4, 5] if thorough else [2, 3]) for gw in (gws if thorough else ['none'])]
    ctx.run_cases('fam_auto', ac, phase='auto', chunk=1)
    b['auto_width'] = 'all ordered 2-/3-subsets of <=%d centres' % (12 if thorough else 8)

    # native permutations
    pm = []
    for g in GRIDS:
        for n in ([2, 3, 4, 5, 6] if thorough else [2, 3, 4, 5]):
            for gw in gws:
                import math
                tot = math.factorial(n)
                stepp = 60
                for lo in range(0, tot, stepp):
                    pm.append({'grid': g, 'n': n, 'gw': gw, 'slice': [lo, min(tot, lo + stepp)]})
    ctx.run_cases('fam_perm', pm, phase='perm', chunk=1)
    b['native_permutations'] = 'all n! for n<=%d' % (6 if thorough else 5)

    # SimpleBinner
    sc = [{'grid': g, 'n': n, 'edge': 0, 'sizes': [2, 3, 4] if thorough else [2, 3]} for g in GRIDS
          for n in ([2, 3, 4, 5] if thorough else [2, 3, 4])]
    sc += [{'grid': g, 'n': n, 'edge': 1, 'sizes': []} for g in ('uniform', 'unequal') for n in (3, 4)]
    ctx.run_cases('fam_simple', sc, phase='simple', chunk=1)
    b['simple'] = 'all 2-/3-%ssubsets of 8 offset centres x all native permutations, n<=%d' % (
        '/4-' if thorough else '', 5 if thorough else 4)

    nc = [{'grid': g, 'n': n} for g in GRIDS for n in (2, 3, 4)]
    ctx.run_cases('fam_native', nc, phase='native', chunk=1)
    calls = [[g, n, gw, dim, err] for g, n in (('uniform', 4), ('unequal', 6), ('log', 3), ('unequal2', 6))
             for gw in ('explicit', 'none') for dim in (1, 2) for err in ('none', 'distinct')]
    depth = 3 if thorough else 2
    rc = []
    for d in range(2, depth + 1):
        if d == 2:
            rc += [{'seq': [list(a), list(b)]} for a in calls for b in calls]
        else:
            sub = calls[::3]
            rc += [{'seq': [list(x) for x in t]} for t in itertools.product(sub, repeat=d)]
    ctx.bounds.update(reuse_sequences=len(rc), reuse_depth=depth)
    ctx.run_cases('fam_reuse', rc, phase='reuse')
