"""C12 - temperature profiles are finite, positive and bounded by their control values
(DESIGN.md section 4, C12).

Engine E1.  One case family per built-in profile; inside a case the cheap dimensions (control
temperature arrangements, smoothing windows, slope limits) are looped exhaustively:

  iso       Isothermal
  npoint    NPoint, 0-3 interior nodes x node-pressure letters (ordered / clustered / on a layer /
            equal / inverted / below the top) x surface/top pressure letters x slope-limit letters
            x every arrangement of {300,1000,2500} on the nodes x smoothing windows
  window    NPoint smoothing border arithmetic: every layer count 2..Nmax x every integer window
            0..100 (plus fractional ones)
  array     TemperatureArray without / with pressure points, reverse flag
  file      TemperatureFile (temperature column only / pressure + temperature in both column
            orders, header rows, delimiter, pressure unit)
  rodgers   Rodgers2000 with its default covariance
  guillot   Guillot2010 against the closed form of mc.ref.tprofiles (own E2), parameters on and
            outside the documented bounds, set through the constructor or the fitting setters

Invariants on every returned profile: shape (N,), finite, > 0, inside [min, max] of the control
temperatures, constant when all controls are equal.  Unphysical parameter sets must raise a
subclass of taurex.exceptions.InvalidModelException; nothing may return NaN.
"""
import itertools
import math
import os

import numpy as np

from mc import core, fixtures as fx
from mc.ref import tprofiles as ref

ID = 'C12'
RULE = ('per profile family the full product of layer count x pressure grid x structural letters (node count, '
        'node-pressure letter, surface/top letter, slope letter, control-point count, file layout, Guillot '
        'parameter letters: quick = <=2 deviations from the defaults + full product of (alpha, kappa_v1, kappa_ir, '
        'T_irr); thorough = full product); inside a case every arrangement of the control temperatures and every '
        'smoothing window is evaluated.  A case is non-trivial when the controls are not all equal (bounds / '
        'closed-form verdict depends on the letters) or when the letter must be rejected.')
ASSUME = ['numpy / scipy.interpolate / scipy.special trusted; reference E2 by series + continued fraction',
          'smoothing windows 0..100 (per cent of the layer count); control temperatures 300..2500 K',
          'bounds are checked with a slack of 1e-9*max(controls) (the moving average is a difference of cumulative '
          'sums; its rounding error grows with the layer count and exceeds the 4 eps of DESIGN 2.8)',
          'node pressures that are equal count as not ordered (two temperatures at one pressure) and must be rejected',
          'a slope exactly at the limit may be accepted or rejected',
          'Guillot letters outside the documented bounds may either be rejected or follow the closed form where that '
          'is a positive real number; NaN / non-positive output is never accepted',
          'Guillot tolerance = rtol 1e-9 + 32 eps * sum|terms| / T^4 (forward rounding bound of the published formula)']

TV = [300.0, 1000.0, 2500.0]
NS = [2, 3, 5, 7, 10, 13, 25, 100]
WINDOWS = [1, 5, 10, 30, 100]
SLACK = 1e-9


# ------------------------------------------------------------------------------------------------
# fixtures
# ------------------------------------------------------------------------------------------------
def grid(name, N):
    """Layer pressures in Pa, surface first (as taurex pressure profiles deliver them)."""
    if name == 'std':
        return np.logspace(6, -1, N)
    if name == 'low':
        return np.logspace(5, -4, N)
    if name == 'narrow':
        return np.logspace(3, 2, N)
    if name == 'irregular':
        steps = fx.rng('c12', 'grid', N).uniform(0.2, 1.8, size=N - 1)
        l = 6.0 - 7.0 * np.concatenate([[0.0], np.cumsum(steps)]) / steps.sum()
        return 10 ** l
    if name == 'taurex':
        from taurex.data.profiles.pressure import SimplePressureProfile
        pp = SimplePressureProfile(nlayers=N, atm_min_pressure=1e-4, atm_max_pressure=1e6)
        pp.compute_pressure_profile()
        return np.array(pp.profile, dtype=float)
    raise ValueError(name)


def generic_T(n, *salt):
    return [float(v) for v in np.round(fx.rng('c12', 'T', n, *salt).uniform(300.0, 2500.0, size=n), 4)]


def patterns(n, full=False):
    """Named control-temperature arrangements of length n."""
    out = {}
    out['dec'] = [float(v) for v in np.linspace(2500.0, 300.0, n)] if n > 1 else [2500.0]
    out['inc'] = out['dec'][::-1]
    out['equal300'] = [300.0] * n
    out['equal2500'] = [2500.0] * n
    out['equal-generic'] = [generic_T(1, 'eq')[0]] * n
    out['zigzag'] = [TV[0] if i % 2 else TV[2] for i in range(n)]
    out['zagzig'] = [TV[2] if i % 2 else TV[0] for i in range(n)]
    out['spike'] = [1000.0] * n
    out['spike'][n // 2] = 2500.0
    out['dip'] = [1000.0] * n
    out['dip'][n // 3] = 300.0
    out['generic'] = generic_T(n)
    if full and n <= 5:
        for t in itertools.product(TV, repeat=n):
            out['arr' + ''.join(str(TV.index(v)) for v in t)] = list(t)
    return out


def tclass(ts):
    ts = list(ts)
    if all(t == ts[0] for t in ts):
        return 'all-equal'
    d = np.diff(ts)
    if np.all(d <= 0):
        return 'decreasing'
    if np.all(d >= 0):
        return 'increasing'
    return 'non-monotone'


def invalid_exc():
    from taurex.exceptions import InvalidModelException
    return InvalidModelException


def evaluate(r, fam, tag, make, N, P, planet, controls, expect, reject_tag=None, **detail):
    """Build the profile, read it, apply the verdict `expect` in {'valid','reject','either'} and the
    invariants.  Returns the profile or None."""
    IME = invalid_exc()
    detail = dict(detail, N=N, controls=controls)
    try:
        obj = make()
        obj.initialize_profile(planet, N, P)
        T = obj.profile
    except IME as e:
        r.check(expect != 'valid', 'accepts-valid', '%s/rejected-valid/%s' % (fam, tag), exc=repr(e), **detail)
        r.observe('rejected')
        if expect == 'reject':
            r.nontrivial = True
        return None
    except Exception as e:
        r.check(False, 'no-exception', '%s/raised/%s/%s' % (fam, type(e).__name__, tag), exc=repr(e), **detail)
        return None
    T = np.asarray(T)
    if expect == 'reject':
        # one finding per structural class: what came back instead of the rejection
        try:
            Tf = T.astype(float)
            what = 'nan' if np.any(np.isnan(Tf)) else ('non-finite' if not np.all(np.isfinite(Tf)) else (
                'non-positive' if np.any(Tf <= 0) else 'a-finite-profile'))
        except Exception:
            what = 'non-numeric'
        r.check(False, 'rejects-unphysical', '%s/accepted-unphysical/%s/returned-%s' % (fam, reject_tag or tag, what),
                got=T, **detail)
        r.observe(what)
        r.nontrivial = True
        return None
    ok = True
    if not r.check(T.shape == (N,), 'shape', '%s/shape/%s' % (fam, tag), got=list(T.shape), **detail):
        return None
    T = T.astype(float)
    r.observe(T)
    fin = r.check(bool(np.all(np.isfinite(T))), 'finite', '%s/not-finite/%s' % (fam, tag), got=T, **detail)
    if fin:
        r.check(bool(np.all(T > 0)), 'positive', '%s/not-positive/%s' % (fam, tag), got=T, **detail)
    if controls is not None and fin and ok:
        lo, hi = min(controls), max(controls)
        s = SLACK * abs(hi)
        r.check(bool(T.min() >= lo - s and T.max() <= hi + s), 'bounded', '%s/out-of-range/%s' % (fam, tag),
                got=T, lo=lo, hi=hi, **detail)
        if lo == hi:
            r.eq(T, np.full(N, lo), 'constant', '%s/not-constant/%s' % (fam, tag), **detail)
        else:
            r.nontrivial = True
        pn = detail.get('pnodes')
        if fam == 'npoint' and pn is not None and len(pn) == len(controls) and expect == 'valid':
            pn_ = np.asarray(pn, dtype=float)
            cd_ = np.diff(np.asarray(controls, dtype=float))
            if np.all(np.isfinite(pn_)) and np.all(pn_ > 0) and np.all(np.diff(pn_) < 0) and \
                    (np.all(cd_ <= 0) or np.all(cd_ >= 0)) and controls[0] != controls[-1]:
                # control temperatures that fall (or rise) all the way from the surface node to the top node: the layers,
                # listed from the surface up like the pressures, start at the surface end - the profile is not upside down
                sgn = 1.0 if controls[0] > controls[-1] else -1.0
                # (only the two ends are compared: the smoothing borders of the unchanged code are not monotone)
                r.check(bool(sgn * (T[0] - T[-1]) >= -s), 'oriented', '%s/upside-down/%s' % (fam, tag), got=T, **detail)
    return T


# ------------------------------------------------------------------------------------------------
# Isothermal
# ------------------------------------------------------------------------------------------------
def iso_case(case):
    from taurex.data.profiles.temperature import Isothermal
    from taurex.data.planet import Planet
    r = core.R(case)
    fx.reset_caches()
    N, P, pl = case['N'], grid(case['grid'], case['N']), Planet()
    for T in TV + generic_T(2, 'iso') + [1500]:       # the last one a Python int
        got = evaluate(r, 'iso', 'ctor', lambda: Isothermal(T=T), N, P, pl, [T], 'valid')
        if got is not None:
            r.nontrivial = True

        def via_setter():
            o = Isothermal()
            o.isoTemperature = T
            return o
        evaluate(r, 'iso', 'setter', via_setter, N, P, pl, [T], 'valid')
    return r


# ------------------------------------------------------------------------------------------------
# NPoint
# ------------------------------------------------------------------------------------------------
def npoint_nodes(case, P):
    """(P_surface arg, P_top arg, interior node pressures) for the letters of the case."""
    npts = case['npts']
    lmax, lmin = math.log10(P[0]), math.log10(P[-1])
    ps = case['ps']
    if ps == 'none':
        a_s, a_t, ls, lt = None, None, lmax, lmin
    elif ps == 'neg':
        a_s, a_t, ls, lt = -1, -1, lmax, lmin
    elif ps == 'outside':
        ls, lt = lmax + 1.0, lmin - 1.0
        a_s, a_t = 10 ** ls, 10 ** lt
    elif ps == 'inside':
        ls, lt = lmax - 0.2 * (lmax - lmin), lmin + 0.2 * (lmax - lmin)
        a_s, a_t = 10 ** ls, 10 ** lt
    elif ps == 'swapped':
        ls, lt = lmin, lmax
        a_s, a_t = 10 ** ls, 10 ** lt
    else:
        raise ValueError(ps)
    # effective values as the profile must see them
    es = P[0] if a_s is None or a_s < 0 else a_s
    et = P[-1] if a_t is None or a_t < 0 else a_t
    pn = case['pn']
    k = np.arange(1, npts + 1)
    ordered = [10 ** (ls + (lt - ls) * i / (npts + 1.0)) for i in k]
    if pn == 'ordered' or npts == 0:
        nodes = ordered
    elif pn == 'clustered':
        nodes = [10 ** (lt + (ls - lt) * 1e-3 * (npts + 1 - i)) for i in k]
    elif pn == 'on-layer':
        idx = [int(round(i * (len(P) - 1) / (npts + 1.0))) for i in k]
        nodes = [float(P[j]) for j in idx]
    elif pn == 'equal':
        nodes = list(ordered)
        if npts >= 2:
            nodes[-1] = nodes[-2]
        else:
            nodes[0] = float(es)
    elif pn == 'inverted':
        nodes = ordered[::-1] if npts >= 2 else [10 ** (max(ls, lt) + 0.5)]
    elif pn == 'below-top':
        nodes = list(ordered)
        nodes[-1] = 10 ** (min(ls, lt) - 0.5)
    elif pn == 'negative':       # an interior node at a negative pressure (only the two ends may be "unset" that way)
        nodes = list(ordered)
        nodes[0] = -nodes[0]
    else:
        raise ValueError(pn)
    return a_s, a_t, [float(v) for v in nodes], float(es), float(et)


def npoint_case(case):
    from taurex.data.profiles.temperature import NPoint
    from taurex.data.planet import Planet
    r = core.R(case)
    fx.reset_caches()
    N, npts = case['N'], case['npts']
    P, pl = grid(case['grid'], N), Planet()
    a_s, a_t, nodes, es, et = npoint_nodes(case, P)
    pfull = [es] + nodes + [et]
    tsets = patterns(npts + 2, full=(case['tset'] == 'all'))
    if case['tset'] == 'basic':
        for k in ('zagzig', 'dip', 'equal2500'):
            tsets.pop(k, None)
    if case['pn'] == 'negative':
        # not a pressure at all: rejected as an invalid model, whatever the temperatures
        from taurex.data.profiles.temperature import NPoint as _NP
        for tname, ts in sorted(tsets.items()):
            w = case['windows'][0]

            def make_neg():
                return _NP(T_surface=ts[0], T_top=ts[-1], P_surface=a_s, P_top=a_t, temperature_points=list(ts[1:-1]),
                           pressure_points=list(nodes), smoothing_window=w)
            evaluate(r, 'npoint', '%dnodes/P=%s,negative-node/%s' % (npts, case['ps'], tclass(ts)), make_neg, N, P, pl,
                     list(ts), 'reject', window=w, pnodes=pfull, tname=tname)
        return r
    geom = ref.nodes_verdict(pfull, [1.0] * len(pfull), float('inf'))      # 'inverted' or 'valid'
    for tname, ts in sorted(tsets.items()):
        if geom == 'inverted':
            limits = [('default', 9999999)]
        else:
            ms = ref.max_slope(pfull, ts)
            limits = {'default': [('default', 9999999)],
                      'loose': [('loose', 2.0 * ms if ms > 0 else 1.0)],
                      'tight': [('tight', 0.5 * ms)] if ms > 0 else [],
                      'exact': [('exact', ms)] if ms > 0 else []}[case['slope']]
        for lname, limit in limits:
            verdict = ref.nodes_verdict(pfull, ts, limit)
            expect = {'valid': 'valid', 'inverted': 'reject', 'slope': 'reject', 'slope-edge': 'either'}[verdict]
            for w in case['windows']:
                tag = '%dnodes/P=%s,%s/%s/slope=%s/%s' % (npts, case['ps'], case['pn'], verdict, lname, tclass(ts))

                def make():
                    return NPoint(T_surface=ts[0], T_top=ts[-1], P_surface=a_s, P_top=a_t,
                                  temperature_points=list(ts[1:-1]), pressure_points=list(nodes),
                                  smoothing_window=w, limit_slope=limit)
                evaluate(r, 'npoint', tag, make, N, P, pl, list(ts), expect, window=w, pnodes=pfull, limit=limit,
                         tname=tname)
                if w == case['windows'][0]:
                    # the same controls arriving as numpy scalars through the fitting-parameter setters (what a sampler
                    # hands over: elements of a float64 array), on an object built with other values
                    def make_np():
                        o = NPoint(T_surface=1234.5, T_top=432.1, P_surface=a_s, P_top=a_t,
                                   temperature_points=[777.0 + 3 * k for k in range(len(ts) - 2)],
                                   pressure_points=list(nodes), smoothing_window=w, limit_slope=limit)
                        arr = np.array(ts, dtype=np.float64)
                        fp = o.fitting_parameters()
                        fp['T_surface'][3](arr[0])
                        fp['T_top'][3](arr[-1])
                        for k in range(len(ts) - 2):
                            fp['T_point%d' % (k + 1)][3](arr[k + 1])
                        return o
                    evaluate(r, 'npoint', 'numpy-setters/' + tag, make_np, N, P, pl, list(ts), expect, window=w,
                             pnodes=pfull, limit=limit, tname=tname)
    return r


def window_case(case):
    """Smoothing border arithmetic: one layer count, every window."""
    from taurex.data.profiles.temperature import NPoint
    from taurex.data.planet import Planet
    r = core.R(case)
    fx.reset_caches()
    N = case['N']
    P, pl = grid(case['grid'], N), Planet()
    lmax, lmin = math.log10(P[0]), math.log10(P[-1])
    mid = 10 ** (0.5 * (lmax + lmin))
    for w in case['windows']:
        for tname, ts, pts in (('dec', [2500.0, 300.0], []), ('peak', [300.0, 2500.0, 300.0], [mid]),
                               ('equal', [1000.0, 1000.0, 1000.0], [mid]),
                               # whole-number controls written as Python ints (T_surface = 1800)
                               ('ints', [1800, 900, 450], [mid]), ('equal-ints', [1000, 1000, 1000], [mid]),
                               ('generic', generic_T(3, 'w'), [mid])):
            wc = 'int' if float(w) == int(w) else 'fractional'
            tag = 'window-%s/%s' % (wc, tclass(ts))

            def make():
                return NPoint(T_surface=ts[0], T_top=ts[-1], temperature_points=list(ts[1:-1]),
                              pressure_points=list(pts), smoothing_window=w)
            evaluate(r, 'npoint', tag, make, N, P, pl, list(ts), 'valid', window=w, tname=tname)
    return r


# ------------------------------------------------------------------------------------------------
# TemperatureArray / TemperatureFile
# ------------------------------------------------------------------------------------------------
def ctrl_count(spec, N):
    return {'N': N, 'N+1': N + 1, 'N-1': max(1, N - 1)}.get(spec, spec)


def ctrl_pressures(letter, n, P):
    """Pressure points for n control temperatures (first = highest pressure unless stated)."""
    lmax, lmin = math.log10(P[0]), math.log10(P[-1])
    if letter == 'match':
        lp = np.linspace(lmax, lmin, n)
    elif letter == 'wider':
        lp = np.linspace(lmax + 1, lmin - 1, n)
    elif letter == 'narrower':
        lp = np.linspace(lmax - 0.3 * (lmax - lmin), lmin + 0.3 * (lmax - lmin), n)
    elif letter == 'ascending':
        lp = np.linspace(lmin, lmax, n)
    elif letter == 'dup':
        lp = np.linspace(lmax, lmin, n)
        lp[-1] = lp[-2]
    elif letter == 'on-layer-dup':
        lp = np.linspace(lmax, lmin, n)
        lp[n // 2] = math.log10(P[len(P) // 2])
        lp[n // 2 - 1] = lp[n // 2]
    elif letter == 'unsorted':
        lp = np.linspace(lmax, lmin, n)
        lp = np.concatenate([lp[1::2], lp[0::2]])
    else:
        raise ValueError(letter)
    return [float(10 ** v) for v in lp]


def array_case(case):
    from taurex.data.profiles.temperature.temparray import TemperatureArray
    from taurex.data.planet import Planet
    r = core.R(case)
    fx.reset_caches()
    N = case['N']
    P, pl = grid(case['grid'], N), Planet()
    n = ctrl_count(case['nctrl'], N)
    pp = None if case['pp'] is None else ctrl_pressures(case['pp'], n, P)
    for tname, ts in sorted(patterns(n, full=case['full']).items()):
        tag = '%s/nctrl=%s/%s%s' % ('no-pressure' if pp is None else 'P=' + case['pp'],
                                     'N' if n == N else ('1' if n == 1 else ('<N' if n < N else '>N')),
                                     tclass(ts), '/reverse' if case['reverse'] else '')

        def make():
            return TemperatureArray(tp_array=list(ts), p_points=None if pp is None else list(pp),
                                    reverse=case['reverse'])
        evaluate(r, 'array', tag, make, N, P, pl, list(ts), 'valid', tname=tname, p_points=pp)
    return r


def file_case(case):
    from taurex.data.profiles.temperature import TemperatureFile
    from taurex.data.planet import Planet
    r = core.R(case)
    fx.reset_caches()
    N = case['N']
    P, pl = grid(case['grid'], N), Planet()
    n = ctrl_count(case['nrows'], N)
    d = fx.fresh_dir('c12file')
    sep = ',' if case['delim'] == ',' else '  '
    punit = case['punit']
    pconv = {'Pa': 1.0, 'bar': 1e5}[punit]
    tunit = case.get('tunit', 'K')
    tconv = {'K': 1.0, 'kK': 1e3}[tunit]            # the file lists kilokelvin: the profile is in kelvin all the same
    pp = ctrl_pressures('match' if case['cols'] != 'T' else 'match', n, P)
    for tname, ts in sorted(patterns(n).items()):
        path = os.path.join(d, 'tp_%s.dat' % tname)
        with open(path, 'w') as f:
            for _ in range(case['skip']):
                f.write('# pressure temperature header\n' if sep != ',' else 'header,line\n')
            for p, t in zip(pp, ts):
                if case['cols'] == 'T':
                    f.write('%r\n' % (t / tconv))
                elif case['cols'] == 'PT':
                    f.write('%r%s%r\n' % (p / pconv, sep, t / tconv))
                else:
                    f.write('%r%s%r\n' % (t / tconv, sep, p / pconv))
        kw = dict(filename=path, skiprows=case['skip'], temp_units=tunit, press_units=punit)
        if case['cols'] == 'T':
            kw.update(temp_col=0)
        elif case['cols'] == 'PT':
            kw.update(temp_col=1, press_col=0, delimiter=case['delim'])
        else:
            kw.update(temp_col=0, press_col=1, delimiter=case['delim'])
        tag = 'cols=%s/%s%s/nrows=%s/%s' % (case['cols'], punit, '' if tunit == 'K' else '+' + tunit,
                                            'N' if n == N else ('<N' if n < N else '>N'), tclass(ts))
        evaluate(r, 'file', tag, lambda: TemperatureFile(**kw), N, P, pl, list(ts), 'valid', tname=tname, kw=kw)
    import shutil
    shutil.rmtree(d, ignore_errors=True)      # workers are terminated without atexit: leave nothing behind
    return r


# ------------------------------------------------------------------------------------------------
# Rodgers2000
# ------------------------------------------------------------------------------------------------
def rodgers_case(case):
    from taurex.data.profiles.temperature import Rodgers2000
    from taurex.data.planet import Planet
    r = core.R(case)
    fx.reset_caches()
    N = case['N']
    P, pl = grid(case['grid'], N), Planet()
    h = case['h']
    for tname, ts in sorted(patterns(N, full=(N <= 3)).items()):
        tag = 'default-covariance/%s' % tclass(ts)
        evaluate(r, 'rodgers', tag, lambda: Rodgers2000(temperature_layers=list(ts), correlation_length=h),
                 N, P, pl, list(ts), 'valid', tname=tname, h=h)

        def via_setter():
            o = Rodgers2000(temperature_layers=[1000.0] * N)
            o.correlationLength = h
            fp = o.fitting_parameters()
            for i, t in enumerate(ts):
                fp['T_%d' % (i + 1)][3](t)
            return o
        evaluate(r, 'rodgers', tag + '/setter', via_setter, N, P, pl, list(ts), 'valid', tname=tname, h=h)
    return r


# ------------------------------------------------------------------------------------------------
# Guillot2010
# ------------------------------------------------------------------------------------------------
G_DIMS = {
    'alpha': [0.5, 0.0, 1.0, 0.25, 1.5, -0.5],
    'kappa_v1': [0.005, 0.5, 1e-10, 1.0, 0.0, -0.005],
    'kappa_irr': [0.01, 1.0, 1e-10, 1e-4, 0.0, -0.01],
    'T_irr': [1500.0, 1300.0, 2500.0, 0.0, -100.0],
    'kappa_v2': [0.005, 0.05, 1.0, 0.0, -0.05],
    'T_int': [100.0, 0.0, 1000.0, -1.0],
    'N': [5, 2, 13, 100],
    'grid': ['std', 'low', 'irregular'],
    'planet': ['jupiter', 'dense'],
    'via': ['ctor', 'setter'],
}
G_CORE = ['alpha', 'kappa_v1', 'kappa_irr', 'T_irr']
PLANETS = {'jupiter': (1.0, 1.0), 'dense': (5.0, 0.8)}


def guillot_class(c):
    """Structural class of a Guillot letter (for signatures) and the verdict the statement fixes
    before looking at the closed form."""
    cls = []
    if c['kappa_irr'] == 0 or c['kappa_v1'] == 0 or c['kappa_v2'] == 0:
        cls.append('zero-kappa')
    if c['T_irr'] < 0 or c['T_int'] < 0:
        cls.append('negative-T')
    if min(c['kappa_irr'], c['kappa_v1'], c['kappa_v2']) < 0:
        cls.append('negative-kappa')
    if not (0.0 <= c['alpha'] <= 1.0):
        cls.append('alpha-outside-0-1')
    if c['T_irr'] == 0 and c['T_int'] == 0:
        cls.append('zero-T')
    return cls


def guillot_case(case):
    from taurex.data.profiles.temperature import Guillot2010
    from taurex.data.planet import Planet
    from taurex.constants import G, MJUP, RJUP
    r = core.R(case)
    fx.reset_caches()
    N = case['N']
    P = grid(case['grid'], N)
    m, rad = PLANETS[case['planet']]
    pl = Planet(planet_mass=m, planet_radius=rad)
    grav = ref.surface_gravity(m * MJUP, rad * RJUP, G)
    pars = dict((k, case[k]) for k in ('T_irr', 'kappa_irr', 'kappa_v1', 'kappa_v2', 'alpha', 'T_int'))
    want, tol, T4 = ref.guillot(P, grav, pars['T_irr'], pars['kappa_irr'], pars['kappa_v1'], pars['kappa_v2'],
                                pars['alpha'], pars['T_int'])
    cls = guillot_class(case)
    real = bool(np.all(np.isfinite(T4)) and np.all(T4 > 0))
    if 'zero-kappa' in cls or 'negative-T' in cls or not real:
        expect = 'reject'
    elif cls:
        expect = 'either'          # outside the documented bounds, closed form still a positive real
    else:
        expect = 'valid'
    tag = '%s/%s' % ('+'.join(cls) if cls else 'in-bounds', 'closed-form-real' if real else 'closed-form-not-real')

    def make():
        if case['via'] == 'ctor':
            return Guillot2010(**pars)
        o = Guillot2010()
        fp = o.fitting_parameters()
        for k, name in (('T_irr', 'T_irr'), ('kappa_irr', 'kappa_irr'), ('kappa_v1', 'kappa_v1'),
                        ('kappa_v2', 'kappa_v2'), ('alpha', 'alpha'), ('T_int', 'T_int_guillot')):
            fp[name][3](pars[k])
        return o
    # signature of a missing rejection: the first structural class only (few, stable signatures)
    T = evaluate(r, 'guillot', tag, make, N, P, pl, None, expect, reject_tag=('zero-T' if 'zero-T' in cls else (cls[0] if cls else 'in-bounds')),
                 pars=pars, gravity=grav, T4_ref=T4)
    if T is not None and real and np.all(np.isfinite(T)):
        ok = bool(np.all(np.abs(T - want) <= tol))
        r.check(ok, 'closed-form', 'guillot/closed-form/%s' % tag, got=T, want=want, tol=tol, pars=pars, gravity=grav)
        r.nontrivial = True
    return r



# ---------------------------------------------------------------------------------------------
# history phase: one live profile object driven through every sequence of fitting-parameter updates
# (what a retrieval does), evaluated after each, against a fresh object given the net settings
# ---------------------------------------------------------------------------------------------
HIST_FAMILIES = {
    'npoint': [['T_surface', 2500.0], ['T_surface', 600.0], ['T_top', 300.0], ['T_top', 2400.0], ['T_point1', 2500.0],
               ['T_point1', 350.0], ['P_point1', 1e4], ['P_point1', 1e1], ['P_point1', 1e7], ['P_top', 1e0],
               ['P_surface', 1e5],
               # -1 is how an end pressure is declared unset (taken from the pressure grid); it is also what is stored
               # in an output file for an unset end, and may come back through the setter
               ['P_top', -1], ['P_surface', -1]],
    'guillot': [['T_irr', 800.0], ['T_irr', 2200.0], ['kappa_irr', 0.1], ['kappa_irr', 0.0], ['kappa_v1', 0.05],
                ['kappa_v2', 0.0005], ['alpha', 0.1], ['alpha', 0.9], ['T_int_guillot', 600.0],
                # a channel weight outside [0, 1] (the closed form is defined for it and the constructor takes it)
                ['alpha', 1.25], ['alpha', -0.2]],
    'rodgers': [['T_1', 2500.0], ['T_1', 300.0], ['T_3', 2500.0], ['T_5', 300.0], ['correlation_length', 1.0],
                ['correlation_length', 20.0]],
    'iso': [['T', 300.0], ['T', 2500.0]],
}
for _fam in HIST_FAMILIES:
    HIST_FAMILIES[_fam] = HIST_FAMILIES[_fam] + [['__reinit__', 'wide'], ['__reinit__', 'narrow']]
# the planet the profile was initialised with is updated in place (what a retrieval fitting the mass or the radius
# does to the one Planet object all components share); the profile is read again without being re-initialised
HIST_FAMILIES['guillot'] = HIST_FAMILIES['guillot'] + [['__planet__', ['planet_mass', 4.0]],
                                                       ['__planet__', ['planet_radius', 0.5]]]
# two interior nodes: each node pressure and temperature moved on its own (incl. past the other node: rejected)
HIST_FAMILIES['npoint2'] = [['T_point1', 2300.0], ['T_point2', 500.0], ['P_point1', 1e2], ['P_point1', 3e4], ['P_point2', 3e2],
                            ['P_point2', 1e5], ['T_surface', 700.0], ['T_top', 2000.0]]
# a small alphabet explored one level deeper: a temperature made negative (rejected), something else changed while it
# is, and the temperature repaired - what comes back then is the profile of the settings then in force
HIST_DEEP = {'guillot-err': [['T_irr', -800.0], ['T_irr', 900.0], ['kappa_v1', 0.05], ['kappa_irr', 0.1], ['alpha', 0.8],
                             ['T_int_guillot', -50.0], ['T_int_guillot', 300.0]],
             'npoint-err': [['P_point1', 1e7], ['P_point1', 1e2], ['T_point1', 2500.0], ['T_top', 300.0],
                            ['T_point1', 90000.0], ['T_surface', 900.0]]}


def hist_make(fam, net=None):
    """net: settings to go into the constructor (the fresh comparison object of the history phase is built from the net
    settings directly, not by repeating the setter calls)."""
    from taurex.data.profiles.temperature import NPoint, Guillot2010, Rodgers2000, Isothermal
    net = dict(net or {})
    fam = {'guillot-err': 'guillot', 'npoint-err': 'npoint'}.get(fam, fam)
    if fam == 'npoint2':
        return NPoint(T_surface=net.get('T_surface', 1500.0), T_top=net.get('T_top', 1000.0),
                      temperature_points=[net.get('T_point1', 1300.0), net.get('T_point2', 1100.0)],
                      pressure_points=[net.get('P_point1', 1e4), net.get('P_point2', 1e1)],
                      P_surface=net.get('P_surface', 1e6), P_top=net.get('P_top', 1e-1), smoothing_window=10,
                      limit_slope=600.0)
    if fam == 'npoint':
        return NPoint(T_surface=net.get('T_surface', 1500.0), T_top=net.get('T_top', 1000.0),
                      temperature_points=[net.get('T_point1', 1200.0)], pressure_points=[net.get('P_point1', 1e3)],
                      P_surface=net.get('P_surface', 1e6), P_top=net.get('P_top', 1e-1), smoothing_window=10,
                      limit_slope=600.0)
    if fam == 'guillot':
        return Guillot2010(T_irr=net.get('T_irr', 1500.0), kappa_irr=net.get('kappa_irr', 0.01),
                           kappa_v1=net.get('kappa_v1', 0.005), kappa_v2=net.get('kappa_v2', 0.002),
                           alpha=net.get('alpha', 0.3), T_int=net.get('T_int_guillot', 200.0))
    if fam == 'rodgers':
        layers = [1500.0, 1300.0, 1100.0, 900.0, 700.0]
        for i_ in range(5):
            layers[i_] = net.get('T_%d' % (i_ + 1), layers[i_])
        kw = {}
        if 'correlation_length' in net:
            kw['correlation_length'] = net['correlation_length']
        return Rodgers2000(temperature_layers=layers, **kw)
    return Isothermal(T=net.get('T', 1000.0))


def hist_eval(t):
    """('profile', array) or ('invalid', exception class name)"""
    from taurex.exceptions import InvalidModelException
    try:
        return 'profile', np.array(t.profile, dtype=float)
    except InvalidModelException as e:
        return 'invalid', type(e).__name__


def hist_fn(case):
    from taurex.data import Planet
    r = core.R(case)
    fam = case['fam']
    N = 5
    P = np.logspace(6, -1, N)

    grids = {'g0': P, 'wide': np.logspace(7, -4, N), 'narrow': np.logspace(5, 1, N)}
    cur = {'P': P}

    pnet = {}

    def fresh(planet=None, netkw=None):
        t = hist_make(fam, netkw)
        if planet is None:
            planet = Planet()
            for n_ in sorted(pnet):
                planet.fitting_parameters()[n_][3](pnet[n_])
        t.initialize_profile(planet, N, cur['P'])
        return t

    live_planet = Planet()
    live = fresh(live_planet)
    hist_eval(live)
    net = {}
    names = []
    for k, (name, value) in enumerate(case['hist']):
        if name == '__reinit__':
            # the same profile object is initialised again on another pressure grid with the same layer count
            cur['P'] = grids[value]
            live.initialize_profile(live_planet, N, cur['P'])
        elif name == '__planet__':
            live_planet.fitting_parameters()[value[0]][3](value[1])
            pnet[value[0]] = value[1]
            name = value[0]
        else:
            live.fitting_parameters()[name][3](value)
            net[name] = value
        names.append(name)
        got = hist_eval(live)
        again = hist_eval(live)         # read a second time without touching anything: the same verdict, the same values
        r.check(again[0] == got[0] and (got[0] != 'profile' or np.array_equal(again[1], got[1], equal_nan=True)),
                'history-verdict', 'history-second-read-differs/%s' % fam, first=got[0], second=again[0],
                hist=case['hist'][:k + 1])
        from taurex.exceptions import InvalidModelException
        try:
            f = fresh(netkw=net)        # the net settings as constructor arguments
            want = hist_eval(f)
        except InvalidModelException as e:      # a constructor may already refuse the values
            want = ('invalid', type(e).__name__)
        sig = '%s/ops=%s' % (fam, '>'.join(names))
        ok = r.check(got[0] == want[0], 'history-verdict', 'history-verdict/' + sig, live=got[0], fresh=want[0],
                     hist=case['hist'][:k + 1])
        fin = True
        if got[0] == 'profile':
            fin = bool(np.all(np.isfinite(got[1])) and np.all(got[1] > 0))
            if not fin and fam in ('guillot', 'guillot-err') and not (0.0 <= net.get('alpha', 0.3) <= 1.0) and \
                    bool(np.any(np.isnan(got[1]))):
                # the recorded defect of the constructor path (no validation of T^4), reached through the setter
                r.check(False, 'rejects-unphysical', 'guillot/accepted-unphysical/alpha-outside-0-1/returned-nan',
                        got=got[1], hist=case['hist'][:k + 1])
            else:
                r.check(fin, 'history-finite-positive', 'history-nonfinite/' + sig, got=got[1], hist=case['hist'][:k + 1])
        if ok and got[0] == 'profile' and fin:
            ok = r.eq(got[1], want[1], 'history-independence', 'history/' + sig, rtol=1e-12, hist=case['hist'][:k + 1])
            r.observe(got[1])
        else:
            r.observe(got[0], got[1] if got[0] == 'invalid' else 0)
        if not ok:
            break
    r.nontrivial = len(case['hist']) > 1
    return r


# ------------------------------------------------------------------------------------------------
# enumeration
# ------------------------------------------------------------------------------------------------
def explore(ctx):
    thorough = ctx.tier == 'thorough'
    grids = ['std', 'irregular', 'narrow'] + (['low', 'taurex'] if thorough else [])
    ns = NS + ([4, 6, 8, 50] if thorough else [])

    iso = [{'N': N, 'grid': g} for N in ns for g in grids]
    ctx.run_cases('iso_case', iso, phase='iso')

    # NPoint
    windows = WINDOWS + ([0, 3, 50, 99] if thorough else [])
    npc = []
    for N, g in itertools.product(ns, grids):
        for npts in (0, 1, 2, 3):
            tset = 'all' if (thorough or npts <= 1) else 'basic'
            pns = ['ordered'] if npts == 0 else ['ordered', 'clustered', 'on-layer', 'equal', 'inverted', 'below-top',
                                                  'negative']
            for pn, ps in itertools.product(pns, ['none', 'neg', 'outside', 'inside', 'swapped']):
                slopes = ['default']
                if pn in ('ordered', 'clustered') and ps in ('none', 'inside'):
                    slopes = ['default', 'loose', 'tight', 'exact']
                for sl in slopes:
                    npc.append({'N': N, 'grid': g, 'npts': npts, 'pn': pn, 'ps': ps, 'slope': sl, 'tset': tset,
                                'windows': windows if sl == 'default' else windows[:2]})
    ctx.run_cases('npoint_case', npc, phase='npoint')

    nmax = 200 if thorough else 60
    allw = list(range(0, 101)) + [0.5, 2.5, 33.3, 99.9]
    win = [{'N': N, 'grid': g, 'windows': allw} for N in range(2, nmax + 1) for g in (['std', 'irregular'] if thorough else ['std'])]
    ctx.run_cases('window_case', win, phase='window')

    # arrays
    arr = []
    for N, g in itertools.product(ns, grids):
        for nctrl in [2, 1, 3, 5, 'N', 'N+1', 'N-1', 100]:
            for rev in (False, True):
                arr.append({'N': N, 'grid': g, 'nctrl': nctrl, 'pp': None, 'reverse': rev, 'full': thorough or nctrl in (1, 2, 3)})
                for pp in ['match', 'wider', 'narrower', 'ascending', 'dup', 'on-layer-dup', 'unsorted']:
                    if ctrl_count(nctrl, N) < 2 and pp in ('dup', 'on-layer-dup', 'unsorted', 'ascending'):
                        continue
                    arr.append({'N': N, 'grid': g, 'nctrl': nctrl, 'pp': pp, 'reverse': rev,
                                'full': thorough or nctrl in (2, 3)})
    ctx.run_cases('array_case', arr, phase='array')

    fil = []
    for N, g in itertools.product(ns if thorough else [2, 5, 13, 100], grids if thorough else ['std', 'irregular']):
        for nrows in [2, 3, 'N', 'N+1']:
            for cols, delim, punit in [('T', None, 'Pa'), ('PT', None, 'Pa'), ('TP', None, 'Pa'), ('PT', ',', 'Pa'),
                                       ('PT', None, 'bar'), ('TP', ',', 'bar'),
                                       # a temperature-only file read with a pressure unit declared anyway
                                       ('T', None, 'bar')]:
                for skip in (0, 1):
                    fil.append({'N': N, 'grid': g, 'nrows': nrows, 'cols': cols, 'delim': delim, 'punit': punit,
                                'skip': skip})
                    if skip == 0 and delim is None:
                        fil.append({'N': N, 'grid': g, 'nrows': nrows, 'cols': cols, 'delim': delim, 'punit': punit,
                                    'skip': skip, 'tunit': 'kK'})
    ctx.run_cases('file_case', fil, phase='file')

    rod = [{'N': N, 'grid': g, 'h': h} for N in ns for g in grids
           for h in ([5.0, 1.0, 10.0] + ([0.1, 1.5, 7.0, 50.0] if thorough else [0.1]))]
    ctx.run_cases('rodgers_case', rod, phase='rodgers')

    gui = core.product_cases(G_DIMS, core=G_CORE, d=2, full=False)
    if thorough:
        # full product of all parameter letters; the three fixture dimensions at <= 2 deviations
        pdims = dict((k, v) for k, v in G_DIMS.items() if k not in ('N', 'grid', 'planet', 'via'))
        seen = set(core.ohash(core.jsonable(c)) for c in gui)
        for c in core.product_cases(pdims, full=True):
            for N, g, pl, via in [(5, 'std', 'jupiter', 'ctor'), (13, 'irregular', 'dense', 'setter')]:
                cc = dict(c, N=N, grid=g, planet=pl, via=via)
                h = core.ohash(core.jsonable(cc))
                if h not in seen:
                    seen.add(h)
                    gui.append(cc)
    # opacities that are not zero themselves but whose ratio to the infrared opacity underflows to exactly zero (the
    # closed form divides by the ratio): rejected like a zero opacity
    base = dict((k, v[0]) for k, v in G_DIMS.items())
    for kv, kir in (('kappa_v1', 1e10), ('kappa_v2', 1e12), ('kappa_v1', 1e300), ('kappa_v2', 1e300)):
        for via in G_DIMS['via']:
            for N in (5, 2):
                gui.append(dict(base, **{kv: 1e-315 if kir < 1e300 else 1e-30, 'kappa_irr': kir, 'via': via, 'N': N}))
    ctx.run_cases('guillot_case', gui, phase='guillot')

    ctx.bounds.update(layer_counts=ns, grids=grids, npoint_cases=len(npc), window_layer_counts='2..%d' % nmax,
                      windows_swept='0..100 (all integers) + 4 fractional', array_cases=len(arr), file_cases=len(fil),
                      rodgers_cases=len(rod), guillot_cases=len(gui),
                      guillot='quick: <=2 deviations + full product of %s; thorough: + full product of the six '
                              'parameters' % (G_CORE,))
    import itertools as _it
    depth = 3 if ctx.tier == 'quick' else 4
    hc = []
    for fam, alpha in HIST_FAMILIES.items():
        dd = depth if len(alpha) <= 9 or ctx.tier == 'thorough' else depth - 1
        for d in range(1, dd + 1):
            hc += [{'fam': fam, 'hist': [list(o) for o in h]} for h in _it.product(alpha, repeat=d)]
    for fam, alpha in HIST_DEEP.items():
        for d in range(1, depth + 2):
            hc += [{'fam': fam, 'hist': [list(o) for o in h]} for h in _it.product(alpha, repeat=d)]
    ctx.bounds.update(history_depth=depth, histories=len(hc))
    ctx.run_cases('hist_fn', hc, phase='histories')
