"""C13 - restricting the spectral grid never changes the values computed on it."""
import itertools
import math
import numpy as np

from mc import core, fixtures as fx

ID = 'C13'
RULE = ('model level: full product of (native-grid configuration: one molecule uniform/log, two molecules with '
        'nested / non-nested coarser or equally long but shifted second grid) x request order (ascending / descending) x observation widths (mid-point implied / all as wide as the widest implied) x (every contiguous sub-range with >= 2 points of the 10-point '
        'coarsening of the finest grid, used as requested grid and as observation) x cutoff flag x model family x '
        'magnitude; restricted run vs full run at the same wavenumbers, and binned to the observation.  opacity '
        'level: every contiguous sub-range of a molecule\'s own points and every contiguous sub-range of a finer '
        'foreign grid, cross-section and k-table layouts.  Non-trivial = the request is a proper sub-range.')
ASSUME = ['observation widths = mid-point implied widths (the stated width condition holds by construction)',
          'emission: exact comparison unless the column optical depth reaches the clamp (then the (2N+1) exp(-10) B_max licence; counted in emission-licence-applied)',
          'numba/numpy trusted']

TG = fx.T_GRIDS[3]
PG = fx.P_GRIDS[3]


def native(kind, n=40):
    if kind == 'uniform':
        return np.array([1000.0 + 100.0 * k for k in range(n)])
    return np.array([1000.0 * 1.04 ** k for k in range(n)])


def coarse(kind, nat):
    if kind == 'nested':
        return nat[3::5][:7].copy()
    return np.array([0.5 * (nat[i] + nat[i + 1]) + 0.2 * (nat[i + 1] - nat[i]) for i in range(2, 37, 5)])


GRIDCFG = ['one-uniform', 'one-log', 'two-nested-uniform', 'two-offgrid-uniform', 'two-offgrid-log',
           'two-offgrid-coarsefirst-uniform', 'two-samelen-offset-uniform', 'two-samelen-offset-log',
           # the second molecule's points nearly coincide with the first one's (the same line list re-calibrated by a
           # few parts per million): they are still other points
           'two-samelen-ppm-uniform', 'two-samelen-ppm-log',
           # the second molecule is tabulated over the middle of the range only: requests wholly beyond one of its
           # ends see its edge value, exactly as the full computation does at those wavenumbers
           'two-narrow-uniform', 'two-narrow-log',
           # collision-induced absorption tabulated on its own, much coarser wavenumber grid
           'one-uniform-cia', 'one-log-cia',
           # ... and on a much finer grid than the molecules' (64 collision points per native spacing)
           'one-uniform-finecia', 'one-log-finecia']
MAGS = {'thin': 1e-31, 'tau1': 1e-27, 'mixed': 1.0, 'band': 1.0}


def install(cfg, mag, kind):
    from taurex.cache import OpacityCache
    gk = 'log' if ('-log' in cfg) else 'uniform'
    nat = native(gk)
    per = None
    m = MAGS[mag] * (0.3 if kind == 'emission' else 1.0)
    if mag == 'mixed':
        per = 10 ** np.linspace(-33, -20, len(nat))
        if kind == 'emission':
            per = 10 ** np.linspace(-33, -28.5, len(nat))
    if mag == 'band':
        # a strong band over the upper third of the grid (every layer opaque there), thin elsewhere: a window inside the
        # band is saturated at every computed wavenumber, the full grid is not
        per = np.where(np.arange(len(nat)) >= (2 * len(nat)) // 3, 1e-21, 1e-30)
    t1 = fx.table(3, 3, len(nat), 1.0, salt=('c13', 'H2O'), per_wn=per) * m
    OpacityCache().add_opacity(fx.TinyOp('H2O', nat, TG, PG, t1))
    grids = {'H2O': nat}
    tabs = {'H2O': t1}
    if cfg.endswith('-finecia'):
        from taurex.cache import CIACache
        cw = np.concatenate([nat[:-1, None] + (nat[1:, None] - nat[:-1, None]) * (np.arange(64) / 64.0)[None, :]], axis=0).ravel()
        cw = np.concatenate([[nat[0] - 7.0], cw, [nat[-1], nat[-1] + 7.0]])
        cx = 10 ** fx.rng('c13finecia').uniform(-0.7, 0.7, size=(3, len(cw))) * (1e-54 if kind != 'emission' else 3e-56)
        CIACache().add_cia(fx.TinyCIA('H2-He', cw, [100.0, 1000.0, 3500.0], cx))
    if cfg.endswith('-cia'):
        from taurex.cache import CIACache
        cw = coarse('off', nat)
        cx = fx.rng('c13cia').uniform(0.3, 3.0, size=(3, len(cw))) * (1e-54 if kind != 'emission' else 3e-56)
        CIACache().add_cia(fx.TinyCIA('H2-He', cw, [100.0, 1000.0, 3500.0], cx))
    if cfg.startswith('two'):
        if 'narrow' in cfg:
            cg = (nat + 0.3 * np.gradient(nat))[12:28]
        elif 'ppm' in cfg:
            cg = nat * (1.0 + 5e-6)
        elif 'samelen' in cfg:     # same number of points as the finest grid, shifted by 40 % of a spacing
            cg = nat + 0.4 * np.gradient(nat)
        else:
            cg = coarse('nested' if 'nested' in cfg else 'off', nat)
        t2 = fx.table(3, 3, len(cg), 1.0, salt=('c13', 'CH4')) * (1e-27 if mag != 'thin' else 1e-31) * (30 if kind != 'emission' else 1.5)
        OpacityCache().add_opacity(fx.TinyOp('CH4', cg, TG, PG, t2))
        grids['CH4'] = cg
        tabs['CH4'] = t2
    return nat, grids, tabs


def build(case):
    gases = [['H2O', ['const', 1e-4]]]
    if case['cfg'].startswith('two'):
        gases.append(['CH4', ['const', 1e-4]])
    if 'coarsefirst' in case['cfg']:
        gases.reverse()
    contribs = ['abs', 'ray'] + ([['cia', ['H2-He']]] if case['cfg'].endswith('cia') else [])
    spec = {'kind': case['kind'], 'N': 4, 'T': ['dec'], 'gases': gases, 'contribs': contribs, 'ngauss': 2}
    return fx.build_model(spec)


def model_fn(case):
    from taurex.binning import FluxBinner
    from taurex.util.util import compute_bin_edges
    r = core.R(case)
    fx.reset_caches()
    nat, grids, tabs = install(case['cfg'], case['mag'], case['kind'])
    m = build(case)
    gf, sf, tf, _ = m.model()
    gf, sf, tf = np.array(gf, float), np.array(sf, float), np.array(tf, float)
    r.eq(gf, nat, 'native-grid-is-finest', 'native-grid', rtol=0)
    i, j = case['sub']
    req = nat[::4][i:j].copy()
    tag = '%s/%s/%s' % (case['kind'], case['cfg'], 'cutoff' if case['cutoff'] else 'nocutoff')
    # fresh model for the restricted run (no state shared with the full run)
    fx.reset_caches()
    install(case['cfg'], case['mag'], case['kind'])
    m2 = build(case)
    req_passed = req[::-1].copy() if case.get('order') == 'descending' else req
    try:
        gr, sr, tr, _ = m2.model(wngrid=req_passed, cutoff_grid=case['cutoff'])
    except Exception as e:
        r.check(False, 'no-exception', 'exception/%s/%s' % (type(e).__name__, tag), exc=repr(e), request=req)
        return r
    gr, sr, tr = np.array(gr, float), np.array(sr, float), np.array(tr, float)
    emission_lic = 0.0
    idx = np.searchsorted(gf, gr)
    ok = len(gr) > 0 and np.all(idx < len(gf)) and np.all(gf[np.minimum(idx, len(gf) - 1)] == gr)
    if not r.check(bool(ok), 'restricted-grid-subset-of-native', 'grid-subset/' + tag, got=gr):
        return r
    r.check(bool(gr.min() <= req.min() and gr.max() >= req.max()), 'restricted-grid-covers-request',
            'grid-cover/' + tag, got=[gr.min(), gr.max()], req=[req.min(), req.max()])
    if not case['cutoff']:
        r.eq(gr, gf, 'no-cutoff-full-grid', 'nocutoff/grid', rtol=0)
    if case['kind'] == 'transmission':
        Tf = tf[:, idx]
        bad = []
        for l in range(Tf.shape[0]):
            if Tf[l].max() < math.exp(-10):
                okl = np.all(tr[l] <= math.exp(-10) * (1 + 1e-9))
            else:
                okl = core.close(tr[l], Tf[l], 1e-9, 1e-15)
            if not okl:
                bad.append(l)
        r.check(not bad, 'restricted-transmittance-equals-full', 'trans/' + tag, layers=bad,
                restricted=tr[bad[0]] if bad else None, full=Tf[bad[0]] if bad else None)
        sat = np.array([Tf[l].max() < math.exp(-10) for l in range(Tf.shape[0])])
        if not sat.any():
            r.eq(sr, sf[idx], 'restricted-spectrum-equals-full', 'spectrum/' + tag, request=req)
        else:
            zb = np.asarray(m.altitude_boundaries, float)
            slack = 2 * np.sum(((m.planet.fullRadius + zb[:-1]) * np.asarray(m.deltaz))[sat]) * math.exp(-10) / m.star.radius ** 2
            r.check(bool(np.all(np.abs(sr - sf[idx]) <= slack + 1e-9 * sf[idx])), 'restricted-spectrum-equals-full',
                    'spectrum-licensed/' + tag)
    else:
        # emission: the clamp at tau >= 10 is decided on the computed grid.  It can only trigger when some
        # cumulative vertical optical depth reaches 10 at every computed wavenumber; then each of the at most
        # 2N+1 transmittance terms may be dropped, each worth at most exp(-10) x the hottest-layer blackbody ratio.
        from mc.ref import rt
        dens = np.asarray(m.densityProfile, float)
        dzv = np.asarray(m.deltaz, float)
        col = np.zeros(len(gf))
        for c in m.contribution_list:
            col = col + np.sum(np.asarray(c.sigma_xsec, float) * (dens * dzv)[:, None], axis=0)
        lic = 0.0
        if col.max() >= 9.9:
            Tm = float(np.max(m.temperatureProfile))
            ratio = rt.planck_pi(gr, Tm) / rt.planck_pi(gr, m.star.temperature) * (m.planet.fullRadius / m.star.radius) ** 2
            lic = (2 * m.nLayers + 1) * math.exp(-10) * ratio
            r.count('emission-licence-applied')
        emission_lic = lic
        r.check(bool(np.all(np.abs(sr - sf[idx]) <= lic + 1e-9 * np.abs(sf[idx]))), 'restricted-spectrum-equals-full',
                'spectrum/' + tag, request=req, got=sr, want=sf[idx], licence=lic)
    # the per-source entry points on the restricted grid against the same entry points on the full grid
    if case.get('sub') in ([2, 5], [7, 10], [0, 10], [0, 2]) and case['mag'] == 'tau1' and case.get('order') is None:
        try:
            _, cdf = m.model_contrib()
            _, cdr = m2.model_contrib(wngrid=req_passed, cutoff_grid=case['cutoff'])
            _, fdf = m.model_full_contrib()
            _, fdr = m2.model_full_contrib(wngrid=req_passed, cutoff_grid=case['cutoff'])
        except Exception as e:
            cdf = None
            r.check(False, 'no-exception', 'exception/%s/per-source/%s' % (type(e).__name__, tag), exc=repr(e))
        if cdf is not None:
            r.check(sorted(cdf) == sorted(cdr), 'per-source-restricted', 'per-source/names/' + tag)
            pairs = [(n_, np.asarray(cdf[n_][0], float), np.asarray(cdr[n_][0], float)) for n_ in cdf if n_ in cdr]
            for n_ in fdf:
                if n_ in fdr and len(fdf[n_]) == len(fdr[n_]):
                    pairs += [('%s/%s' % (n_, a[0]), np.asarray(a[1], float), np.asarray(b[1], float))
                              for a, b in zip(fdf[n_], fdr[n_])]
            for n_, full_, restr_ in pairs:
                if restr_.shape == (len(gr),):
                    r.check(bool(np.all(np.abs(restr_ - full_[idx]) <= emission_lic + 1e-9 * np.abs(full_[idx]))),
                            'per-source-restricted', 'per-source/%s' % tag, source=n_, got=restr_, want=full_[idx])
                else:
                    r.check(False, 'per-source-restricted', 'per-source/shape/' + tag, source=n_, got=restr_.shape)
            # ... and with the two models changing roles: the one that has only ever worked on the restricted grid is
            # asked for the full grid, the one that has only worked on the full grid for the restricted one (nothing
            # sized for the previous request may be left in a source)
            try:
                _, fdf2 = m2.model_full_contrib()
                _, fdr2 = m.model_full_contrib(wngrid=req_passed, cutoff_grid=case['cutoff'])
            except Exception as e:
                fdf2 = None
                r.check(False, 'no-exception', 'exception/%s/per-source-switched/%s' % (type(e).__name__, tag), exc=repr(e))
            if fdf2 is not None:
                for n_ in fdf:
                    for (a, b, what) in [(x_, y_, 'full-after-restricted') for x_, y_ in zip(fdf[n_], fdf2.get(n_, []))] + \
                                        [(x_, y_, 'restricted-after-full') for x_, y_ in zip(fdr.get(n_, []), fdr2.get(n_, []))]:
                        av, bv = np.asarray(a[1], float), np.asarray(b[1], float)
                        r.check(av.shape == bv.shape and bool(np.all(np.abs(av - bv) <= emission_lic + 1e-9 * np.abs(av)))
                                if np.ndim(emission_lic) == 0 or av.shape == np.shape(emission_lic)
                                else av.shape == bv.shape and core.close(av, bv, 1e-9, float(np.max(emission_lic))),
                                'per-source-restricted', 'per-source-switched/%s/%s' % (what, tag), source='%s/%s' % (n_, a[0]),
                                got=bv, want=av)
    # binned to the observation (widths implied by the mid-points => the stated condition holds)
    if len(req) >= 2:
        w = compute_bin_edges(req)[-1]
        if case.get('widths') == 'max':      # every bin as wide as the widest implied one (still within the stated condition)
            w = np.full_like(w, w.max())
        b = FluxBinner(req, w)
        bf = np.array(b.bindown(gf, sf)[1], float)
        br = np.array(b.bindown(gr, sr)[1], float)
        blic = 0.0
        if case['kind'] == 'emission' and np.ndim(emission_lic) > 0:
            blic = float(np.max(emission_lic))
        r.check(bool(np.all(np.abs(br - bf) <= blic + 1e-9 * np.abs(bf))), 'binned-restricted-equals-binned-full',
                'binned/' + tag, request=req, got=br, want=bf, licence=blic)
    r.nontrivial = len(gr) < len(gf)
    r.observe(sr)
    return r


def opacity_fn(case):
    """Opacity.opacity / KTable.opacity on requested grids."""
    r = core.R(case)
    fx.reset_caches()
    nat = native(case['spacing'], 9)
    ng = case['ng']
    t = fx.table(3, 3, len(nat), 1e-24, salt=('c13op', case['spacing']))
    if ng:
        tt = t[..., None] * np.array([1.0, 2.5, 0.3])[:ng][None, None, None, :]
        w = np.array([0.2, 0.5, 0.3])[:ng]
        op = fx.TinyK('H2O', nat, TG, PG, tt, w / w.sum())
    else:
        op = fx.TinyOp('H2O', nat, TG, PG, t)
    T, P = case['TP']
    full = np.asarray(op.opacity(T, P, None), float)
    tag = 'ktable' if ng else 'xsec'
    kind, (i, j) = case['req']
    if kind == 'own':
        req = nat[i:j].copy()
        try:
            got = np.asarray(op.opacity(T, P, req), float)
        except Exception as e:
            r.check(False, 'no-exception', 'exception/%s/own/%s' % (type(e).__name__, tag), exc=repr(e))
            return r
        r.eq(got, full[i:j], 'own-points-unchanged', 'own/' + tag, rtol=1e-13, request=req)
    elif kind == 'near':
        # points a few parts per million away from the native ones: other points, whose values must lie between
        # the native neighbours and must not depend on how many of them are asked for at once
        near = nat * (1.0 + 5e-6)
        req = near[i:j].copy()
        try:
            got = np.asarray(op.opacity(T, P, req), float)
            allnear = np.asarray(op.opacity(T, P, near.copy()), float)
        except Exception as e:
            r.check(False, 'no-exception', 'exception/%s/near/%s' % (type(e).__name__, tag), exc=repr(e), request=req)
            return r
        if not r.check(got.shape[0] == len(req) and allnear.shape[0] == len(near), 'shape', 'shape/' + tag):
            return r
        r.eq(got, allnear[i:j], 'value-independent-of-request', 'near/' + tag, rtol=1e-12, request=req)
        for k, wv in enumerate(near):
            hi = min(int(np.searchsorted(nat, wv)), len(nat) - 1)
            lo = max(hi - 1, 0)
            a, b = np.minimum(full[lo], full[hi]), np.maximum(full[lo], full[hi])
            r.check(bool(np.all(allnear[k] >= a * (1 - 1e-12)) and np.all(allnear[k] <= b * (1 + 1e-12))),
                    'between-neighbouring-native-values', 'between-near/' + tag, wn=wv, got=allnear[k], lo=a, hi=b)
    else:
        fine = np.sort(np.concatenate([nat[:-1] + f * np.diff(nat) for f in (0.25, 0.6)] +
                                      [[nat[0] * 0.9, nat[-1] * 1.1]]))
        req = fine[i:j].copy()
        try:
            got = np.asarray(op.opacity(T, P, req), float)
        except Exception as e:
            r.check(False, 'no-exception', 'exception/%s/foreign/%s' % (type(e).__name__, tag), exc=repr(e),
                    request=req)
            return r
        if not r.check(got.shape[0] == len(req), 'shape', 'shape/' + tag):
            return r
        for k, wv in enumerate(req):
            hi = int(np.searchsorted(nat, wv))
            lo = hi - 1
            lo, hi = max(lo, 0), min(hi, len(nat) - 1)
            a, b = np.minimum(full[lo], full[hi]), np.maximum(full[lo], full[hi])
            okk = np.all(got[k] >= a * (1 - 1e-12)) and np.all(got[k] <= b * (1 + 1e-12))
            r.check(bool(okk), 'between-neighbouring-native-values', 'between/' + tag, wn=wv, got=got[k], lo=a, hi=b,
                    request=req)
    r.nontrivial = (j - i) < len(nat)
    r.observe(got)
    return r


def reuse_fn(case):
    """One live model, a sequence of differently restricted evaluations; each must equal what a fresh model
    returns for the same request (the value at a wavenumber depends neither on which other wavenumbers are
    computed now nor on which were computed before)."""
    r = core.R(case)
    fx.reset_caches()
    nat, grids, tabs = install(case['cfg'], 'tau1', case['kind'])
    live = build(case)
    names = []
    for k, sub in enumerate(case['seq']):
        req = None if sub is None else (nat[::4][sub[0]:sub[1]].copy() if len(sub) == 2 else
                                        nat[::sub[2]][sub[0]:sub[1]].copy())
        names.append('full' if sub is None else 'sub')
        try:
            g, s_, t, _ = live.model() if req is None else live.model(wngrid=req)
        except Exception as e:
            r.check(False, 'no-exception', 'reuse-exception/%s/%s' % (type(e).__name__, '>'.join(names)), exc=repr(e))
            return r
        fx_state = None
        fresh = build(case)
        gf, sf, tf, _ = fresh.model() if req is None else fresh.model(wngrid=req)
        sig = '%s/%s/%s' % (case['kind'], case['cfg'], '>'.join(names))
        r.eq(np.array(g, float), np.array(gf, float), 'reuse-grid', 'reuse-grid/' + sig, rtol=0, seq=case['seq'][:k + 1])
        if len(g) == len(gf):
            r.eq(np.array(s_, float), np.array(sf, float), 'reuse-spectrum', 'reuse/' + sig, rtol=1e-12, seq=case['seq'][:k + 1])
            r.eq(np.array(t, float), np.array(tf, float), 'reuse-tau', 'reuse-tau/' + sig, rtol=1e-12, atol=1e-300)
        r.observe(np.array(s_, float))
    r.nontrivial = True
    return r


def explore(ctx):
    thorough = ctx.tier == 'thorough'
    subs = [(i, j) for i in range(10) for j in range(i + 2, 11)]
    mcases = []
    mags = ['tau1', 'thin', 'mixed', 'band']
    for cfg, sub, cutoff, kind, mag in itertools.product(GRIDCFG, subs, [True, False], ['transmission', 'emission'], mags):
        if not thorough:
            if not cutoff and sub not in ((0, 10), (2, 5), (7, 10)):
                continue
            if mag != 'tau1' and (sub[1] - sub[0]) not in (2, 5):
                continue
        mcases.append({'cfg': cfg, 'sub': list(sub), 'cutoff': cutoff, 'kind': kind, 'mag': mag})
        if cutoff and mag == 'tau1' and (thorough or cfg in ('one-log', 'two-offgrid-log', 'one-uniform')):
            for order, widths in (('descending', 'midpoint'), ('ascending', 'max'), ('descending', 'max')):
                mcases.append({'cfg': cfg, 'sub': list(sub), 'cutoff': cutoff, 'kind': kind, 'mag': mag,
                               'order': order, 'widths': widths})
    ctx.run_cases('model_fn', mcases, phase='model')
    ocases = []
    for spacing, ng, TP in itertools.product(['uniform', 'log'], [0, 1, 3], [[1000.0, 1e3], [3000.0, 1e-3]]):
        for i in range(9):
            for j in range(i + 1, 10):
                ocases.append({'spacing': spacing, 'ng': ng, 'TP': TP, 'req': ['own', [i, j]]})
                if thorough or (j - i) in (1, 2, 4, 8, 9):
                    ocases.append({'spacing': spacing, 'ng': ng, 'TP': TP, 'req': ['near', [i, j]]})
        nf = 18
        for i in range(nf):
            for j in range(i + 1, nf + 1):
                if thorough or (j - i) in (1, 2, 3, 7, nf):
                    ocases.append({'spacing': spacing, 'ng': ng, 'TP': TP, 'req': ['foreign', [i, j]]})
    ctx.run_cases('opacity_fn', ocases, phase='opacity')
    # [a, b] indexes the 4-fold coarsening; [a, b, step] a step-fold coarsening: [0, 9, 4], [0, 17, 2] and
    # [0, 5, 8] share their end points and differ in spacing only
    reqs = [None, [0, 3], [2, 6], [5, 10], [1, 3], [7, 9], [0, 17, 2], [0, 9, 4], [0, 5, 8]]
    depth = 3 if thorough else 2
    rcases = []
    for cfg in (GRIDCFG if thorough else ['one-log', 'two-offgrid-uniform', 'two-samelen-offset-log']):
        for kind in ('transmission', 'emission'):
            for d in range(2, depth + 1):
                for seq in itertools.product(reqs, repeat=d):
                    rcases.append({'cfg': cfg, 'kind': kind, 'seq': [q for q in seq]})
    ctx.run_cases('reuse_fn', rcases, phase='reuse')
    ctx.bounds.update(reuse_sequences=len(rcases), reuse_depth=depth)
    ctx.bounds.update(model_cases=len(mcases), opacity_cases=len(ocases), subranges=len(subs))
