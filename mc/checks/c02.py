"""C02 - emission / direct-image spectra equal the documented layered thermal integral."""
import math
import numpy as np

from mc import core, fixtures as fx, rthist
from mc.ref import rt, opac

ID = 'C02'
RULE = ('two phases.  histories: one live model, every sequence of parameter updates (13 letters incl. the stellar '
        'temperature) to depth 2 (thorough 3) and depth 3 (4) over a sub-alphabet, compared with a fresh model after every '
        'update.  inputs: cases = full product of the core dimensions (layers x temperature profile x opacity magnitude x '
        'quadrature points) plus every case with <= 2 deviations from the default over all 12 dimensions '
        '(thorough: <= 3 deviations, larger core); each case builds a fresh Emission/DirectImage model '
        '(cross-sections in memory or k-tables from pickle files through KTableCache) and compares model() '
        'and partial_model() with the reference layered integral.  Non-trivial = non-isothermal profile and '
        'at least one layer with vertical optical thickness in (1e-6, 10).')
ASSUME = ['small-scope hypothesis: layers<=5, 4 wavenumbers, tables 3x3, ngauss<=6', 'numba/numpy trusted',
          'density, altitude and mixing-ratio profiles read from the model (C10/C11)',
          'direct-image numerical prefactor accepted as 1 or 1/2 (statement fixes only Rp^2/d^2)']

WN = fx.WN_GRIDS[4]
TG = fx.T_GRIDS[3]
PG = fx.P_GRIDS[3]
CIA_T = [100.0, 1000.0, 3500.0]
GW = [0.2, 0.5, 0.3]

DIMS = {
    'N': [3, 1, 2, 5],
    'T': [['dec'], ['iso', 800.0], ['iso', 2000.0], ['inc'], ['hot1'], ['outside'], ['steps'], ['grad-iso']],
    'mag': ['tau1', 'zero', 'thin', 'mixed', 'sat'],
    'ngauss': [2, 1, 3, 4, 6, 101, 128],        # (beyond 100 points: another node routine may take over)
    'contribs': [['abs'], ['abs', 'cia'], ['abs', 'ray'], [], ['abs', 'cia', 'ray'], ['ray', 'cia'], ['ray', 'abs'],
                 ['cia', 'abs', 'ray']],
    'kind': ['emission', 'directimage'],
    'opmode': ['xsec', 'kdeg', 'kspread'],
    # (2e5 K: h c nu / k T is below 0.01 at the low end of the grid - the Rayleigh-Jeans end of the Planck function)
    'starT': [5000.0, 3000.0, 2e5],
    'rplanet': [1.0, 0.4],
    'rstar': [1.0, 0.3],
    'distance': [1.0, 7.0],
    'prange': [[1e6, 1e-1], [1e7, 1e-4]],
    # how the quadrature is chosen: constructor argument, or on the built model (built with two angles) through
    # set_num_gauss(n) / set_quadratures(Gauss-Legendre nodes and weights on [-1, 1])
    'quadvia': ['ctor', 'set_num_gauss', 'set_quadratures'],
    # type of the wavenumber axis of the cross-section tables (= the native grid): float64 or an integer np.arange axis
    'wndtype': ['float64', 'int64'],
    # abundance of the first active gas: absent everywhere, absent below and present aloft, present with a gap
    'h2o': [['const', 1e-4], ['const', 0.0], ['array', [0.0, 0.0, 2e-4, 2e-4]], ['array', [2e-4, 0.0, 0.0, 2e-4]]],
}
MAGS = {'zero': (0.0, None), 'thin': (1e-33, None), 'tau1': (1e-27, None),
        'mixed': (1.0, [1e-33, 1e-27, 1e-24, 1e-18]), 'sat': (1e-18, None)}
SPREAD = {'xsec': None, 'kdeg': [1.0, 1.0, 1.0], 'kspread': [0.2, 1.0, 5.0]}


def install(case):
    from taurex.cache import OpacityCache, CIACache
    mag, per = MAGS[case['mag']]
    tabs = {}
    for mol, f in (('H2O', 1.0), ('CH4', 0.37)):
        tabs[mol] = fx.table(3, 3, 4, 1.0, salt=('c02', mol), pattern='generic', per_wn=per) * mag * f
    cia = fx.rng('c02cia').uniform(0.5, 1.5, size=(3, 4)) * (0.0 if case['mag'] == 'zero' else 1e-53)
    CIACache().add_cia(fx.TinyCIA('H2-He', WN, CIA_T, cia))
    sp = SPREAD[case['opmode']]
    if sp is None:
        wd = case.get('wndtype', 'float64')
        for mol, t in tabs.items():
            OpacityCache().add_opacity(fx.TinyOp(mol, WN if wd == 'float64' else np.array(WN).astype(wd), TG, PG, t,
                                                 keep_dtype=wd != 'float64'))
    else:
        tabs = dict((mol, t[..., None] * np.array(sp)[None, None, None, :]) for mol, t in tabs.items())
        fx.install_ktables(tabs, GW, WN, TG, PG)
    return tabs, cia


def case_fn(case):
    from taurex.util.scattering import rayleigh_sigma_from_name
    r = core.R(case)
    fx.reset_caches()
    tabs, cia = install(case)
    contribs = [['cia', ['H2-He']] if c == 'cia' else c for c in case['contribs']]
    spec = {'kind': case['kind'], 'N': case['N'], 'prange': case['prange'],
            'planet': [case['rplanet'], 1.0], 'star': [case['rstar'], case['starT']],
            'distance': case['distance'], 'T': case['T'], 'ngauss': case['ngauss'],
            'gases': [['H2O', case.get('h2o', ['const', 1e-4])], ['CH4', ['array', [1e-5, 1e-3]]]], 'contribs': contribs}
    qv = case.get('quadvia', 'ctor')
    if qv != 'ctor':
        spec['ngauss'] = 2 if case['ngauss'] != 2 else 3
    m = fx.build_model(spec)
    if qv == 'set_num_gauss':
        m.set_num_gauss(case['ngauss'])
    elif qv == 'set_quadratures':
        m.set_quadratures(*np.polynomial.legendre.leggauss(case['ngauss']))
    grid, spectrum, tau_out, _ = m.model()
    spectrum = np.asarray(spectrum, float)
    N = m.nLayers
    wn = np.array(WN)
    T = np.asarray(m.temperatureProfile, float)
    P = np.asarray(m.pressureProfile, float)
    dens = np.asarray(m.densityProfile, float)
    dz = np.asarray(m.deltaz, float)
    isk = case['opmode'] != 'xsec'
    tag = '%s/%s' % (case['kind'], 'ktables' if isk else 'xsec')
    r.eq(grid, WN, 'native-grid', 'grid/' + tag, rtol=0)
    r.check(len(T) == N and len(dz) == N, 'layer-count', 'layers')
    # optical thickness per source and per component: {source name: {component: (dtau, dtau_g)}}
    parts = {}
    for c in m.contribution_list:
        nm = type(c).__name__
        comp = parts.setdefault(c.name, {})
        if nm == 'AbsorptionContribution':
            for mol in m.chemistry.activeGases:
                chi = np.asarray(m.chemistry.get_gas_mix_profile(mol), float)
                a = np.zeros((N, len(wn), len(GW))) if isk else np.zeros((N, len(wn)))
                for k in range(N):
                    a[k] += opac.interp_opacity(tabs[mol], TG, PG, T[k], P[k], 'linear') * chi[k] * dens[k] * dz[k]
                comp[mol] = (None, a) if isk else (a, None)
        elif nm == 'CIAContribution':
            chi = np.asarray(m.chemistry.get_gas_mix_profile('H2'), float) * \
                np.asarray(m.chemistry.get_gas_mix_profile('He'), float)
            a = np.zeros((N, len(wn)))
            for k in range(N):
                a[k] += fx.cia_ref(cia, CIA_T, T[k]) * chi[k] * dens[k] ** 2 * dz[k]
            comp['H2-He'] = (a, None)
        elif nm == 'RayleighContribution':
            for g in list(m.chemistry.activeGases) + list(m.chemistry.inactiveGases):
                s = rayleigh_sigma_from_name(g, wn)
                if s is not None:
                    chi = np.asarray(m.chemistry.get_gas_mix_profile(g), float)
                    if np.max(chi) > 0:        # a species that is absent everywhere need not be listed as a component
                        comp[g] = (s[None, :] * (chi * dens * dz)[:, None], None)

    def total(items):
        a = np.zeros((N, len(wn)))
        ag = None
        for x, xg in items:
            if x is not None:
                a = a + x
            if xg is not None:
                ag = xg if ag is None else ag + xg
        return a, ag
    dtau, dtau_g = total([v for comp in parts.values() for v in comp.values()])
    mus, wts = rt.gauss_nodes(case['ngauss'])
    F, I, L = rt.emission(wn, T, dtau, mus, wts, dtau_g, GW if isk else None)
    Rp = m.planet.fullRadius
    Rs = m.star.radius

    def percontrib(scale):
        # every source alone, and every component of every source alone, is the same integral over that source only
        _, cd = m.model_contrib()
        r.check(sorted(cd) == sorted(parts), 'contrib-names', 'contrib-names/' + tag, got=sorted(cd),
                want=sorted(parts))
        for name, comp in parts.items():
            if name not in cd:
                continue
            a, ag = total(list(comp.values()))
            Fc, _, Lc = rt.emission(wn, T, a, mus, wts, ag, GW if ag is not None else None)
            got = np.asarray(cd[name][0], float)
            r.check(bool(np.all(np.abs(got - Fc * scale) <= Lc * scale + 1e-9 * np.abs(Fc * scale))),
                    'source-alone-spectrum', 'alone/%s/%s' % (tag, name), got=got, want=Fc * scale)
        _, fd = m.model_full_contrib()
        for name, comp in parts.items():
            if name not in fd:
                r.check(False, 'full-contrib-names', 'full-names/' + tag, missing=name)
                continue
            got_c = dict((x[0], np.asarray(x[1], float)) for x in fd[name])
            r.check(sorted(got_c) == sorted(comp), 'component-names', 'component-names/%s/%s' % (tag, name),
                    got=sorted(got_c), want=sorted(comp))
            for cn, (a, ag) in comp.items():
                if cn not in got_c:
                    continue
                a_ = a if a is not None else np.zeros((N, len(wn)))
                Fc, _, Lc = rt.emission(wn, T, a_, mus, wts, ag, GW if ag is not None else None)
                r.check(bool(np.all(np.abs(got_c[cn] - Fc * scale) <= Lc * scale + 1e-9 * np.abs(Fc * scale))),
                        'component-alone-spectrum', 'component/%s/%s' % (tag, name), component=cn, got=got_c[cn],
                        want=Fc * scale)
        # the evaluation entry points leave nothing behind: the full model is repeatable afterwards
        _, again, _, _ = m.model()
        r.eq(np.asarray(again, float), spectrum, 'model-repeatable-after-contrib-calls', 'repeat/' + tag, rtol=0,
             atol=0)

    if case['kind'] == 'emission':
        scale = (Rp / Rs) ** 2 / rt.planck_pi(wn, case['starT'])
        want = F * scale
        r.check(bool(np.all(np.abs(spectrum - want) <= L * scale + 1e-9 * np.abs(want))), 'eclipse-spectrum',
                'spectrum/%s/%s' % (tag, case['mag']), got=spectrum, want=want, licence=L * scale)
        lo = rt.planck_pi(wn, T.min()) * scale
        hi = rt.planck_pi(wn, T.max()) * scale
        r.check(bool(np.all(spectrum >= lo * (1 - 1e-9) - L * scale) and np.all(spectrum <= hi * (1 + 1e-9) + L * scale)),
                'blackbody-bounds', 'bounds/' + tag, got=spectrum, lo=lo, hi=hi)
        if np.all(T == T[0]):
            r.check(bool(np.all(np.abs(spectrum - lo) <= L * scale + 1e-12 * lo)), 'isothermal-identity',
                    'isothermal/' + tag, got=spectrum, want=lo)
        # partial_model: per-angle intensities
        Ii, imu, iw, _ = m.partial_model()
        r.eq(1.0 / np.asarray(imu).ravel(), mus, 'quadrature-nodes', 'quadrature/nodes', rtol=1e-12)
        r.eq(np.asarray(iw).ravel(), wts, 'quadrature-weights', 'quadrature/weights', rtol=1e-12)
        Fi = 2.0 * math.pi * np.sum(np.asarray(Ii) * (np.asarray(iw) / np.asarray(imu)), axis=0)
        r.check(bool(np.all(np.abs(Fi - F) <= L + 1e-9 * np.abs(F))), 'partial-model', 'partial/' + tag,
                got=Fi, want=F)
        percontrib(scale)
    else:
        d = case['distance'] * 3.08567758e16
        with np.errstate(all='ignore'):
            K = spectrum / F * d ** 2 / Rp ** 2
        relL = L / np.maximum(F, 1e-300)
        ok = np.all(np.abs(K - 0.5) <= 0.5 * (relL + 1e-9)) or np.all(np.abs(K - 1.0) <= relL + 1e-9)
        r.check(bool(ok), 'direct-image-scaling', 'directimage/scale/' + tag, K=K, got=spectrum, F=F)
        if ok:
            percontrib((0.5 if np.all(np.abs(K - 0.5) <= 0.5 * (relL + 1e-9)) else 1.0) * Rp ** 2 / d ** 2)
    inter = (dtau + (dtau_g.min(axis=-1) if dtau_g is not None else 0.0))
    if not np.all(T == T[0]) and np.any((inter > 1e-6) & (inter < 10)):
        r.nontrivial = True
    r.observe(spectrum)
    return r


# ---------------------------------------------------------------------------------------------
# history phase
# ---------------------------------------------------------------------------------------------
HIST_ALPHABET = [['T', 700.0], ['T', 1900.0], ['planet_radius', 0.7], ['planet_radius', 1.4], ['planet_mass', 0.5],
                 ['H2O', 1e-6], ['H2O', 1e-2], ['He_H2', 0.6], ['atm_max_pressure', 1e5], ['atm_min_pressure', 1e1],
                 ['star_temperature', 3500.0], ['star_temperature', 7000.0], ['star_radius', 4e8]]
# requested spectral windows of equal length at both ends of the native grid, and the full grid again
HIST_ALPHABET += [['__window__', [1000.0, 2000.0]], ['__window__', [3000.0, 4000.0]], ['__window__', None]]
HIST_ALPHABET += [['H2O', 1.5]]      # rejected (above one): the history continues from the rejected state
# ['H2O', 1.5]: a mixing ratio above one - the model is rejected, and the history goes on from there
HIST_REDUCED = [['H2O', 1.5], ['T', 700.0], ['T', 1900.0], ['star_temperature', 3500.0], ['H2O', 1e-2], ['atm_max_pressure', 1e5]]


def hist_build(case, net=None):
    fx.reset_caches()
    install({'mag': 'tau1', 'opmode': case['opmode']})
    spec = {'kind': case['kind'], 'N': 3, 'T': ['iso', 1200.0], 'ngauss': 2,
            'gases': [['H2O', ['const', 1e-4]], ['CH4', ['const', 3e-5]]],
            'contribs': ['abs', ['cia', ['H2-He']], 'ray']}
    if net is not None:
        spec, rest = rthist.spec_with_net(spec, net)
        return fx.build_model(spec), rest
    return fx.build_model(spec)


def hist_fn(case):
    r = core.R(case)
    rthist.run_history(r, case['hist'], lambda: hist_build(case), '%s/%s' % (case['kind'], case['opmode']),
                       build_with=lambda net: hist_build(case, net), as_numpy=bool(case.get('np')), entry=case.get('entry', 'model'))
    return r


# ---------------------------------------------------------------------------------------------
# reuse phase: one live model evaluated on a sequence of spectral windows (equal lengths included)
# ---------------------------------------------------------------------------------------------
WN7 = [1000.0, 1500.0, 2000.0, 2500.0, 3000.0, 3500.0, 4000.0]
WINDOWS = [None, [0, 2], [2, 4], [5, 7], [1, 4]]


def reuse_build(case):
    from taurex.cache import OpacityCache, CIACache
    fx.reset_caches()
    tabs = {}
    for mol, f in (('H2O', 1.0), ('CH4', 0.37)):
        tabs[mol] = fx.table(3, 3, 7, 1e-27, salt=('c02r', mol)) * f
    CIACache().add_cia(fx.TinyCIA('H2-He', WN7, CIA_T, fx.rng('c02rcia').uniform(0.5, 1.5, size=(3, 7)) * 1e-53))
    if case['opmode'] == 'xsec':
        for mol, t in tabs.items():
            OpacityCache().add_opacity(fx.TinyOp(mol, WN7, TG, PG, t))
    else:
        k = dict((mol, t[..., None] * np.array([0.2, 1.0, 5.0])[None, None, None, :]) for mol, t in tabs.items())
        fx.install_ktables(k, GW, WN7, TG, PG)
    return fx.build_model({'kind': case['kind'], 'N': 3, 'T': ['dec'], 'ngauss': 2,
                           'gases': [['H2O', ['const', 1e-4]], ['CH4', ['const', 3e-5]]],
                           'contribs': ['abs', ['cia', ['H2-He']], 'ray']})


def reuse_fn(case):
    r = core.R(case)
    live = reuse_build(case)
    names = []
    for w in case['seq']:
        req = None if w is None else np.array(WN7[w[0]:w[1]])
        names.append('full' if w is None else 'win%d' % (w[1] - w[0]))
        got = rthist.evaluate(live, req)
        want = rthist.evaluate(reuse_build(case), req)
        sig = '%s/%s/%s' % (case['kind'], case['opmode'], '>'.join(names))
        r.eq(got[0], want[0], 'reuse-grid', 'reuse-grid/' + sig, rtol=0)
        if got[0].shape == want[0].shape:
            r.eq(got[1], want[1], 'reuse-spectrum', 'reuse/' + sig, rtol=1e-12, seq=case['seq'])
        r.observe(got[1])
    r.nontrivial = True
    return r


def explore(ctx):
    if ctx.tier == 'quick':
        cases = core.product_cases(DIMS, core=['N', 'T', 'mag', 'ngauss'], d=2)
        ctx.bounds.update(deviations=2, core='N x T x mag x ngauss')
    else:
        cases = core.product_cases(DIMS, core=['N', 'T', 'mag', 'ngauss', 'opmode', 'kind', 'contribs'], d=3)
        ctx.bounds.update(deviations=3, core='N x T x mag x ngauss x opmode x kind x contribs')
    ctx.run_cases('case_fn', cases, phase='inputs')
    if ctx.tier == 'quick':
        hs = rthist.histories(HIST_ALPHABET, 2, HIST_REDUCED, 3)
        cfgs = [('emission', 'xsec'), ('emission', 'kspread'), ('directimage', 'xsec')]
    else:
        hs = rthist.histories(HIST_ALPHABET, 3, HIST_REDUCED, 4)
        cfgs = [(k, o) for k in ('emission', 'directimage') for o in ('xsec', 'kdeg', 'kspread')]
    hcases = [{'kind': k, 'opmode': o, 'hist': h} for (k, o) in cfgs for h in hs]
    ctx.bounds.update(history_depth_full_alphabet=2 if ctx.tier == 'quick' else 3,
                      history_depth_reduced_alphabet=3 if ctx.tier == 'quick' else 4, histories=len(hcases))
    # every single update once more with the value handed over as a numpy float64 scalar
    hcases += [dict(c_, np=True) for c_ in hcases if len(c_['hist']) == 1]
    # ... and with the first evaluation after the update going through model_full_contrib / model_contrib
    hcases += [dict(c_, entry=e_) for c_ in hcases if len(c_['hist']) == 1 and not c_.get('np') for e_ in ('full', 'contrib')]
    ctx.run_cases('hist_fn', hcases, phase='histories')
    import itertools as _it
    rc = [{'kind': k, 'opmode': o, 'seq': [list(w) if w else None for w in seq]}
          for k in ('emission', 'directimage') for o in ('xsec', 'kspread')
          for d in ((2,) if ctx.tier == 'quick' else (2, 3)) for seq in _it.product(WINDOWS, repeat=d)]
    ctx.bounds.update(reuse_sequences=len(rc))
    ctx.run_cases('reuse_fn', rc, phase='reuse')
