"""C06 - every sampler is handed the Gaussian log-likelihood of the binned model
(DESIGN.md section 4, C06).

Engine E1 (lattice cases) + exhaustive sequence enumeration (fault sequences).

A *lattice case* fixes (temperature-profile kind, fitted subset, one prior letter per fitted
parameter, observation layout, error-bar letter, observation-value letter).  For each of the three
wrapped samplers a fresh model + observation + optimiser is built, `compile_params()` and
`compute_fit()` are run with the sampler replaced by its recording double
(mc/doubles_samplers.py); the double evaluates the two captured callbacks - in the sampler's own
calling convention - on the whole unit-cube lattice.  Every evaluation is compared with the oracle:

  prior callback   theta_i = own inverse-CDF of the prior configured for parameter i (uniform:
                   lo+u(hi-lo); normal: statistics.NormalDist.inv_cdf), in the order of the
                   optimiser's fitting parameters;
  log-likelihood   -sum log(sigma sqrt(2 pi)) - chi^2/2 with chi^2 from an independently built model
                   (fresh objects, values 10**theta / theta set through the components' setters,
                   run on the FULL native grid, binned with mc.ref.stats.overlap_bin onto the
                   observation's bin centres / widths);
  invalid vector   (sum of mixing ratios > 1, inverted N-point pressure node, Guillot kappa_ir = 0)
                   no exception leaves a callback and the value is not finite;
  agreement        the three samplers' callbacks return bit-identical values on the same point.

A *sequence case* is one sequence over {valid1, valid2, invalid...} evaluated in order inside ONE
sampler run (same optimiser, same model): every element must satisfy the oracle above, i.e. a
valid vector after an invalid one returns what a fresh optimiser returns.
"""
import contextlib
import io
import itertools
import math

import numpy as np

from mc import core, fixtures as fx
from mc import doubles_samplers as ds
from mc import doubles_retrieval as dr
from mc.ref import stats as rs

ID = 'C06'
RULE = ('lattice cases: full product over the core dimensions (temperature-profile kind x every '
        'fitted subset of size 1-3) with default letters elsewhere, plus the full product of prior '
        'letters for the two-parameter subsets, plus observation layout x error bars x observation '
        'value (quick) / their joint product with prior letters (thorough); every case is run through '
        'all three sampler doubles on the complete unit-cube lattice {0,1/4,1/2,3/4,1}^d (interior '
        'letters for normal priors).  sequence cases: every sequence of length <= 3 (quick) / <= 4 '
        '(thorough) over {valid1, valid2, invalid...} per profile kind and sampler.  A case is '
        'non-trivial when at least one finite likelihood was compared with the oracle for a '
        'non-constant spectrum.')
ASSUME = ['MultiNest / PolyChord are not installed: their wrappers are driven by doubles that reproduce '
          'the calling conventions (in-place C array for MultiNest, (logL, phi) for PolyChord)',
          'the forward model itself (C01) and the observation object (C17) are trusted here: the oracle '
          'runs an independently built instance of the same forward-model classes',
          'small scope: 3 layers, 91 native wavenumbers, 3-4 observation bins, <= 4 fitted parameters',
          'each prior.sample is the subject of C08; here only which prior is applied to which '
          'parameter, in which order, is decided']

UNI = [0.0, 0.25, 0.5, 0.75, 1.0]
INT = [0.1, 0.25, 0.5, 0.75, 0.9]

OBS_BASE = 0.010885


def _lattice(pri):
    axes = [INT if p.kind in ('gaussian', 'loggaussian') else UNI for p in pri]
    return [list(u) for u in itertools.product(*axes)]


def _centre(pri):
    return [0.5] * len(pri)


def _silent():
    return contextlib.redirect_stdout(io.StringIO())


def _obs_spectrum(case, n):
    """'offset' letter: fixed numbers near the model's transit depth, all different"""
    return [OBS_BASE + 1.3e-5 * ((i * 7) % 5 - 2) + 2e-6 * i for i in range(n)]


def _sorted_perm(layout):
    wl = np.array(dr.LAYOUTS[layout]['wl'], dtype=float)
    return wl.argsort()[::-1]                 # row index of the k-th bin in wavenumber order


def _exact_spectrum(case, pri):
    """'exact' letter: the observation is exactly the binned model at the centre of the cube,
    produced by fresh real objects through the public calls a user would make to simulate an
    observation (model.model() on the native grid -> the observation's own binner)."""
    layout = case['layout']
    n = len(dr.LAYOUTS[layout]['wl'])
    tmp = dr.build_obs(layout, [OBS_BASE] * n, dr.error_bars(case['errors'], n))
    p = dr.build_model(case['tp'])
    off = 0.0
    for name, pr, u in zip(case['fitted'], pri, _centre(pri)):
        dr.set_param(p, name, pr.value(pr.sample(u)))
        if name == 'obs_offset':
            off = pr.value(pr.sample(u))
    binner = tmp.create_binner()
    binned = np.array(binner.bin_model(p.model.model())[1], dtype=float)
    rows = np.zeros(n)
    rows[_sorted_perm(layout)] = binned - off      # observed + offset == binned model at the centre
    return rows.tolist()


def _run_sampler(sampler, case, pbn, points_fn, spectrum):
    """fresh everything; points_fn(order) lists the unit-cube points in the optimiser's parameter
    order; returns (plan, fit order names, obs)"""
    n = len(dr.LAYOUTS[case['layout']]['wl'])
    obs = dr.build_obs(case['layout'], spectrum, dr.error_bars(case['errors'], n), offset='obs_offset' in case['fitted'])
    p = dr.build_model(case['tp'])
    path = fx.fresh_dir('c06_' + sampler)
    first = case.get('first_layout')
    if first is None:
        opt = dr.make_optimizer(sampler, obs, p.model, path)
        dr.configure(opt, p.model, case['fitted'], case['priors'])
    else:
        # the optimiser first serves another observation (one complete likelihood evaluation), which is then
        # replaced through set_observed: nothing of the first observation may survive
        n0 = len(dr.LAYOUTS[first]['wl'])
        obs0 = dr.build_obs(first, _obs_spectrum(dict(case, layout=first), n0), dr.error_bars('constant', n0),
                            offset='obs_offset' in case['fitted'])
        opt = dr.make_optimizer(sampler, obs0, p.model, path)
        dr.configure(opt, p.model, case['fitted'], case['priors'])
        plan0 = ds.Plan()
        with _silent(), ds.active(plan0):
            opt.compile_params()
            pri0 = [pbn[n_] for n_ in [c[0] for c in opt.fitting_parameters]]
            plan0.points = [[0.5] * len(pri0)]
            dummy0 = [[pr.sample(0.5) for pr in pri0], [pr.sample(0.25) for pr in pri0]]
            plan0.modes = ds.Plan(modes=[(dummy0, [0.5, 0.5])]).modes
            opt.compute_fit()
        opt.set_observed(obs)
        dr.configure(opt, p.model, case['fitted'], case['priors'])      # the new observation's own parameters
    for g in case.get('ghost', []):
        # a prior registered for a parameter that is not fitted (left over from an earlier set-up): it takes no part
        opt.set_prior(g, dr.PARAMS[g]['priors']['loguniform' if g != 'obs_offset' else 'gaussian'].taurex())
    plan = ds.Plan()
    with _silent(), ds.active(plan):
        opt.compile_params()
        order = [c[0] for c in opt.fitting_parameters]
        assert sorted(order) == sorted(case['fitted']), (order, case['fitted'])
        pri = [pbn[n] for n in order]
        plan.points = [list(map(float, u)) for u in points_fn(order)]
        dummy = [[pr.sample(0.5) for pr in pri], [pr.sample(0.25) for pr in pri]]
        plan.modes = ds.Plan(modes=[(dummy, [0.5, 0.5])]).modes
        opt.compute_fit()
    return plan, order, obs


class Oracle(object):
    """independent model (own fresh objects), re-parameterised completely at every point"""

    def __init__(self, case, obs):
        self.tp = case['tp']
        self.part = dr.build_model(self.tp)
        self.centres = np.array(obs.wavenumberGrid, dtype=float)
        self.widths = np.array(obs.binWidths, dtype=float)
        # the observed values as given (the sampler run leaves the live object at its last offset)
        self.data = np.array(obs.spectrum, dtype=float) - float(getattr(obs, '_offset', 0.0))
        self.sig = np.array(obs.errorBar, dtype=float)
        self.cache = {}

    def loglike(self, values):
        key = tuple(sorted(values.items()))
        if key in self.cache:
            return self.cache[key]
        full = dict((k, dr.START[k]) for k in dr.POOL[self.tp])
        full.update(values)
        for k, v in full.items():
            dr.set_param(self.part, k, v)
        wn, spec, _, _ = self.part.model.model()
        wn = np.array(wn, dtype=float)
        spec = np.array(spec, dtype=float)
        o = np.argsort(wn)
        nc, nw = rs.native_bins(wn[o])
        binned = rs.overlap_bin(nc, nw, spec[o], self.centres, self.widths)
        out = rs.gauss_loglike(self.data + float(values.get('obs_offset', 0.0)), self.sig, binned) + \
            (float(np.ptp(spec)),)
        self.cache[key] = out
        return out


def _judge(r, case, sampler, plan, order, pri_by_name, oracle, exact_at=None, tag='lattice'):
    """compare every recorded callback evaluation with the oracle; returns list of logl"""
    lay = case['layout']
    vals_out = []
    for call in plan.calls:
        u = call['u']
        pri = [pri_by_name[n] for n in order]
        want_theta = [pr.sample(ui) for pr, ui in zip(pri, u)]
        values = dict((n, pr.value(t)) for n, pr, t in zip(order, pri, want_theta))
        bad = dr.invalid_reason(case['tp'], values)
        kinds = '+'.join(sorted(set(pr.kind for pr in pri)))
        if call['exc'] is not None:
            r.check(False, 'no-exception',
                    'raised-out-of-callback/%s/%s' % (call['where'], bad or 'valid'),
                    sampler=sampler, u=u, exc=call['exc'])
            vals_out.append(None)
            continue
        r.check(True, 'no-exception')
        r.eq(call['theta'], want_theta, 'prior-callback', 'prior/%s' % kinds, rtol=1e-12,
             sampler=sampler, u=u, order=order)
        got = call['logl']
        vals_out.append(got)
        if bad is not None:
            r.check(not math.isfinite(got), 'invalid-not-finite', 'invalid-finite/%s' % bad,
                    sampler=sampler, u=u, values=values, got=got)
            continue
        if not all(math.isfinite(v) for v in values.values()):
            continue                                  # u on the boundary of an unbounded prior
        want, const, chi2, ptp = oracle.loglike(values)
        tol = core.RTOL * (abs(const) + 0.5 * chi2)
        if exact_at is not None and list(u) == list(exact_at):
            # the observation IS the binned model of this vector: chi^2 = 0
            isnan = isinstance(got, float) and math.isnan(got)
            r.check(not isnan, 'perfect-fit', 'loglike/perfect-fit(chi2=0)/nan',
                    sampler=sampler, u=u, got=got, want=const, chi2_ref=chi2)
            if isnan:
                continue
        ok = math.isfinite(got) and abs(got - want) <= tol
        r.check(ok, 'loglike', 'loglike/value/layout=%s' % lay, sampler=sampler, u=u,
                values=values, got=got, want=want, const=const, chi2=chi2, tol=tol, phase=tag)
        if ok and ptp > 0:
            r.nontrivial = True
    r.observe([v if v is not None else 'exc' for v in vals_out])
    return vals_out


def _pri_by_name(case):
    return dict((n, dr.PARAMS[n]['priors'][case['priors'].get(n, 'default')])
                for n in case['fitted'])


def lattice_case(case):
    r = core.R(case)
    dr.install_opacities()
    pbn = _pri_by_name(case)
    pri = [pbn[n] for n in case['fitted']]
    n = len(dr.LAYOUTS[case['layout']]['wl'])
    exact_at = None
    if case['obsval'] == 'exact':
        spectrum = _exact_spectrum(case, pri)
        exact_at = _centre(pri)
    else:
        spectrum = _obs_spectrum(case, n)
    oracle = None
    per = {}
    for sampler in case.get('samplers', dr.SAMPLERS):
        dr.install_opacities()
        plan, order, obs = _run_sampler(sampler, case, pbn,
                                        lambda order: _lattice([pbn[n] for n in order]), spectrum)
        r.check(len(plan.calls) == len(plan.points) > 0, 'all-points-evaluated', 'double/points')
        if oracle is None:
            oracle = Oracle(case, obs)
        per[sampler] = _judge(r, case, sampler, plan, order, pbn, oracle, exact_at=exact_at)
    names = list(per)
    for a in names[1:]:
        same = all(_same(x, y) for x, y in zip(per[names[0]], per[a]))
        r.check(same, 'samplers-agree', 'samplers-disagree/%s-vs-%s' % (names[0], a),
                first=per[names[0]][:6], other=per[a][:6])
    return r


def _same(x, y):
    if x is None or y is None:
        return x is y
    if math.isnan(x) and math.isnan(y):
        return True
    return x == y


# ----------------------------------------------------------------------------------------------
# sequences
# ----------------------------------------------------------------------------------------------
SEQ = {
    'iso': {'fitted': ['T', 'H2O', 'CH4', 'obs_offset'],
            'priors': {'H2O': 'uniform'},
            'letters': {'v1': {'T': 0.25, 'H2O': 0.5, 'CH4': 0.25, 'obs_offset': 0.25},
                        'v2': {'T': 0.75, 'H2O': 0.25, 'CH4': 0.5, 'obs_offset': 1.0},
                        'mix': {'T': 0.5, 'H2O': 1.0, 'CH4': 1.0, 'obs_offset': 0.5}}},
    'npoint': {'fitted': ['T_point1', 'P_point1', 'H2O', 'CH4'],
               'priors': {'H2O': 'uniform', 'P_point1': 'loguniform'},
               'letters': {'v1': {'T_point1': 0.25, 'P_point1': 0.5, 'H2O': 0.5, 'CH4': 0.25},
                           'v2': {'T_point1': 0.75, 'P_point1': 0.25, 'H2O': 0.25, 'CH4': 0.5},
                           'mix': {'T_point1': 0.5, 'P_point1': 0.5, 'H2O': 1.0, 'CH4': 1.0},
                           'inv': {'T_point1': 0.5, 'P_point1': 1.0, 'H2O': 0.5, 'CH4': 0.25}}},
    'guillot': {'fitted': ['T_irr', 'kappa_irr', 'H2O', 'CH4'],
                'priors': {'H2O': 'uniform', 'kappa_irr': 'uniform'},
                'letters': {'v1': {'T_irr': 0.25, 'kappa_irr': 0.5, 'H2O': 0.5, 'CH4': 0.25},
                            'v2': {'T_irr': 0.75, 'kappa_irr': 0.25, 'H2O': 0.25, 'CH4': 0.5},
                            'mix': {'T_irr': 0.5, 'kappa_irr': 0.5, 'H2O': 1.0, 'CH4': 1.0},
                            'k0': {'T_irr': 0.5, 'kappa_irr': 0.0, 'H2O': 0.5, 'CH4': 0.25}}},
}


def sequence_case(case):
    r = core.R(case)
    dr.install_opacities()
    cfg = SEQ[case['tp']]
    full = {'tp': case['tp'], 'fitted': cfg['fitted'], 'priors': cfg['priors'],
            'layout': case.get('layout', '3col-nonuniform'), 'errors': 'distinct', 'obsval': 'offset'}
    pbn = _pri_by_name(full)
    pri = [pbn[n] for n in full['fitted']]
    n = len(dr.LAYOUTS[full['layout']]['wl'])
    spectrum = _obs_spectrum(full, n)
    plan, order, obs = _run_sampler(
        case['sampler'], full, pbn,
        lambda order: [[cfg['letters'][l][nm] for nm in order] for l in case['seq']], spectrum)
    r.check(len(plan.calls) == len(case['seq']), 'all-points-evaluated', 'double/points')
    oracle = Oracle(full, obs)
    _judge(r, full, case['sampler'], plan, order, pbn, oracle, tag='sequence')
    return r


def swap_case(case):
    """likelihood after the observation of a live optimiser was replaced (set_observed)"""
    r = core.R(case)
    dr.install_opacities()
    cfg = SEQ[case['tp']]
    full = {'tp': case['tp'], 'fitted': cfg['fitted'], 'priors': cfg['priors'], 'layout': case['layout'],
            'first_layout': case['first_layout'], 'errors': 'distinct', 'obsval': 'offset'}
    pbn = _pri_by_name(full)
    n = len(dr.LAYOUTS[full['layout']]['wl'])
    spectrum = _obs_spectrum(full, n)
    valid = [l for l in cfg['letters'] if l.startswith('valid')][:2] or list(cfg['letters'])[:2]
    plan, order, obs = _run_sampler(
        case['sampler'], full, pbn,
        lambda order: [[cfg['letters'][l][nm] for nm in order] for l in valid], spectrum)
    r.check(len(plan.calls) == len(valid), 'all-points-evaluated', 'double/points')
    oracle = Oracle(full, obs)
    _judge(r, full, case['sampler'], plan, order, pbn, oracle, tag='after-set_observed')
    r.nontrivial = True
    return r


# ----------------------------------------------------------------------------------------------
# exploration
# ----------------------------------------------------------------------------------------------
SUBSET_POOL = {'iso': ['planet_radius', 'T', 'H2O', 'clouds_pressure', 'obs_offset'],
               'npoint': ['T_point1', 'P_point1', 'H2O', 'planet_radius'],
               'guillot': ['T_irr', 'kappa_irr', 'obs_offset']}
NEED = {'iso': None, 'npoint': ('T_point1', 'P_point1'), 'guillot': None}


def subsets(tp):
    out = []
    pool = SUBSET_POOL[tp]
    for k in (1, 2, 3):
        for s in itertools.combinations(pool, k):
            if NEED[tp] and not any(x in s for x in NEED[tp]):
                continue
            out.append(list(s))
    return out


def _case(tp, fitted, priors=None, layout='3col-uniform', errors='distinct', obsval='offset', ghost=None):
    c = {'tp': tp, 'fitted': list(fitted), 'priors': dict(priors or {}), 'layout': layout,
         'errors': errors, 'obsval': obsval}
    if ghost:
        c['ghost'] = list(ghost)
    return c


def _prior_products(fitted):
    names = list(fitted)
    letters = [list(dr.PARAMS[n]['priors']) for n in names]
    for combo in itertools.product(*letters):
        yield dict((n, l) for n, l in zip(names, combo) if l != 'default')


PAIRS = [('iso', ['T', 'H2O']), ('iso', ['planet_radius', 'clouds_pressure']),
         ('npoint', ['T_point1', 'P_point1']), ('iso', ['H2O', 'obs_offset'])]


def explore(ctx):
    quick = ctx.tier == 'quick'
    cases = []
    seen = set()

    def add(c):
        k = core.ohash(core.jsonable(c))
        if k not in seen:
            seen.add(k)
            cases.append(c)
    # core: profile kind x fitted subset
    for tp in ('iso', 'npoint', 'guillot'):
        for s in subsets(tp):
            add(_case(tp, s))
    # prior letters: full product on the two-parameter subsets (+ 3-parameter in thorough)
    trip = [('iso', ['planet_radius', 'T', 'H2O'])] if not quick else []
    for tp, s in PAIRS + trip:
        for pr in _prior_products(s):
            add(_case(tp, s, pr))
    # single prior deviation on every subset (thorough)
    if not quick:
        for tp in ('iso', 'npoint', 'guillot'):
            for s in subsets(tp):
                for nm in s:
                    for l in dr.PARAMS[nm]['priors']:
                        if l != 'default':
                            add(_case(tp, s, {nm: l}))
    # a prior registered on a parameter that is not fitted, before / between / after the fitted ones
    for g in (['planet_radius'], ['H2O'], ['clouds_pressure'], ['planet_radius', 'clouds_pressure']):
        add(_case('iso', ['T', 'CH4'], {'CH4': 'uniform'}, ghost=g))
        add(_case('iso', ['T', 'CH4', 'obs_offset'], None, ghost=g))
    # observation: layout x errors x value
    for err in ('tiny', 'huge'):
        add(_case('iso', ['T', 'H2O'], None, '3col-nonuniform', err, 'offset'))
        add(_case('iso', ['T', 'H2O'], None, '4col-gaps', err, 'offset'))
    for lay, err, ov in itertools.product(dr.LAYOUTS, ['distinct', 'constant'], ['offset', 'exact']):
        add(_case('iso', ['T', 'H2O'], None, lay, err, ov))
        if not quick:
            for tp, s in PAIRS:
                for pr in _prior_products(s):
                    add(_case(tp, s, pr, lay, err, ov))
        else:
            add(_case('iso', ['T', 'H2O'], {'T': 'loguniform', 'H2O': 'uniform'}, lay, err, ov))
            add(_case('npoint', ['T_point1', 'P_point1'], {'T_point1': 'gaussian'}, lay, err, ov))
    ctx.bounds['lattice_cases'] = len(cases)
    ctx.bounds['lattice'] = '{0,1/4,1/2,3/4,1}^d, d<=3, x 3 samplers'
    ctx.run_cases('lattice_case', cases, phase='lattice', chunk=2)

    depth = 3 if quick else 4
    seqs = []
    for tp, cfg in SEQ.items():
        L = list(cfg['letters'])
        for k in range(1, depth + 1):
            for s in itertools.product(L, repeat=k):
                for sampler in dr.SAMPLERS:
                    seqs.append({'tp': tp, 'sampler': sampler, 'seq': list(s)})
    ctx.bounds['sequence_length'] = depth
    ctx.bounds['sequences'] = len(seqs)
    ctx.run_cases('sequence_case', seqs, phase='sequence', chunk=8)
    swaps = [{'tp': 'iso', 'sampler': smp, 'first_layout': a, 'layout': b}
             for smp in ('nestle', 'multinest', 'polychord') for a in dr.LAYOUTS for b in dr.LAYOUTS if a != b]
    ctx.bounds.update(observation_swaps=len(swaps))
    ctx.run_cases('swap_case', swaps, phase='swap', chunk=4)
