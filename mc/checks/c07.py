"""C07 - retrieval set-up depends only on current settings; updates touch only fitted parameters
(DESIGN.md section 4, C07).

Engine E2: explicit-state breadth-first search over operation histories on a real
TransmissionModel (2 layers, isothermal, constant H2O, absorption + grey clouds) + a tiny Fittable
observation + taurex.optimizer.Optimizer.  A case = one history; the case function builds fresh real
objects, replays the history through the real methods while the reference model
(mc/ref/optsettings.py, a plain dict of settings) takes the same steps, and evaluates the oracle on
the LAST step (every proper prefix is a case of an earlier BFS level):

  every step      the (mode, fit, bounds) slots of every parameter of model and observation, every
                  derived-parameter flag and every parameter value agree with the reference; values
                  not written by the step are bit-identical to before; an operation the reference
                  calls an error (unknown name, bad mode, wrong vector length) raises and leaves the
                  canonical state unchanged; an operation the reference accepts does not raise.
  compile_params  names / order / values / boundaries / priors / derived names equal the reference's
                  views of the current settings; name has the log_ prefix iff the reported prior is a
                  log prior; DIFFERENTIAL: equal to what a FRESH model+observation+optimiser reports
                  after only the net settings were applied once and compiled; ROUND TRIP (on the
                  case's private objects, after the key was taken): update_model(fit_values) leaves
                  every parameter unchanged (rtol 1e-12).
  update_model    fitted parameter i becomes prior_i.prior(v_i) (v_i, or 10**v_i when the reported
                  compiled prior is a log prior), everything else stays bit-identical.

The canonical key (merging) holds all state that can influence a future step, including the
optimiser's private prior table(s) and the compiled lists; the oracle compares observables only.

The step oracle is inductive: the reference is re-synchronised with the implementation's observable
settings after the prefix (see resync), so one bad step is reported where it happens and not again by
every extension; what the reference carries through the history is which priors were set explicitly.
Boundaries: for a parameter with an explicit prior the statement does not say whether the reported
boundaries are the ``bounds`` setting (in the space of the name) or the prior's own boundaries; both
are accepted.  Reported boundaries are compared as unordered pairs.
"""
import hashlib
import math
import re

import numpy as np

from mc import core, fixtures as fx
from mc.ref import optsettings as ref

ID = 'C07'
RULE = ('breadth-first search over histories of enable_fit/disable_fit/set_mode/set_boundary/'
        'set_factor_boundary/set_prior/enable_derived/disable_derived/compile_params/update_model '
        '(+ error letters) on fresh real objects per history; states merged on a canonical key that '
        'includes the hidden prior table and compiled lists; every transition is executed on the real '
        'code and compared with the settings-dict reference, every compile additionally with a fresh '
        'object configured with the net settings, plus a value round trip.  quick: 4 parameters + 3 derived '
        'x all operations to depth 3, 2 parameters to depth 4, 2 non-initial presets to depth 2; thorough: '
        '5 parameters + 3 derived + every error letter to depth 4, 2 parameters to depth 6, model+observation '
        'pair to depth 5, presets to depth 3.  A state is non-trivial when it differs from the root.')
ASSUME = ['small scope: 5 fittable parameters (4 model, 1 observation), 3 derived parameters, histories up to the stated depth',
          'letters keep values and bounds positive so that log10 is defined (non-positive bounds in log mode are out of scope)',
          'the declared order of parameters (model components in collection order, then observation) is taken from the freshly built objects',
          'numpy / python floats trusted; priors are immutable after construction',
          'between a settings change and the next compile_params only the mutual agreement of the views is demanded (which compiled set-up they describe is observed after compile_params / update_model)']

RT = 1e-12
WN = [1000.0, 2000.0, 3000.0, 4000.0]
PARAMS = ['planet_radius', 'T', 'H2O', 'clouds_pressure', 'obs_scale']
DERIVED = ['mu', 'logg', 'obs_d']
NOMINAL = {'planet_radius': 1.0, 'T': 1500.0, 'H2O': 1e-4, 'clouds_pressure': 1e3, 'obs_scale': 1.0}
PRIOR_KINDS = {'U': 'Uniform', 'LU': 'LogUniform', 'G': 'Gaussian', 'LG': 'LogGaussian'}


# ----------------------------------------------------------------------------------------------
# the world: fresh real objects
# ----------------------------------------------------------------------------------------------
_OBS_CLS = None


def _obs_class():
    global _OBS_CLS
    if _OBS_CLS is None:
        from taurex.data.spectrum import ArraySpectrum
        from taurex.core import fitparam, derivedparam

        class TinyObs(ArraySpectrum):
            """An observation with one fittable and one derived parameter of its own."""

            def __init__(self, arr):
                self._scale = 1.0
                ArraySpectrum.__init__(self, arr)

            @fitparam(param_name='obs_scale', param_latex='$s_{obs}$', default_mode='linear',
                      default_fit=False, default_bounds=[0.5, 2.0])
            def obsScale(self):
                return self._scale

            @obsScale.setter
            def obsScale(self, value):
                self._scale = value

            @derivedparam(param_name='obs_d', param_latex='$d_{obs}$', compute=False)
            def obsD(self):
                return 2.0 * self._scale
        _OBS_CLS = TinyObs
    return _OBS_CLS


def world():
    from taurex.cache import OpacityCache
    from taurex.model import TransmissionModel
    from taurex.contributions import AbsorptionContribution, SimpleCloudsContribution
    from taurex.data.profiles.chemistry import TaurexChemistry, ConstantGas
    from taurex.optimizer.optimizer import Optimizer
    fx.reset_caches()
    OpacityCache().add_opacity(fx.TinyOp('H2O', WN, [100.0, 1000.0, 3000.0], [1e-2, 1e2, 1e6],
                                         np.ones((3, 3, 4)) * 1e-20))
    chem = TaurexChemistry()
    chem.addGas(ConstantGas('H2O', 1e-4))
    tm = TransmissionModel(nlayers=2, atm_min_pressure=1e-1, atm_max_pressure=1e5, chemistry=chem)
    tm.add_contribution(AbsorptionContribution())
    tm.add_contribution(SimpleCloudsContribution(1e3))
    tm.build()
    wl = 10000.0 / np.array(WN)
    obs = _obs_class()(np.vstack([wl, np.ones(4) * 0.01, np.ones(4) * 1e-4]).T)
    opt = Optimizer('c07', obs, tm)
    return tm, obs, opt


# ----------------------------------------------------------------------------------------------
# letters -> values (generic floats from VERIF_SEED; the structure is seed-independent)
# ----------------------------------------------------------------------------------------------
_LET = {}


def letters():
    if core.SEED not in _LET:
        g = fx.rng('c07', 'letters')
        L = {'b1': {}, 'b2': {}, 'prior': {}}
        for p in PARAMS:
            v = NOMINAL[p]
            L['b1'][p] = (v * g.uniform(0.3, 0.7), v * g.uniform(1.5, 4.0))
            L['b2'][p] = (v * g.uniform(5.0, 9.0), v * g.uniform(0.1, 0.25))       # reversed
            lv = math.log10(v)
            L['prior'][p] = {
                'U': (v * g.uniform(0.2, 0.5), v * g.uniform(2.0, 5.0)),
                'LU': (lv - g.uniform(0.5, 1.5), lv + g.uniform(0.5, 1.5)),
                'G': (v * g.uniform(0.8, 1.2), v * g.uniform(0.1, 0.3)),
                'LG': (lv + g.uniform(-0.2, 0.2), g.uniform(0.1, 0.5)),
            }
        L['f1'] = (0.5, 2.0)
        L['v1'] = [float(x) for x in g.uniform(0.5, 3.0, size=16)]
        L['v2'] = [float(x) for x in g.uniform(0.5, 3.0, size=16)]
        for k in ('b1', 'b2'):
            L[k] = dict((p, (float(a), float(b))) for p, (a, b) in L[k].items())
        for p in PARAMS:
            L['prior'][p] = dict((k, (float(a), float(b))) for k, (a, b) in L['prior'][p].items())
        _LET[core.SEED] = L
    return _LET[core.SEED]


def bounds_letter(p, letter):
    L = letters()
    return L[letter].get(p, L[letter]['T'])


def prior_letter(p, kind):
    L = letters()
    return L['prior'].get(p, L['prior']['T'])[kind]


def make_prior(kind, args):
    from taurex.core.priors import Uniform, LogUniform, Gaussian, LogGaussian
    if kind == 'U':
        return Uniform(bounds=args)
    if kind == 'LU':
        return LogUniform(bounds=args)
    if kind == 'G':
        return Gaussian(mean=args[0], std=args[1])
    return LogGaussian(mean=args[0], std=args[1])


_SAME = [[]]


def vector(letter, n):
    L = letters()
    if letter == 'same':
        # every entry equals the number the parameter holds right now (in linear space): under a log prior that is a new
        # value, 10**x, like any other
        return list(_SAME[0][:n])
    if letter == 'badlen':
        return list(L['v1'][:n - 1]) if n >= 1 else [L['v1'][0]]
    if letter == 'toolong':
        return list(L['v1'][:n + 1])
    if letter.endswith('np'):
        # the vector as a sampler hands it over: a float64 array
        import numpy as np
        return np.array(L[letter[:-2]][:n], dtype=np.float64)
    return list(L[letter][:n])


# ----------------------------------------------------------------------------------------------
# observation of the real state
# ----------------------------------------------------------------------------------------------
_NUM = re.compile(r'[-+]?(?:\d+\.?\d*(?:[eE][-+]?\d+)?|\.\d+(?:[eE][-+]?\d+)?|inf|nan)')


def prior_spec(p):
    """(type name, numbers of params()) of a real prior object - public interface only."""
    txt = p.params()
    nums = tuple(float(x) for x in _NUM.findall(txt.replace('Bounds', '').replace('Mean', '').replace('Stdev', '')))
    return (type(p).__name__, nums)


def sfloat(x):
    """float(x); a python int too large for a double (10**1500 written by a broken round trip on the
    integer default temperature) is reported as inf."""
    try:
        return float(x)
    except OverflowError:
        return float('inf') if x > 0 else float('-inf')


def real_state(tm, obs, opt):
    st = {}
    pl = []
    for src, obj in (('model', tm), ('obs', obs)):
        for k, t in obj.fittingParameters.items():
            name, latex, fget, fset, mode, fit, bounds = t
            pl.append((k, name, mode, bool(fit), (sfloat(bounds[0]), sfloat(bounds[1])), sfloat(fget()), src))
    st['params'] = pl
    dl = []
    for src, obj in (('model', tm), ('obs', obs)):
        for k, t in obj.derivedParameters.items():
            dl.append((k, t[0], bool(t[3]), src))
    st['derived'] = dl
    # every private name -> prior table of the optimiser (today `_fit_priors`; a repaired version may
    # keep more than one), because such tables persist across compilations
    tabs = []
    for attr, val in sorted(vars(opt).items()):
        if isinstance(val, dict) and (attr == '_fit_priors' or
                                      (val and all(hasattr(v, 'priorMode') for v in val.values()))):
            tabs.append((attr, sorted((k,) + prior_spec(v) for k, v in val.items())))
    st['table'] = tabs
    if hasattr(opt, 'derived_parameters'):
        st['compiled'] = ([(c[0], c[4], bool(c[5]), (float(c[6][0]), float(c[6][1]))) for c in opt.fitting_parameters],
                          [prior_spec(p) for p in opt.fitting_priors],
                          [c[0] for c in opt.derived_parameters])
    else:
        st['compiled'] = None
    return st


def state_key(st):
    txt = repr((st['params'], st['derived'], st['table'], st['compiled']))
    return hashlib.sha1(txt.encode()).hexdigest()


class _RecOutput(object):
    """Records what is written to an output group (nested groups flattened by name)."""

    def __init__(self):
        self.items = {}
        self.groups = []

    def create_group(self, name):
        g = _RecOutput()
        self.groups.append(g)
        return g

    def write_array(self, name, value, metadata=None):
        self.items[name] = np.array(value)

    write_list = write_array

    def write_scalar(self, name, value, metadata=None):
        self.items[name] = value

    write_string = write_scalar

    def write_string_array(self, name, value, metadata=None):
        self.items[name] = list(value)

    def flat(self):
        out = dict(self.items)
        for g in self.groups:
            out.update(g.flat())
        return out


def real_views(opt):
    from taurex.core.priors import PriorMode
    b = []
    for x in opt.fit_boundaries:
        lo, hi = float(x[0]), float(x[1])
        b.append((min(lo, hi), max(lo, hi)))
    return {'names': list(opt.fit_names), 'values': [float(v) for v in opt.fit_values], 'bounds': b,
            'priors': [prior_spec(p) for p in opt.fitting_priors],
            'prior_log': [p.priorMode is not PriorMode.LINEAR for p in opt.fitting_priors],
            'derived': list(opt.derived_names)}


def resync(s, st):
    """The oracle is inductive: every step is judged from the implementation's own pre-state (every
    prefix is a case of its own and was judged there).  So after the prefix replay the observable
    settings (slots, flags, values, compiled membership) of the reference are overwritten with the
    implementation's; what the reference keeps from the history is what cannot be read off the
    implementation - which priors were set explicitly, and the number of compilations.  Without this
    a single bad step would be re-reported by every later step of every extension."""
    for (k, name, mode, fit, bounds, value, src) in st['params']:
        e = s.p[k]
        e['mode'], e['fit'], e['bounds'], e['value'] = mode, fit, bounds, value
    for (k, name, compute, src) in st['derived']:
        s.d[k] = compute
    if st['compiled'] is not None and s.compiled is not None:
        cp, pr, dn = st['compiled']
        if len(cp) == len(pr):
            s.compiled = [(c[0], (q[0], tuple(q[1]))) for c, q in zip(cp, pr)]
            s.compiled_derived = list(dn)


def new_ref(st):
    return ref.Settings([(p[0], p[2], p[3], p[4], p[5]) for p in st['params']],
                        [(d[0], d[2]) for d in st['derived']])


# ----------------------------------------------------------------------------------------------
# one operation on both sides
# ----------------------------------------------------------------------------------------------
def apply_real(w, op, nfit):
    tm, obs, opt = w
    name = op[0]
    if name == 'compile_params':
        opt.compile_params()
    elif name == 'update_model':
        opt.update_model(vector(op[1], nfit))
    elif name in ('enable_fit', 'disable_fit', 'enable_derived', 'disable_derived'):
        getattr(opt, name)(op[1])
    elif name == 'set_mode':
        opt.set_mode(op[1], op[2])
    elif name == 'set_boundary':
        opt.set_boundary(op[1], bounds_letter(op[1], op[2]))
    elif name == 'set_factor_boundary':
        opt.set_factor_boundary(op[1], letters()[op[2]])
    elif name == 'set_prior':
        opt.set_prior(op[1], make_prior(op[2], prior_letter(op[1], op[2])))
    elif name == 'external_set':
        # the parameter is written from outside the optimiser (through the owner's public setter), as user code or
        # another component may do between two update_model calls
        obj = tm if op[1] in tm.fittingParameters else obs
        obj.fittingParameters[op[1]][3](external_value(op[1], op[2]))
    else:
        raise ValueError(op)


def apply_ref(s, op, log_flags=None):
    """Returns the list of (name, value) written by the step."""
    name = op[0]
    if name == 'compile_params':
        s.compile()
    elif name == 'update_model':
        return s.update(vector(op[1], s.nfit()), log_flags)
    elif name in ('enable_fit', 'disable_fit', 'enable_derived', 'disable_derived'):
        getattr(s, name)(op[1])
    elif name == 'set_mode':
        s.set_mode(op[1], op[2])
    elif name == 'set_boundary':
        s.set_boundary(op[1], bounds_letter(op[1], op[2]))
    elif name == 'set_factor_boundary':
        s.set_factor_boundary(op[1], letters()[op[2]])
    elif name == 'set_prior':
        kind = op[2]
        s.set_prior(op[1], ref.explicit_prior(PRIOR_KINDS[kind], prior_letter(op[1], kind)))
    elif name == 'external_set':
        v = external_value(op[1], op[2])
        s.p[op[1]]['value'] = v
        return [(op[1], v)]
    else:
        raise ValueError(op)
    return []


def external_value(p, letter):
    return NOMINAL[p] * {'x1': 1.37, 'x2': 0.61, 'xneg': -0.8}[letter]


def reported_log_flags(opt):
    from taurex.core.priors import PriorMode
    return [p.priorMode is not PriorMode.LINEAR for p in opt.fitting_priors]


def step(w, s, op):
    """Apply op to the real world and to the reference.  Returns (real_exc, ref_exc, written)."""
    if op[0] == 'set_mode' and op[2] != op[2].lower() and op[2].lower() in ('linear', 'log') and op[1] in s.p:
        # a differently capitalised spelling of a legal mode: the statement does not say whether it is legal, so it
        # may be rejected (an error, nothing changed) or mean its lower-case form - nothing else
        try:
            apply_real(w, op, s.nfit())
        except Exception as e:
            return e, ref.RefError('spelling rejected'), []
        apply_ref(s, [op[0], op[1], op[2].lower()])
        return None, None, []
    flags = None
    if op[0] == 'update_model' and op[1] == 'same':
        try:
            _SAME[0] = [float(c_[2]()) for c_ in (w[2].fitting_parameters or [])]
        except Exception:
            _SAME[0] = []
        if any(abs(v_) > 200 for v_ in _SAME[0]):
            _SAME[0] = list(letters()['v1'])        # 10**x would leave the floating-point range: an ordinary vector instead
    if op[0] == 'update_model':
        flags = reported_log_flags(w[2])
        if len(flags) != s.nfit():
            flags = None
    rexc = None
    try:
        written = apply_ref(s, op, flags)
    except ref.RefError as e:
        rexc = e
        written = []
    iexc = None
    try:
        apply_real(w, op, s.nfit())
    except Exception as e:      # classified by the caller
        iexc = e
    return iexc, rexc, written


def target_kind(s, op):
    if len(op) < 2 or op[0] in ('compile_params', 'update_model'):
        return 'none'
    n = op[1]
    if op[0] in ('enable_derived', 'disable_derived'):
        if n not in s.d:
            return 'unknown'
        return 'obs-derived' if n.startswith('obs_') else 'model-derived'
    if n not in s.p:
        return 'unknown'
    return 'obs-param' if n.startswith('obs_') else 'model-param'


def _feq1(a, b, rtol):
    if a == b:
        return True
    if a != a or b != b or a in (math.inf, -math.inf) or b in (math.inf, -math.inf):
        return False
    return abs(a - b) <= rtol * max(abs(a), abs(b))


def feq(a, b, rtol=RT):
    """|a-b| <= rtol*max(|a|,|b|) for floats or equal-length sequences of floats (NaN never equal)."""
    if isinstance(a, (tuple, list)):
        return len(a) == len(b) and all(_feq1(float(x), float(y), rtol) for x, y in zip(a, b))
    return _feq1(float(a), float(b), rtol)


# ----------------------------------------------------------------------------------------------
# oracle pieces
# ----------------------------------------------------------------------------------------------
def check_settings(r, st, before, s, op, written):
    """Slots, flags and values of every parameter against the reference (and against `before` for the
    values the step did not write)."""
    oname = op[0]
    tgt = op[1] if len(op) > 1 else None
    wnames = set(n for n, _ in written)
    bvals = dict((p[0], p[5]) for p in before['params']) if before is not None else {}
    for (k, name, mode, fit, bounds, value, src) in st['params']:
        which = 'target' if k == tgt else 'other-' + src
        e = s.p[k]
        r.check(name == k, 'settings', 'settings/%s/name-slot/%s' % (oname, which), param=k, got=name)
        r.check(mode == e['mode'], 'settings', 'settings/%s/mode-slot/%s' % (oname, which),
                param=k, got=mode, want=e['mode'])
        r.check(fit == e['fit'], 'settings', 'settings/%s/fit-slot/%s' % (oname, which),
                param=k, got=fit, want=e['fit'])
        r.check(feq(bounds, e['bounds']), 'settings', 'settings/%s/bounds-slot/%s' % (oname, which),
                param=k, got=bounds, want=e['bounds'])
        if k in wnames:
            r.check(feq(value, e['value']), 'update-fitted', 'value/%s/fitted-not-prior-transformed' % oname,
                    param=k, got=value, want=e['value'])
        else:
            r.check(feq(value, e['value']), 'values', 'value/%s/differs-from-reference/%s' % (oname, src),
                    param=k, got=value, want=e['value'])
            if k in bvals:
                r.check(value == bvals[k], 'untouched', 'value/%s/unwritten-parameter-changed/%s' % (oname, src),
                        param=k, got=value, before=bvals[k])
    for (k, name, compute, src) in st['derived']:
        which = 'target' if k == tgt else 'other-' + src
        r.check(compute == s.d[k] and name == k, 'settings', 'settings/%s/compute-slot/%s' % (oname, which),
                param=k, got=compute, want=s.d[k])


def strip(n):
    return n[4:] if n.startswith('log_') else n


def space_class(e, is_log):
    """Structural class of a fitted parameter: where its prior comes from and whether the parameter
    mode agrees with the space of the prior."""
    src = 'explicit-prior' if e['prior'] is not None else 'default-prior'
    agree = (e['mode'] == 'log') == bool(is_log)
    return src, ('mode-agrees-with-prior-space' if agree else 'mode-differs-from-prior-space')


def check_views(r, got, want, s, tag, sub):
    """Compare the reported views `got` with `want` (reference views, or the views of the fresh
    differential object).  Per fitted parameter only the first differing field is reported (prior
    type, prior parameters, name, value, boundaries).  The history tag (first-compile / recompile)
    is part of the signature only for default priors: an explicit prior does not depend on it."""
    gn, wn_ = got['names'], want['names']
    if sorted(strip(n) for n in gn) != sorted(strip(n) for n in wn_):
        return r.check(False, sub, '%s/membership/%s' % (sub, tag), got=gn, want=wn_)
    if [strip(n) for n in gn] != [strip(n) for n in wn_]:
        return r.check(False, sub, '%s/order/%s' % (sub, tag), got=gn, want=wn_)
    ok = True
    for i, n in enumerate(wn_):
        p = strip(n)
        gp, wp = got['priors'][i], want['priors'][i]
        src, agree = space_class(s.p[p], ref.prior_is_log(wp))
        cls = src + ('/' + tag if src == 'default-prior' else '')
        if gp[0] != wp[0]:
            field, g, w_ = 'prior-type/' + cls, gp, wp
        elif not (len(gp[1]) == len(wp[1]) and feq(gp[1], wp[1])):
            field, g, w_ = 'prior-params/' + cls, gp, wp
        elif gn[i] != n:
            field, g, w_ = 'name/' + cls, gn[i], n
        elif not feq(got['values'][i], want['values'][i]):
            field, g, w_ = 'value/%s/%s' % (cls, agree), got['values'][i], want['values'][i]
        elif not (feq(got['bounds'][i], want['bounds'][i]) or
                  ('bounds_prior' in want and feq(got['bounds'][i], want['bounds_prior'][i], 1e-9))):
            field, g, w_ = 'boundaries/%s/%s' % (cls, agree), got['bounds'][i], want['bounds'][i]
        else:
            field = None
        if field is None:
            r.check(True, sub)
        else:
            ok = False
            r.check(False, sub, '%s/%s' % (sub, field), param=p, got=g, want=w_,
                    mode=s.p[p]['mode'], reported_name=gn[i], reported_prior=gp)
    ok &= r.check(got['derived'] == want['derived'], sub, '%s/derived-names/%s' % (sub, tag),
                  got=got['derived'], want=want['derived'])
    return ok


def configure_fresh(s, initial):
    """Differential oracle: fresh real objects on which only the net settings are applied once, in
    canonical order (the order taurex.parameter.ParameterParser.setup_optimizer uses), then compiled."""
    w = world()
    tm, obs, opt = w
    net, dnet = s.net(initial)
    for n, d in net:
        if 'value' in d:
            obj = tm if n in tm.fittingParameters else obs
            obj.fittingParameters[n][3](d['value'])
    for n, d in net:
        if 'fit' in d:
            (opt.enable_fit if d['fit'] else opt.disable_fit)(n)
        if 'bounds' in d:
            opt.set_boundary(n, d['bounds'])
        if 'mode' in d:
            opt.set_mode(n, d['mode'])
        if 'prior' in d:
            kind, args = d['prior']
            short = dict((v, k) for k, v in PRIOR_KINDS.items())[kind]
            opt.set_prior(n, make_prior(short, args))
    for n, c in dnet:
        (opt.enable_derived if c else opt.disable_derived)(n)
    opt.compile_params()
    return w


# ----------------------------------------------------------------------------------------------
# the case function
# ----------------------------------------------------------------------------------------------
def hist_fn(case):
    r = core.R(case)
    hist = [list(op) for op in case['hist']]
    w = world()
    st0 = real_state(*w)
    s = new_ref(st0)
    initial = new_ref(st0)
    # replay the prefix (its steps are the last steps of earlier cases)
    for op in hist[:-1]:
        iexc, rexc, _ = step(w, s, op)
        if (iexc is None) != (rexc is None):
            # a prefix that already violated the error oracle is never extended by the explorer
            r.key = None
            return r
    before = real_state(*w)
    resync(s, before)
    if not hist:
        check_settings(r, before, None, s, ['init'], [])
        r.check(before['compiled'] is None and all(t[1] == [] for t in before['table']), 'initial', 'initial/not-empty')
        r.key = state_key(before)
        r.extra = {'nfit': 0}
        r.observe(before['params'], before['derived'])
        return r
    op = hist[-1]
    oname = op[0]
    kind = target_kind(s, op)
    iexc, rexc, written = step(w, s, op)
    after = real_state(*w)
    if rexc is not None:
        # error letter: must raise, must not change anything
        r.check(iexc is not None, 'error-raised', 'no-error/%s/%s' % (oname, kind), op=op)
        r.check(state_key(after) == state_key(before), 'error-keeps-state',
                'error-mutates/%s/%s' % (oname, kind), op=op, exc=repr(iexc))
        r.key = state_key(after) if iexc is not None else None
        r.extra = {'nfit': s.nfit()}
        r.observe('error', oname, kind)
        return r
    if iexc is not None:
        r.check(False, 'no-exception', 'raised/%s/%s/%s' % (oname, kind, type(iexc).__name__),
                op=op, exc=repr(iexc))
        r.key = None
        return r
    r.check(True, 'no-exception')
    same = ([(p[0], p[6]) for p in after['params']] == [(p[0], p[6]) for p in st0['params']] and
            [(d[0], d[3]) for d in after['derived']] == [(d[0], d[3]) for d in st0['derived']])
    if not r.check(same, 'structure', 'structure/parameter-set-changed/%s/%s' % (oname, kind), op=op,
                   params=[(p[0], p[6]) for p in after['params']], derived=[(d[0], d[3]) for d in after['derived']]):
        r.key = None        # not a state of the model any more: never extended
        return r
    check_settings(r, after, before, s, op, written)
    r.key = state_key(after)
    r.extra = {'nfit': s.nfit()}
    r.nontrivial = r.key != state_key(st0)
    r.observe(after['params'], after['derived'], after['compiled'])
    if oname == 'update_model':
        r.check(after['compiled'] == before['compiled'] and after['table'] == before['table'],
                'update-keeps-setup', 'update/changes-compiled-setup')
    if oname != 'compile_params':
        if after['compiled'] is not None:
            # between a settings change and the next compile_params the views still describe the last compiled
            # set-up: WHICH set-up is not demanded here, but the views agree with one another at every moment
            try:
                gv = real_views(w[2])
            except Exception as e:
                r.check(False, 'consistency', 'consistency/views-raise-before-recompile/%s' % type(e).__name__,
                        exc=repr(e), op=op)
                return r
            n_ = len(gv['names'])
            r.check(len(gv['values']) == n_ and len(gv['bounds']) == n_ and len(gv['priors']) == n_, 'consistency',
                    'consistency/lengths-before-recompile', names=gv['names'], values=gv['values'])
            pv_ = dict((p_[0], p_[5]) for p_ in after['params'])
            for i, n in enumerate(gv['names'][:len(gv['prior_log'])]):
                r.check(n.startswith('log_') == gv['prior_log'][i], 'consistency',
                        'consistency/name-prefix-vs-reported-prior/before-recompile', name=n, prior=gv['priors'][i],
                        op=op)
                k_ = strip(n)
                if k_ in pv_ and i < len(gv['values']) and pv_[k_] is not None:
                    try:
                        want_v = math.log10(pv_[k_]) if gv['prior_log'][i] else pv_[k_]
                    except (ValueError, TypeError):
                        continue
                    r.check(feq(gv['values'][i], want_v), 'consistency',
                            'consistency/value-space-vs-reported-prior/before-recompile', name=n, got=gv['values'][i],
                            param_value=pv_[k_], prior=gv['priors'][i], op=op)
        return r

    # ---- observables after compile_params --------------------------------------------------
    tag = 'first-compile' if s.ncompiles == 1 else 'recompile'
    got = real_views(w[2])
    want = s.views()
    r.observe(got['names'], got['values'], got['bounds'], got['priors'], got['derived'])
    for i, n in enumerate(got['names']):
        r.check(n.startswith('log_') == got['prior_log'][i], 'consistency',
                'consistency/name-prefix-vs-reported-prior/%s' % tag, name=n, prior=got['priors'][i])
    check_views(r, got, want, s, tag, 'compiled-view')
    # what the optimiser writes about itself into an output file (both writers) is the same set-up: the same names in
    # the same order, the boundaries of the same priors
    for writer in ('write_optimizer', 'write_fit'):
        rec = _RecOutput()
        try:
            getattr(w[2], writer)(rec)
        except Exception as e:
            r.check(False, 'consistency', 'written/%s-raised/%s' % (writer, type(e).__name__), exc=repr(e))
            continue
        flat = rec.flat()
        wn_ = [str(x) for x in flat.get('fit_parameter_names', [])]
        r.check(wn_ == list(got['names']), 'consistency', 'written/%s/names' % writer, written=wn_, reported=got['names'])
        lo_, hi_ = flat.get('fit_boundary_low'), flat.get('fit_boundary_high')
        if r.check(lo_ is not None and hi_ is not None and len(lo_) == len(got['bounds']) == len(hi_), 'consistency',
                   'written/%s/boundary-count' % writer):
            for i, (a_, b_) in enumerate(zip(lo_, hi_)):
                wb = (min(float(a_), float(b_)), max(float(a_), float(b_)))
                src, agree = space_class(s.p[strip(got['names'][i])], got['prior_log'][i])
                r.check(feq(wb[0], got['bounds'][i][0]) and feq(wb[1], got['bounds'][i][1]), 'consistency',
                        'written/%s/boundaries/%s/%s' % (writer, src, agree), name=got['names'][i], written=wb,
                        reported=got['bounds'][i], prior=got['priors'][i])
    # differential: fresh objects, net settings applied once
    try:
        w2 = configure_fresh(s, initial)
    except Exception as e:
        r.check(False, 'differential', 'differential/fresh-configuration-raised/%s' % type(e).__name__, exc=repr(e))
        w2 = None
    if w2 is not None:
        check_views(r, got, real_views(w2[2]), s, tag, 'differential')
    # round trip (destructive, on this case's private objects)
    pvals = dict((p[0], p[5]) for p in after['params'])
    fitted = dict((strip(n), i) for i, n in enumerate(got['names']))
    try:
        w[2].update_model(list(w[2].fit_values))
    except (OverflowError, ValueError, ArithmeticError) as e:
        # the reported values cannot even be written back (10**value overflows when a linear value is
        # reported under a log prior): same structural classes as a changed value
        hit = False
        for k, i in fitted.items():
            src, agree = space_class(s.p[k], got['prior_log'][i])
            if agree == 'mode-differs-from-prior-space':
                hit = True
                cls = '%s/%s' % (src + ('/' + tag if src == 'default-prior' else ''), agree)
                r.check(False, 'round-trip', 'round-trip/fitted-value-changes/%s' % cls, param=k,
                        exc=repr(e), reported=got['values'][i], name=got['names'][i])
        if not hit:
            r.check(False, 'round-trip', 'round-trip/raised/%s' % type(e).__name__, exc=repr(e),
                    reported=got['values'], names=got['names'])
        return r
    rt = real_state(*w)
    for p in rt['params']:
        k = p[0]
        if k in fitted:
            i = fitted[k]
            src, agree = space_class(s.p[k], got['prior_log'][i])
            cls = '%s/%s' % (src + ('/' + tag if src == 'default-prior' else ''), agree)
            r.check(feq(p[5], pvals[k]), 'round-trip', 'round-trip/fitted-value-changes/%s' % cls,
                    param=k, before=pvals[k], after=p[5], reported=got['values'][i], name=got['names'][i],
                    mode=p[2], reported_prior=got['priors'][i])
        else:
            r.check(p[5] == pvals[k], 'round-trip', 'round-trip/unfitted-changes/%s' % p[6],
                    param=k, before=pvals[k], after=p[5])
    return r


# ----------------------------------------------------------------------------------------------
# observations that expose only part of the interface: a derived quantity but nothing to fit, something to fit but
# nothing derived, or neither - the compiled set-up lists every enabled fitted / derived parameter of the model AND
# of the observation whatever else the observation exposes
# ----------------------------------------------------------------------------------------------
def _partial_obs(kind):
    from taurex.data.spectrum import ArraySpectrum
    from taurex.core import fitparam, derivedparam

    class DerivedOnly(ArraySpectrum):
        @derivedparam(param_name='obs_d', param_latex='$d_{obs}$', compute=False)
        def obsD(self):
            return 0.25

    class FitOnly(ArraySpectrum):
        def __init__(self, arr):
            self._scale = 1.0
            ArraySpectrum.__init__(self, arr)

        @fitparam(param_name='obs_scale', param_latex='$s_{obs}$', default_mode='linear', default_fit=False,
                  default_bounds=[0.5, 2.0])
        def obsScale(self):
            return self._scale

        @obsScale.setter
        def obsScale(self, value):
            self._scale = value

    return {'derived-only': DerivedOnly, 'fit-only': FitOnly, 'plain': ArraySpectrum, 'both': _obs_class()}[kind]


PARTIAL_OPS = [['enable_derived', 'obs_d'], ['disable_derived', 'obs_d'], ['enable_derived', 'mu'], ['disable_derived', 'mu'],
               ['enable_fit', 'obs_scale'], ['disable_fit', 'obs_scale'], ['enable_fit', 'T'], ['disable_fit', 'planet_radius'],
               ['compile_params']]


def partial_fn(case):
    from taurex.optimizer.optimizer import Optimizer
    r = core.R(case)
    tm, _, _ = world()
    wl = 10000.0 / np.array(WN)
    obs = _partial_obs(case['obs'])(np.vstack([wl, np.ones(4) * 0.01, np.ones(4) * 1e-4]).T)
    opt = Optimizer('c07p', obs, tm)
    has = {'obs_d': case['obs'] in ('derived-only', 'both'), 'obs_scale': case['obs'] in ('fit-only', 'both')}
    for op in case['hist'] + [['compile_params']]:
        known = len(op) < 2 or has.get(op[1], True)
        try:
            getattr(opt, op[0])(*op[1:])
            if not known:
                r.check(False, 'error-raised', 'partial/no-error/%s/%s' % (op[0], case['obs']), op=op)
        except Exception as e:
            if known:
                r.check(False, 'no-exception', 'partial/raised/%s/%s/%s' % (op[0], case['obs'], type(e).__name__),
                        op=op, exc=repr(e))
                return r
    want_fit = [v[0] for src in (tm.fittingParameters, obs.fittingParameters) for v in src.values() if v[5]]
    want_der = [v[0] for src in (tm.derivedParameters, obs.derivedParameters) for v in src.values() if v[3]]
    want_dv = [float(v[2]()) for src in (tm.derivedParameters, obs.derivedParameters) for v in src.values() if v[3]]
    got_fit = [strip(n) for n in opt.fit_names]
    r.check(sorted(got_fit) == sorted(want_fit), 'compiled-view', 'partial/fitted-names/%s' % case['obs'], got=got_fit,
            want=want_fit)
    got_der = list(opt.derived_names)
    r.check(sorted(got_der) == sorted(want_der), 'compiled-view', 'partial/derived-names/%s' % case['obs'], got=got_der,
            want=want_der)
    if sorted(got_der) == sorted(want_der):
        gd = dict(zip(got_der, [float(v) for v in opt.derived_values]))
        r.check(all(feq(gd[n], v) for n, v in zip(want_der, want_dv)), 'compiled-view',
                'partial/derived-values/%s' % case['obs'], got=gd, want=want_dv)
    r.observe(got_fit, got_der)
    r.nontrivial = bool(want_der or want_fit)
    return r


# ----------------------------------------------------------------------------------------------
# a user-supplied prior class with its own value map (priors are an extension point): the vector written to the model
# goes through the prior's own prior() - whatever the map is - for exactly the fitted parameters
# ----------------------------------------------------------------------------------------------
def custom_prior_fn(case):
    from taurex.core.priors import Uniform, LogUniform
    r = core.R(case)
    tm, obs, opt = world()

    class Folded(Uniform):
        """linear space; values outside the bounds are folded back into them"""
        def prior(self, value):
            lo, hi = self.boundaries()
            return min(max(value, lo), hi)

    class Shifted(LogUniform):
        """log space with an offset of half a decade"""
        def prior(self, value):
            return 10 ** (value + 0.5)

    kinds = {'folded': (Folded, [500.0, 2500.0], lambda v: min(max(v, 500.0), 2500.0)),
             'shifted': (Shifted, [-6.0, -2.0], lambda v: 10 ** (v + 0.5))}
    before = dict((k, v[2]()) for k, v in list(tm.fittingParameters.items()) + list(obs.fittingParameters.items()))
    plan = case['plan']            # [(parameter, kind)]
    for name, _ in plan:
        opt.enable_fit(name)
    for name in list(tm.fittingParameters):
        if name not in [p_ for p_, _ in plan] and tm.fittingParameters[name][5]:
            opt.disable_fit(name)
    maps = {}
    for name, kind in plan:
        cls, b, fn_ = kinds[kind]
        opt.set_prior(name, cls(bounds=b))
        maps[name] = fn_
    opt.compile_params()
    names = [strip(n) for n in opt.fit_names]
    if not r.check(sorted(names) == sorted(maps), 'compiled-view', 'custom-prior/fitted-set', got=names):
        return r
    for vec_letter in case['vecs']:
        vec = [{'in': 1200.0, 'below': 100.0, 'above': 9000.0}[vec_letter] if maps[n] is kinds['folded'][2]
               else {'in': -4.0, 'below': -7.5, 'above': -1.0}[vec_letter] for n in names]
        opt.update_model(list(vec))
        for n, v in zip(names, vec):
            holder = tm.fittingParameters if n in tm.fittingParameters else obs.fittingParameters
            r.check(feq(holder[n][2](), maps[n](v)), 'update-writes-prior-transformed', 'custom-prior/value/%s' % vec_letter,
                    param=n, written=v, got=holder[n][2](), want=maps[n](v))
        for n, v0 in before.items():
            if n not in names:
                holder = tm.fittingParameters if n in tm.fittingParameters else obs.fittingParameters
                r.check(holder[n][2]() == v0, 'update-touches-only-fitted', 'custom-prior/unfitted-changed', param=n)
    r.observe([(n, maps[n](1.0) if False else 0) for n in names])
    r.nontrivial = True
    return r


# ----------------------------------------------------------------------------------------------
# a user-defined forward model that registers its parameters after the base-class constructor (one per coefficient, the
# way the gas and temperature classes do) and whose bounds are changed through the Fittable interface afterwards
# ----------------------------------------------------------------------------------------------
def custom_model_fn(case):
    from taurex.model import ForwardModel
    from taurex.core import derivedparam
    from taurex.optimizer.optimizer import Optimizer
    r = core.R(case)
    _, obs, _ = world()

    class Poly(ForwardModel):
        def __init__(self, coeffs):
            super().__init__('Poly')
            self._c = [float(c_) for c_ in coeffs]
            for idx in range(len(self._c)):
                def read_c(self, idx=idx):
                    return self._c[idx]

                def write_c(self, value, idx=idx):
                    self._c[idx] = value
                self.add_fittable_param('coeff_%d' % idx, '$c_%d$' % idx, read_c, write_c, 'linear', False, [-10.0, 10.0])

        def build(self):
            pass

        def model(self, wngrid=None, cutoff_grid=True):
            x = np.array(WN) / 1000.0
            return np.array(WN), sum(c_ * x ** k_ for k_, c_ in enumerate(self._c)), None, None

    m = Poly([1.0, 2.0, 3.0])
    if case['late_bounds']:
        m.modify_bounds('coeff_1', [-2.5, 7.5])
    opt = Optimizer('c07m', obs, m)
    try:
        for op in case['ops']:
            getattr(opt, op[0])(*op[1:])
        opt.compile_params()
    except Exception as e:
        r.check(False, 'no-exception', 'custom-model/raised/%s' % type(e).__name__, exc=repr(e), ops=case['ops'])
        return r
    want = [n_ for n_ in ('coeff_0', 'coeff_1', 'coeff_2') if any(o_[0] == 'enable_fit' and o_[1] == n_ for o_ in case['ops'])
            and not any(o_[0] == 'disable_fit' and o_[1] == n_ for o_ in case['ops'][[i_ for i_, o2 in enumerate(case['ops'])
                        if o2[0] == 'enable_fit' and o2[1] == n_][-1]:])]
    names = [strip(n_) for n_ in opt.fit_names]
    r.check(sorted(names) == sorted(want), 'compiled-view', 'custom-model/fitted-set', got=names, want=want)
    for n_, b_ in zip(names, opt.fit_boundaries):
        explicit = [o_[2] for o_ in case['ops'] if o_[0] == 'set_boundary' and o_[1] == n_]
        wb = explicit[-1] if explicit else ([-2.5, 7.5] if (n_ == 'coeff_1' and case['late_bounds']) else [-10.0, 10.0])
        r.check(feq(min(b_), min(wb)) and feq(max(b_), max(wb)), 'compiled-view', 'custom-model/boundaries', name=n_,
                got=list(b_), want=wb)
    vec = [0.25 * (i_ + 1) for i_ in range(len(names))]
    opt.update_model(list(vec))
    for n_, v_ in zip(names, vec):
        r.check(feq(m.fittingParameters[n_][2](), v_), 'update-writes-prior-transformed', 'custom-model/update', name=n_)
    r.observe(names, [list(b_) for b_ in opt.fit_boundaries])
    r.nontrivial = bool(names)
    return r


# ----------------------------------------------------------------------------------------------
# alphabets and exploration
# ----------------------------------------------------------------------------------------------
def alphabet(params, derived, priors=('U', 'LU', 'G'), errors='few', updates=('v1', 'v2'), spelled=False):
    ops = []
    for p in params:
        ops += [['enable_fit', p], ['disable_fit', p], ['set_mode', p, 'linear'], ['set_mode', p, 'log'],
                ['set_boundary', p, 'b1'], ['set_boundary', p, 'b2'], ['set_factor_boundary', p, 'f1']]
        ops += [['set_prior', p, k] for k in priors]
    for q in derived:
        ops += [['enable_derived', q], ['disable_derived', q]]
    ops += [['compile_params']]
    ops += [['update_model', v] for v in updates]
    if errors:
        ops += [['enable_fit', 'nope'], ['set_prior', 'nope', 'U'], ['update_model', 'badlen']]
    if spelled:
        # ... and a spelling that is no mode at all: an error that must leave the parameter as it was
        ops += [['set_mode', p, m] for p in params for m in ('Log', 'LINEAR', 'cubic')]
    if errors == 'all':
        ops += [['disable_fit', 'nope'], ['set_mode', 'nope', 'log'], ['set_boundary', 'nope', 'b1'],
                ['set_factor_boundary', 'nope', 'f1'], ['enable_derived', 'nope'], ['disable_derived', 'nope'],
                ['update_model', 'toolong']]
        if params:
            ops += [['set_mode', params[0], 'cubic']]
    return ops


QUICK_PARAMS = ['planet_radius', 'T', 'H2O', 'obs_scale']
PRESETS = [
    # everything of the quick alphabet fitted and compiled, then written once
    [['enable_fit', 'T'], ['enable_fit', 'H2O'], ['enable_fit', 'obs_scale'], ['enable_derived', 'logg'],
     ['compile_params'], ['update_model', 'v1']],
    # mixed mode / prior spaces on model and observation side, compiled
    [['enable_fit', 'T'], ['enable_fit', 'obs_scale'], ['set_prior', 'T', 'LU'], ['set_mode', 'obs_scale', 'log'],
     ['set_prior', 'H2O', 'U'], ['disable_fit', 'planet_radius'], ['enable_derived', 'obs_d'], ['compile_params']],
]


def run_phase(ctx, name, ops, depth, roots=([],), max_states=None):
    seen = ctx.bfs('hist_fn', [list(h) for h in roots], lambda h, extra: ops, depth, phase=name,
                   max_states=max_states)
    rootset = set(repr(list(h)) for h in roots)
    for k, h in seen.items():
        if repr(list(h)) not in rootset:
            ctx.nontrivial.add(core.ohash(name, k))
    ctx.bounds[name + '.alphabet'] = len(ops)
    ctx.bounds[name + '.roots'] = len(list(roots))
    return seen


def explore(ctx):
    quick = ctx.tier != 'thorough'
    import itertools
    pc = [{'obs': ob, 'hist': [list(o_) for o_ in h]} for ob in ('derived-only', 'fit-only', 'plain', 'both')
          for k_ in range(0, 3 if quick else 4) for h in itertools.product(PARTIAL_OPS, repeat=k_)]
    ctx.run_cases('partial_fn', pc, phase='partial-observation')
    cp = [{'plan': pl, 'vecs': list(vs)} for pl in ([['T', 'folded']], [['H2O', 'shifted']], [['T', 'folded'], ['H2O', 'shifted']],
                                                       [['planet_radius', 'shifted'], ['T', 'folded']])
          for vs in itertools.permutations(['in', 'below', 'above'], 2)]
    ctx.run_cases('custom_prior_fn', cp, phase='custom-prior')
    mops = [['enable_fit', 'coeff_0'], ['enable_fit', 'coeff_1'], ['enable_fit', 'coeff_2'], ['disable_fit', 'coeff_1'],
            ['set_boundary', 'coeff_1', [0.5, 4.0]], ['set_mode', 'coeff_2', 'linear']]
    cm = [{'ops': [list(o_) for o_ in h], 'late_bounds': lb} for k_ in (1, 2, 3) for h in itertools.product(mops, repeat=k_)
          for lb in (False, True)]
    ctx.run_cases('custom_model_fn', cm, phase='custom-model')
    # writes from outside the optimiser interleaved with (repeated, identical) update_model vectors
    ext = [['enable_fit', 'T'], ['compile_params'], ['update_model', 'v1'], ['update_model', 'v2'],
           ['external_set', 'planet_radius', 'x1'], ['external_set', 'T', 'x1'], ['external_set', 'T', 'x2']]
    run_phase(ctx, 'external', ext, 5 if quick else 7)
    # parameters whose current value is negative (written from outside): boundaries by factors keep the sign
    neg = [['external_set', 'obs_scale', 'xneg'], ['external_set', 'T', 'xneg'], ['set_factor_boundary', 'obs_scale', 'f1'],
           ['set_factor_boundary', 'T', 'f1'], ['enable_fit', 'obs_scale'], ['enable_fit', 'T'], ['compile_params'],
           ['external_set', 'obs_scale', 'x1']]
    run_phase(ctx, 'negative', neg, 4)
    if quick:
        # four parameters (default-fit linear, linear, log, observation-side) and all three derived
        # parameters, every operation, depth 3
        run_phase(ctx, 'all', alphabet(QUICK_PARAMS, DERIVED, priors=('U', 'LU'), errors='few', updates=('v1',)), 3)
        # two parameters (default-fit linear + log, the pair of the design prototype), depth 4
        run_phase(ctx, 'pair', alphabet(['planet_radius', 'H2O'], [], errors=None, updates=('v1', 'v2np', 'same')), 4)
        # differently capitalised mode names next to the plain ones
        run_phase(ctx, 'spelling', alphabet(['planet_radius', 'H2O'], [], priors=(), errors=None, updates=('v1',),
                                            spelled=True), 3)
        # start from non-initial states: two presets, every operation, depth 2
        run_phase(ctx, 'preset', alphabet(QUICK_PARAMS, DERIVED, priors=('U', 'LU', 'G'), errors='few'), 2,
                  roots=PRESETS)
    else:
        # all five parameters, all derived parameters, four prior kinds, every error letter, depth 4
        # (this contains every depth-2 state of the full alphabet as the start of a depth-2 search)
        run_phase(ctx, 'all', alphabet(PARAMS, DERIVED, priors=('U', 'LU', 'G', 'LG'), errors='all'), 4)
        run_phase(ctx, 'pair', alphabet(['planet_radius', 'H2O'], [], errors=None, updates=('v1', 'v2', 'v2np', 'same')), 6)
        run_phase(ctx, 'spelling', alphabet(['planet_radius', 'H2O', 'obs_scale'], [], priors=('U',), errors=None,
                                            updates=('v1',), spelled=True), 4)
        run_phase(ctx, 'pair-obs', alphabet(['T', 'obs_scale'], ['obs_d'], errors=None, updates=('v1',)), 5)
        run_phase(ctx, 'preset', alphabet(PARAMS, DERIVED, priors=('U', 'LU', 'G', 'LG'), errors='few'), 3,
                  roots=PRESETS)
