"""C09 - posterior summaries are the weighted statistics of the stored samples
(DESIGN.md section 4, C09).

Engine E1.  A case fixes the sampler letter (nestle / MultiNest multimodal with one or two modes /
MultiNest non-multimodal / PolyChord clustered with one or two clusters / PolyChord unclustered),
the number of samples n, the fitted selection (d = 1..3), a permutation of a distinct value lattice
per dimension, an integer weight vector from {0,1,2,3}^n (normalised by the double) and the derived
selection.  A complete `Optimizer.fit()` is executed on fresh objects with the sampler replaced by
its double (mc/doubles_samplers.py), which returns / writes exactly that sample set in the sampler's
native format.  The returned solution dictionary is compared with the oracle:

  * tracedata / weights / per-parameter trace : the double's arrays, element for element, in order;
  * value, sigma_m, sigma_p : weighted 50 %, 50-16 %, 84-50 % quantiles (mc.ref.stats
    .wquantile_interval: sorted cumulative weights, linear interpolation);
  * MAP : one of the samples of greatest weight (all parameters from the same sample); mean : the
    weighted mean.  For MultiNest both come from the sampler's own statistics, which the double
    writes (MAP := heaviest sample, 'maximum' := lightest sample, mean := weighted mean): the
    oracle there is 'passed through unchanged';
  * Spectra.binned_spectrum : independent model (fresh objects, component setters, full native
    grid) at the reported MAP vector, binned with mc.ref.stats.overlap_bin to the observation;
  * Profiles.* : the same independent model at the reported median vector;
  * every derived trace has one entry per sample, entry i = derived value of the independent model
    at sample i; its value / sigma_m / sigma_p / mean follow the same quantile rule.
"""
import contextlib
import io
import itertools
import math

import numpy as np

from mc import core, fixtures as fx
from mc import doubles_samplers as ds
from mc import doubles_retrieval as dr
from mc.ref import stats as rs

ID = 'C09'
RULE = ('full product sampler letter (7) x n in 1..3 x every weight vector of {0,1,2,3}^n except 0 '
        '(quick; n <= 4 and a capped n = 5 slice in thorough) with two fitted parameters; all pairs of '
        'per-dimension value permutations for n = 3 on a weight sub-alphabet (ties, zeros, distinct); '
        'one fitted parameter x all weights; derived selection x sampler letter; every split of the '
        'samples into two modes / clusters.  A case is non-trivial when the weights are not all equal '
        'or the value order is not the identity (median, MAP and the sample order are then '
        'distinguishable).')
ASSUME = ['MultiNest / PolyChord are replaced by doubles that emit the output files as the wrappers '
          'parse them; MultiNest MAP / mean are the sampler\'s own statistics and only their pass-through '
          'is decided',
          'the PolyChord double writes a -2logL column that ranks samples like their weights (ties '
          'broken by sample index): sample of greatest likelihood == a sample of greatest weight',
          'the forward model (C01) and FluxBinner (C05) are trusted: the oracle runs an independently '
          'built instance on the full native grid and bins with its own overlap reference',
          'sigma_fraction = 1, one process (rank splitting is C18)', 'n <= 5 samples, d <= 3']

LATTICE = {'T': [620.0, 880.0, 1130.0, 1410.0, 1690.0],
           'H2O': [-5.2, -4.1, -3.0, -2.2, -1.4],               # fit space (log10)
           'planet_radius': [0.92, 0.97, 1.03, 1.08, 1.12]}
FITTED = {1: ['T'], 2: ['T', 'H2O'], 3: ['planet_radius', 'T', 'H2O']}
DERIVED = {'none': [], 'mu': ['mu'], 'mu+logg': ['mu', 'logg'], 'mu+avg_T+logg': ['mu', 'avg_T', 'logg']}
SAMPLER_LETTERS = ['nestle', 'mn-multi1', 'mn-single', 'pc-cluster1', 'pc-nocluster', 'mn-multi2',
                   'pc-cluster2']
PROFILE_KEYS = {'temp_profile': lambda m: m.temperatureProfile,
                'active_mix_profile': lambda m: m.chemistry.activeGasMixProfile,
                'inactive_mix_profile': lambda m: m.chemistry.inactiveGasMixProfile,
                'density_profile': lambda m: m.densityProfile,
                'altitude_profile': lambda m: m.altitudeProfile,
                'pressure_profile': lambda m: m.pressureProfile,
                'mu_profile': lambda m: m.chemistry.muProfile}

OBS_LAYOUT = '3col-nonuniform'


def _values(name, n, perm_index, dup=None):
    if n > 5:
        # many-mode cases: the lattice stretched to n values; order letters 0 (as is), 1 (reversed), 2 (rotated)
        base = [float(v) for v in np.linspace(LATTICE[name][0], LATTICE[name][-1], n)]
        jit = fx.rng('c09', name, n).uniform(-0.004, 0.004, size=n)
        vals = [b * (1.0 + j) for b, j in zip(base, jit)]
        perm = [list(range(n)), list(range(n))[::-1], list(range(n // 3, n)) + list(range(n // 3))][perm_index]
        return [vals[i] for i in perm]
    base = LATTICE[name][:n]
    jit = fx.rng('c09', name).uniform(-0.004, 0.004, size=5)[:n]
    vals = [b * (1.0 + j) for b, j in zip(base, jit)]
    perm = list(itertools.permutations(range(n)))[perm_index]
    out = [vals[i] for i in perm]
    if dup is not None:
        # repeated values: sample i takes the value of sample dup[i] (exactly equal floats)
        out = [out[j] for j in dup]
    return out


def _split(case, n):
    k = case.get('split')
    if case.get('nmodes'):
        # many modes / clusters: the first one holds the samples left over, every other one a single sample
        first = n - case['nmodes'] + 1
        return [list(range(0, first))] + [[i] for i in range(first, n)]
    if case['sampler'] in ('mn-multi2', 'pc-cluster2'):
        return [list(range(0, k)), list(range(k, n))]
    return [list(range(n))]


def valid_case(case):
    n = case['n']
    w = case['weights']
    for part in _split(case, n):
        if not part or sum(w[i] for i in part) == 0:
            return False
    return True


def _silent():
    return contextlib.redirect_stdout(io.StringIO())


def _scalar(x):
    a = np.asarray(x, dtype=float)
    return float(a.reshape(-1)[0]) if a.size == 1 else None


def fit_case(case):
    r = core.R(case)
    dr.install_opacities()
    n, d = case['n'], case['d']
    fitted = FITTED[d]
    sampler_letter = case['sampler']
    sampler = {'ne': 'nestle', 'mn': 'multinest', 'pc': 'polychord'}[sampler_letter[:2]]
    # ---- the enumerated sample set ------------------------------------------------------------
    cols = {}
    for j, name in enumerate(fitted):
        cols[name] = _values(name, n, case['perm'][j], case.get('dup') if name == 'T' else None)
    wint = np.array(case['weights'], dtype=float)
    priors = {}
    if case.get('gauss'):
        # non-uniform priors whose reported 'boundaries' are only their central interval: most samples lie in the tails
        priors = {'T': 'gaussian'}
        if 'H2O' in fitted:
            priors['H2O'] = 'loggaussian'
    if case.get('zeromap'):
        # the planet radius is sampled in log space and the sample of greatest weight sits at exactly one Jupiter
        # radius: its coordinate in the sampled space is exactly 0.0
        priors = {'planet_radius': 'loguniform'}
        th = [0.015, -0.02, 0.03, -0.035, 0.04][:n]
        th[int(np.argmax(wint))] = 0.0
        cols['planet_radius'] = th
    # ---- real objects ---------------------------------------------------------------------------
    nb = len(dr.LAYOUTS[OBS_LAYOUT]['wl'])
    spectrum = [0.010885 + 1.3e-5 * ((i * 7) % 5 - 2) for i in range(nb)]
    obs = dr.build_obs(OBS_LAYOUT, spectrum, dr.error_bars('distinct', nb))
    p = dr.build_model('iso')
    path = fx.fresh_dir('c09_' + sampler)
    opt = dr.make_optimizer(sampler, obs, p.model, path,
                            multimodal=(sampler_letter != 'mn-single'),
                            cluster=(sampler_letter != 'pc-nocluster'), prefix=case.get('prefix'))
    pbn = dr.configure(opt, p.model, fitted, priors)
    # derived selection (direct tuple edit: Optimizer.disable_derived is C07's subject)
    want_derived = DERIVED[case['derived']]
    for owner in (p.model,):
        for dn in list(owner.derivedParameters):
            t = owner.derivedParameters[dn]
            owner.derivedParameters[dn] = (t[0], t[1], t[2], dn in want_derived)
    opt.compile_params()
    order = [c[0] for c in opt.fitting_parameters]
    r.check(sorted(order) == sorted(fitted), 'fit-order', 'harness/fit-order', order=order)
    samples = np.array([[cols[name][i] for name in order] for i in range(n)], dtype=float)
    parts = _split(case, n)
    modes = []
    stats = []
    for part in parts:
        s = samples[part]
        w = wint[part] / wint.sum() if case.get('wscale', 'norm') == 'norm' else wint[part] * 0.75
        modes.append((s, w))
        imax = int(np.argmax(w))
        imin = int(np.argmin(w))
        stats.append({'mean': [rs.wmean(s[:, j], w) for j in range(d)],
                      'sigma': [0.123 * (j + 1) for j in range(d)],
                      'maximum': s[imin].tolist(),
                      'maximum a posterior': s[imax].tolist()})
    if case.get('prefix') and sampler == 'multinest':
        # an earlier run under the default file prefix left its files in the same output directory: other samples
        # (shifted), other weights (reversed) - nothing of it belongs to the run under the new prefix
        stale_modes = [(sm * 1.003, wm[::-1].copy()) for sm, wm in modes]
        stale_stats = [dict(st_, mean=[v * 1.003 for v in st_['mean']],
                            **{'maximum a posterior': [v * 1.003 for v in st_['maximum a posterior']]}) for st_ in stats]
        p0 = dr.build_model('iso')
        opt0 = dr.make_optimizer(sampler, obs, p0.model, path, multimodal=(sampler_letter != 'mn-single'))
        dr.configure(opt0, p0.model, fitted, priors)
        for dn in list(p0.model.derivedParameters):
            t = p0.model.derivedParameters[dn]
            p0.model.derivedParameters[dn] = (t[0], t[1], t[2], dn in want_derived)
        opt0.compile_params()
        with _silent(), ds.active(ds.Plan(points=[[0.5] * d], modes=stale_modes, stats=stale_stats)):
            opt0.fit()
    plan = ds.Plan(points=[[0.5] * d], modes=modes, stats=stats)
    with _silent(), ds.active(plan):
        if case.get('osize'):
            from taurex import OutputSize
            sol = opt.fit(output_size=OutputSize[case['osize']])
        else:
            sol = opt.fit()
    fit_names = list(opt.fit_names)
    # ---- oracle ---------------------------------------------------------------------------------
    ref = dr.build_model('iso')

    def ref_at(theta):
        vals = dict((k, dr.START[k]) for k in dr.POOL['iso'])
        for name, t in zip(order, theta):
            vals[name] = pbn[name].value(float(t))
        for k, v in vals.items():
            dr.set_param(ref, k, v)
        return vals

    nsol = len(parts)
    keys = sorted((k for k in sol if k.startswith('solution')), key=lambda k_: (len(k_), k_))
    r.check(keys == ['solution%d' % k for k in range(nsol)], 'solutions', 'solutions/count',
            got=keys, want=nsol)
    tag = sampler_letter
    nontrivial = len(set(case['weights'])) > 1 or any(case['perm'])
    for k, part in enumerate(parts):
        key = 'solution%d' % k
        if key not in sol:
            continue
        S = sol[key]
        s, w = modes[k]
        td = np.asarray(S['tracedata'], dtype=float)
        ww = np.asarray(S['weights'], dtype=float)
        r.check(td.shape == s.shape and np.array_equal(td, s), 'tracedata', 'tracedata/%s' % tag,
                got=td, want=s)
        r.check(ww.shape == w.shape and np.array_equal(ww, w), 'weights', 'weights/%s' % tag,
                got=ww, want=w)
        r.observe(td, ww)
        wmax = w.max()
        heavy = [i for i in range(len(w)) if w[i] == wmax]
        rep_map = []
        rep_med = []
        fp = S['fit_params']
        r.check(sorted(fp) == sorted(fit_names), 'fit_params-keys', 'fit_params/keys/%s' % tag,
                got=sorted(fp), want=sorted(fit_names))
        for j, fname in enumerate(fit_names):
            if fname not in fp:
                continue
            e = fp[fname]
            tr = np.asarray(e['trace'], dtype=float)
            r.check(tr.shape == (len(w),) and np.array_equal(tr, s[:, j]), 'trace',
                    'trace/%s' % tag, got=tr, want=s[:, j], param=fname)
            _quantiles(r, e, s[:, j], w, 'fit/%s' % tag, fname)
            mkey = 'map' if sampler == 'nestle' else 'nest_map'
            mean_key = 'nest_mean' if sampler == 'polychord' else 'mean'
            mv = _scalar(e[mkey])
            r.check(mv is not None, 'map-is-one-sample', 'map/not-a-scalar/%s' % tag,
                    got=e[mkey], param=fname)
            rep_map.append(mv)
            rep_med.append(_scalar(e['value']))
            r.eq(e[mean_key], rs.wmean(s[:, j], w), 'mean', 'mean/%s' % tag, param=fname)
            if sampler == 'multinest':
                r.check(mv == stats[k]['maximum a posterior'][j], 'map-pass-through',
                        'map/pass-through/%s' % tag, got=mv, want=stats[k]['maximum a posterior'][j])
                r.check(_scalar(e['nest_sigma']) == stats[k]['sigma'][j], 'sigma-pass-through',
                        'sigma/pass-through/%s' % tag, got=e['nest_sigma'])
        if None in rep_map or None in rep_med or len(rep_map) != d:
            continue
        is_sample = [i for i in heavy if all(rep_map[j] == s[i, j] for j in range(d))]
        r.check(len(is_sample) > 0, 'map-greatest-weight', 'map/not-greatest-weight/%s' % tag,
                got=rep_map, weights=w, samples=s)
        r.observe(rep_map, rep_med)
        # spectrum at the MAP
        vals = ref_at(rep_map)
        wn, spec, _, _ = ref.model.model()
        wn = np.asarray(wn, dtype=float)
        spec = np.asarray(spec, dtype=float)
        o = np.argsort(wn)
        nc, nw = rs.native_bins(wn[o])
        want = rs.overlap_bin(nc, nw, spec[o], obs.wavenumberGrid, obs.binWidths)
        got = np.asarray(S['Spectra']['binned_spectrum'], dtype=float)
        r.eq(got.ravel(), want, 'spectrum-at-map', 'spectrum-at-map/%s' % tag, map=rep_map)
        gotn = np.asarray(S['Spectra']['native_spectrum'], dtype=float)
        r.eq(gotn.ravel(), spec, 'native-spectrum-at-map', 'native-spectrum-at-map/%s' % tag)
        # the per-source and per-component spectra stored next to it describe the same (MAP) model
        stored_c = S['Spectra'].get('Contributions')
        if case.get('osize') and not (isinstance(stored_c, dict) and len(stored_c) > 0):
            r.count('contributions-not-stored-at-reduced-size')
        elif r.check(isinstance(stored_c, dict) and len(stored_c) > 0, 'contributions-stored',
                     'contributions/missing/%s' % tag, got=type(stored_c).__name__):
            _, per_source = ref.model.model_contrib()
            _, per_comp = ref.model.model_full_contrib()
            r.check(sorted(stored_c) == sorted(per_source), 'contributions-stored', 'contributions/names/%s' % tag,
                    got=sorted(stored_c), want=sorted(per_source))
            for cname, (cflux, _, _) in per_source.items():
                e_c = stored_c.get(cname)
                if not isinstance(e_c, dict) or 'native_spectrum' not in e_c:
                    continue
                r.eq(np.asarray(e_c['native_spectrum'], dtype=float).ravel(), np.asarray(cflux, dtype=float),
                     'contributions-at-map', 'contributions/source-not-at-map/%s' % tag, source=cname, map=rep_map,
                     median=rep_med)
                for comp, cf, _, _ in per_comp[cname]:
                    e_k = e_c.get(comp)
                    if isinstance(e_k, dict) and 'native_spectrum' in e_k:
                        r.eq(np.asarray(e_k['native_spectrum'], dtype=float).ravel(), np.asarray(cf, dtype=float),
                             'contributions-at-map', 'contributions/component-not-at-map/%s' % tag, source=cname,
                             component=comp)
        # profiles at the median
        ref_at(rep_med)
        ref.model.model()
        for pk, getter in PROFILE_KEYS.items():
            gotp = np.asarray(S['Profiles'][pk], dtype=float)
            wantp = np.asarray(getter(ref.model), dtype=float)
            r.eq(gotp.reshape(wantp.shape) if gotp.size == wantp.size else gotp, wantp,
                 'profiles-at-median', 'profiles-at-median/%s/%s' % (pk, tag), median=rep_med)
        # derived traces
        dp = S.get('derived_params', {}) if want_derived else S.get('derived_params', {})
        got_keys = sorted(dp)
        r.check(got_keys == sorted('%s_derived' % q for q in want_derived), 'derived-keys',
                'derived/keys/%s' % tag, got=got_keys, want=want_derived)
        if want_derived:
            ref_tr = dict((q, []) for q in want_derived)
            for i in range(len(w)):
                ref_at(s[i])
                ref.model.initialize_profiles()
                for q in want_derived:
                    ref_tr[q].append(float(ref.model.derivedParameters[q][2]()))
            for q in want_derived:
                e = dp.get('%s_derived' % q)
                if e is None:
                    continue
                tr = np.asarray(e['trace'], dtype=float)
                want_tr = np.array(ref_tr[q])
                okshape = r.check(tr.shape == want_tr.shape, 'derived-trace-length',
                                  'derived/trace-length/%s' % tag, got=tr.shape, want=want_tr.shape,
                                  which=q)
                if not okshape:
                    continue
                r.eq(tr, want_tr, 'derived-trace', 'derived/trace-order-or-value/%s' % tag,
                     which=q)
                _quantiles(r, e, want_tr, w, 'derived/%s' % tag, q, rtol=1e-9)
                r.eq(e['mean'], rs.wmean(want_tr, w), 'derived-mean', 'derived/mean/%s' % tag,
                     which=q)
                r.observe(tr)
    if nontrivial:
        r.nontrivial = True
    return r


def _within(x, lo, hi, scale, rtol=1e-9):
    x = _scalar(x)
    if x is None or not math.isfinite(x):
        return False
    slack = rtol * max(abs(lo), abs(hi), scale)
    return lo - slack <= x <= hi + slack


def _quantiles(r, e, x, w, tag, name, rtol=1e-9):
    lo16, hi16 = rs.wquantile_interval(x, w, 0.16)
    lo50, hi50 = rs.wquantile_interval(x, w, 0.5)
    lo84, hi84 = rs.wquantile_interval(x, w, 0.84)
    scale = float(np.max(np.abs(x)))
    r.check(_within(e['value'], lo50, hi50, scale, rtol), 'median', 'quantile/value/%s' % tag,
            got=e['value'], want=[lo50, hi50], x=x, w=w, param=name)
    r.check(_within(e['sigma_m'], lo50 - hi16, hi50 - lo16, scale, rtol), 'sigma_m',
            'quantile/sigma_m/%s' % tag, got=e['sigma_m'], want=[lo50 - hi16, hi50 - lo16], x=x, w=w,
            param=name)
    r.check(_within(e['sigma_p'], lo84 - hi50, hi84 - lo50, scale, rtol), 'sigma_p',
            'quantile/sigma_p/%s' % tag, got=e['sigma_p'], want=[lo84 - hi50, hi84 - lo50], x=x, w=w,
            param=name)


# ----------------------------------------------------------------------------------------------
def _case(sampler, n, d, weights, perm=None, derived='mu', split=None, wscale='norm', dup=None, zeromap=False,
          nmodes=None, prefix=None, gauss=False, osize=None):
    c = {'sampler': sampler, 'n': n, 'd': d, 'weights': list(weights),
         'perm': list(perm) if perm is not None else [0] * d, 'derived': derived}
    if nmodes:
        c['nmodes'] = nmodes
    if prefix:
        c['prefix'] = prefix
    if gauss:
        c['gauss'] = True
    if osize:
        c['osize'] = osize
    if dup is not None:
        c['dup'] = list(dup)
    if zeromap:
        c['zeromap'] = True
    if wscale != 'norm':
        c['wscale'] = wscale
    if sampler in ('mn-multi2', 'pc-cluster2'):
        c['split'] = split if split is not None else max(1, n // 2)
    return c


def weight_vectors(n):
    return [w for w in itertools.product(range(4), repeat=n) if any(w)]


def explore(ctx):
    quick = ctx.tier == 'quick'
    cases = []
    seen = set()

    def add(c):
        if c['n'] < 2 and c['sampler'] in ('mn-multi2', 'pc-cluster2') and not c.get('nmodes'):
            return
        if not valid_case(c):
            return
        k = core.ohash(core.jsonable(c))
        if k not in seen:
            seen.add(k)
            cases.append(c)
    nmax = 3 if quick else 4
    # core: sampler x n x all weights (two fitted parameters, mu derived); every split for 2 modes
    for sl in SAMPLER_LETTERS:
        for n in range(1, nmax + 1):
            for w in weight_vectors(n):
                if sl in ('mn-multi2', 'pc-cluster2'):
                    for k in range(1, n):
                        add(_case(sl, n, 2, w, split=k))
                else:
                    add(_case(sl, n, 2, w))
    # value permutations, n = 3 (all pairs), on the weight sub-alphabet; one un-normalised letter
    wsub = [(1, 1, 1), (1, 2, 3), (3, 0, 1), (0, 2, 2), (2, 3, 2)]
    for sl in SAMPLER_LETTERS:
        full = (not quick) or sl == 'nestle'
        if quick and sl not in ('nestle', 'mn-single', 'pc-cluster1'):
            continue
        for pa, pb in itertools.product(range(6), repeat=2):
            if not full and pa != pb:
                continue
            for w in (wsub if not quick else wsub[:4]):
                add(_case(sl, 3, 2, w, perm=[pa, pb], split=1))
        for pa in (1, 4):
            for w in wsub[1:4]:
                add(_case(sl, 3, 2, w, perm=[pa, 5 - pa], split=1, wscale='raw'))
    # one fitted parameter
    for sl in (['nestle'] if quick else SAMPLER_LETTERS):
        for n in range(1, nmax + 1):
            nperm = math.factorial(n)
            for w in weight_vectors(n):
                for pa in (range(nperm) if (not quick or n <= 2) else [0, nperm - 1]):
                    add(_case(sl, n, 1, w, perm=[pa], split=1))
    # derived selections (three fitted parameters so that logg varies with the sample)
    for sl in SAMPLER_LETTERS:
        for dv in DERIVED:
            for w in ([(1, 2, 3), (2, 0, 2)] if quick else weight_vectors(3)):
                for perm in ([[4, 2, 5]] if quick else [[0, 0, 0], [4, 2, 5]]):
                    add(_case(sl, 3, 3, w, perm=perm, derived=dv, split=2))
                add(_case(sl, 3, 2, w, perm=[3, 1], derived=dv, split=1))
    # a most probable sample with a coordinate of exactly zero in the sampled space
    for sl in SAMPLER_LETTERS:
        for w in ([(1, 2, 3), (3, 1, 2), (2, 3, 1), (1, 1, 1)] if quick else weight_vectors(3)):
            add(_case(sl, 3, 3, w, perm=[0, 2, 4], split=2, zeromap=True))
    # repeated trace values: every way two or three of the samples share one temperature exactly, every weight vector
    dups3 = [[0, 0, 1], [0, 1, 0], [0, 1, 1], [1, 0, 0], [2, 2, 0], [0, 0, 0]]
    dups4 = [[0, 0, 1, 2], [0, 1, 1, 2], [0, 1, 2, 2], [0, 0, 1, 1], [1, 0, 1, 0], [0, 2, 2, 2], [3, 0, 0, 3]]
    for sl in (['nestle', 'mn-single', 'pc-nocluster'] if quick else SAMPLER_LETTERS):
        for w in weight_vectors(3):
            for dp in dups3:
                add(_case(sl, 3, 2, w, perm=[0, 2], split=1, dup=dp))
                if sl == 'nestle':
                    add(_case(sl, 3, 1, w, perm=[0], split=1, dup=dp))
        for w in ([(1, 1, 1, 1), (1, 2, 3, 0), (3, 0, 0, 1), (0, 2, 2, 1), (2, 3, 2, 3), (1, 3, 1, 2)] if quick
                  else weight_vectors(4)):
            for dp in dups4:
                add(_case(sl, 4, 2, w, perm=[0, 5], split=2, dup=dp))
    if not quick:
        # n = 4: all T-permutations on a weight sub-alphabet; n = 5: slice
        w4 = [(1, 1, 1, 1), (1, 2, 3, 0), (3, 0, 0, 1), (0, 2, 2, 1), (2, 3, 2, 3)]
        for sl in SAMPLER_LETTERS:
            for pa in range(24):
                for w in w4:
                    add(_case(sl, 4, 2, w, perm=[pa, (pa * 7) % 24], split=2))
        w5 = [w for w in weight_vectors(5)]
        for sl in SAMPLER_LETTERS:
            for w in w5:
                add(_case(sl, 5, 2, w, perm=[0, 0], split=2))
    # many modes / clusters (solution numbers with two digits): 11, 12 and 13 of them, three value orders, weights that
    # single out another mode each time
    for sl in ('mn-multi2', 'pc-cluster2'):
        for nm in ((11, 12, 13) if quick else (10, 11, 12, 13, 21)):
            n_ = nm + 1
            for pi in (0, 1, 2):
                for hv in ((0, n_ - 1) if quick else (0, n_ // 2, n_ - 1)):
                    w_ = [1 + (i * 5) % 3 for i in range(n_)]
                    w_[hv] = 7
                    add(_case(sl, n_, 2, w_, perm=[pi, (pi + 1) % 3], nmodes=nm))
    # a non-default file prefix next to the files of an earlier default-prefix run in the same directory
    for sl in ('mn-multi1', 'mn-multi2', 'mn-single'):
        for w in [(1, 2, 3), (3, 0, 1), (2, 3, 2)]:
            for pa in (0, 3):
                add(_case(sl, 3, 2, w, perm=[pa, 5 - pa], split=1, prefix='run2-'))
    # Gaussian / log-Gaussian priors (samples in their tails), and the reduced output sizes of the program
    for sl in SAMPLER_LETTERS:
        for w in [(1, 2, 3), (3, 0, 1), (2, 3, 2)]:
            for pa in (0, 3, 5):
                add(_case(sl, 3, 2, w, perm=[pa, 5 - pa], split=1, gauss=True))
                for osz in ('light', 'lighter'):
                    add(_case(sl, 3, 2, w, perm=[pa, 5 - pa], split=1, osize=osz))
    ctx.bounds.update(n_max=5 if not quick else 3, weights='{0,1,2,3}^n minus 0', cases=len(cases))
    ctx.run_cases('fit_case', cases, chunk=8)
