"""C20 - correlated-k reduces to cross-sections when the k-distribution is degenerate; in general
the path transmittance is the weight-averaged exponential of the per-point optical depths."""
import math
import numpy as np

from mc import core, fixtures as fx, rthist
from mc.ref import rt, opac

ID = 'C20'
RULE = ('cases = full product of (quadrature weights letter x k-distribution spread x model family x opacity '
        'magnitude) plus <= 2 deviations over all 9 dimensions (thorough: full product of 7 dimensions); every '
        'case runs the real model twice - cross-sections in memory and k-tables from pickle files through '
        'KTableCache - and compares (degenerate: the two spectra; spread: the k-table run with the reference '
        'weight-averaged exponential, the [0,1] range and the Jensen bound).  Non-trivial = spread != 1 or >1 '
        'g-point, with at least one transmittance in (exp(-10), 1-1e-12).')
ASSUME = ['small-scope hypothesis: layers<=5, 4 wavenumbers, <=4 g-points', 'numba/numpy trusted',
          'profiles read from the model (C10/C11)']

WN = fx.WN_GRIDS[4]
TG = fx.T_GRIDS[3]
PG = fx.P_GRIDS[3]
GWS = [[0.2, 0.5, 0.3], [1.0], [0.5, 0.5], [0.9, 0.1], [0.25, 0.5, 0.25], [1.0, 0.0, 0.0],
       [0.25, 0.25, 0.25, 0.25], [0.1, 0.2, 0.3, 0.4]]
DIMS = {
    'gw': GWS,
    # (< 1: the coefficients fall with the quadrature point, the last point is the most transparent one)
    'spread': [1.0, 3.0, 10.0, 0.1],
    'kind': ['transmission', 'emission', 'directimage'],
    'mag': ['tau1', 'thin', 'mixed', 'sat'],
    'N': [3, 2, 5],
    'T': [['dec'], ['iso', 1000.0], ['nonmono'], ['outside']],
    # 'flat': grey haze over the whole atmosphere (both bounds unset) of 2e-31 m2 per particle
    'contribs': [['abs'], ['abs', 'ray'], ['ray', 'abs'], ['abs', 'ray', 'flat'], ['flat', 'abs']],
    'path': ['old', 'new'],
    'ngauss': [2, 3],
    # second molecule tabulated on its own, coarser and shifted wavenumber grid
    # ... or on a grid with as many points and the same first and last point as the model grid, spaced differently
    # ... or on a coarser grid that starts above / ends below the model grid (requests reach beyond the table)
    'grids': ['same', 'different', 'same-ends', 'higher-start', 'lower-end'],
    # abundance of the first active gas: absent everywhere, absent below and present aloft, present with a gap
    'h2o': [['const', 1e-4], ['const', 0.0], ['array', [0.0, 0.0, 2e-4, 2e-4]], ['array', [2e-4, 0.0, 0.0, 2e-4]]],
    # the type the coefficients are stored with in the k-table files
    'kdtype': ['float64', 'float32'],
    # temperature interpolation of the tables (the one global setting, for cross-sections and k-tables alike)
    'mode': ['linear', 'exp'],
    # order in which the k-table files list their quadrature points (abscissae, weights and coefficients alike)
    'gorder': ['asc', 'desc'],
}
MAGS = {'thin': (1e-33, None), 'tau1': (1e-27, None), 'mixed': (1.0, [1e-33, 1e-27, 1e-24, 1e-18]),
        'sat': (1e-18, None)}


WN2 = [800.0, 2300.0, 4300.0]
FLAT = 2e-31
WN3 = [1000.0, 1600.0, 2800.0, 4000.0]
WN4 = [1800.0, 2900.0, 4000.0]
WN5 = [1000.0, 2100.0, 3200.0]


def base_tables(case):
    mag, per = MAGS[case['mag']]
    tabs = {}
    for mol, f in (('H2O', 1.0), ('CH4', 0.37)):
        if mol == 'CH4' and case.get('grids') in ('different', 'higher-start', 'lower-end'):
            per2 = None if per is None else [per[0], per[2], per[3]]
            tabs[mol] = fx.table(3, 3, 3, 1.0, salt=('c20', mol, 'g2'), pattern='generic', per_wn=per2) * mag * f
        elif mol == 'CH4' and case.get('grids') == 'same-ends':
            tabs[mol] = fx.table(3, 3, 4, 1.0, salt=('c20', mol, 'g3'), pattern='generic', per_wn=per) * mag * f
        else:
            tabs[mol] = fx.table(3, 3, 4, 1.0, salt=('c20', mol), pattern='generic', per_wn=per) * mag * f
    return tabs


def grid_of(case, mol):
    if mol == 'CH4' and case.get('grids') == 'different':
        return WN2
    if mol == 'CH4' and case.get('grids') == 'same-ends':
        return WN3
    if mol == 'CH4' and case.get('grids') == 'higher-start':
        return WN4
    if mol == 'CH4' and case.get('grids') == 'lower-end':
        return WN5
    return WN


def gmult(case):
    ng = len(case['gw'])
    s = case['spread']
    if ng == 1:
        return np.array([1.0])
    return np.array([s ** (2.0 * g / (ng - 1) - 1.0) for g in range(ng)])     # 1/s .. s


def spec_of(case):
    return {'kind': case['kind'], 'N': case['N'], 'T': case['T'], 'ngauss': case['ngauss'],
            'path': case['path'], 'gases': [['H2O', case.get('h2o', ['const', 1e-4])], ['CH4', ['array', [1e-5, 1e-3]]]],
            'contribs': [['flat', {'flat_mix_ratio': FLAT}] if c == 'flat' else c for c in case['contribs']]}


def run(case, ktab):
    from taurex.cache import OpacityCache
    fx.reset_caches()
    tabs = base_tables(case)
    f32 = case.get('kdtype') == 'float32'
    if f32:
        # the numbers of the tables are single-precision numbers (stored as such in the k-table files, handed over as
        # the very same values in double precision to the cross-section run)
        tabs = dict((mol, t.astype(np.float32).astype(float)) for mol, t in tabs.items())
    if ktab:
        k = dict((mol, t[..., None] * gmult(case)[None, None, None, :]) for mol, t in tabs.items())
        if f32:
            k = dict((mol, kk.astype(np.float32).astype(float)) for mol, kk in k.items())      # the numbers as stored
        from taurex.cache import GlobalCache
        from taurex.cache.ktablecache import KTableCache
        import os
        d = fx.fresh_dir('ktables')
        for mol, kk in k.items():
            fx.write_pickle_ktable(os.path.join(d, '%s.pickle' % mol), mol, grid_of(case, mol), TG, PG, kk, case['gw'],
                                   kdtype=np.float32 if f32 else float, gorder=case.get('gorder', 'asc'))
        GlobalCache()['xsec_interpolation'] = case.get('mode', 'linear')
        GlobalCache()['opacity_method'] = 'ktables'
        KTableCache().set_ktable_path(d)
        KTableCache().clear_cache()
        tabs = k
    else:
        for mol, t in tabs.items():
            OpacityCache().add_opacity(fx.TinyOp(mol, grid_of(case, mol), TG, PG, t, case.get('mode', 'linear')))
    m = fx.build_model(spec_of(case))
    grid, spec, trans, _ = m.model()
    return m, np.asarray(grid, float), np.asarray(spec, float), np.asarray(trans, float), tabs


def case_fn(case):
    from taurex.util.scattering import rayleigh_sigma_from_name
    r = core.R(case)
    # single-precision k-table files are interpolated in single precision (the inputs' own precision): every comparison
    # of such a case is made at that precision
    SLK = 1e-5 if case.get('kdtype') == 'float32' else 1e-9
    r.rtol_floor = 1e-5 if case.get('kdtype') == 'float32' else 0.0
    gw = np.array(case['gw'])
    deg = case['spread'] == 1.0 or len(gw) == 1
    tag = '%s/%s' % (case['kind'], 'degenerate' if deg else 'spread')
    mk, gk, sk, tk, ktabs = run(case, True)
    r.eq(gk, WN, 'native-grid', 'grid/ktables', rtol=0)
    # the sources that are not molecular absorption know nothing of the opacity method: evaluated alone through the
    # per-source entry point they give what they give in cross-section mode (taken further down, after the switch)
    others_k = None
    if any(c_ != 'abs' for c_ in case['contribs']):
        try:
            _, cdk = mk.model_contrib()
            others_k = dict((n_, np.array(v_[0], float)) for n_, v_ in cdk.items() if n_ != 'Absorption')
        except Exception as e:
            r.check(False, 'no-exception', 'exception/%s/model_contrib/ktables' % type(e).__name__, exc=repr(e))
    comps_k = None
    if deg and 'abs' in case['contribs']:
        # the per-molecule components of the absorption source (taken now, in correlated-k mode; compared further down
        # with the same components in cross-section mode)
        try:
            comps_k = [(n_, np.array(f_, float)) for n_, f_, _, _ in mk.model_full_contrib()[1].get('Absorption', [])]
        except Exception as e:
            r.check(False, 'no-exception', 'exception/%s/model_full_contrib/ktables' % type(e).__name__, exc=repr(e))
    N = mk.nLayers
    wn = np.array(WN)
    T = np.asarray(mk.temperatureProfile, float)
    P = np.asarray(mk.pressureProfile, float)
    dens = np.asarray(mk.densityProfile, float)
    dz = np.asarray(mk.deltaz, float)
    # per-layer weighted k coefficients, reference
    sig_g = np.zeros((N, len(wn), len(gw)))
    for mol in mk.chemistry.activeGases:
        chi = np.asarray(mk.chemistry.get_gas_mix_profile(mol), float)
        for k in range(N):
            o = opac.interp_opacity(ktabs[mol], TG, PG, T[k], P[k], case.get('mode', 'linear'))
            gm = np.array(grid_of(case, mol))
            if len(gm) != len(wn) or np.any(gm != wn):
                o = np.array([np.interp(wn, gm, o[:, g]) for g in range(o.shape[1])]).T
            sig_g[k] += o * chi[k]
    sig_o = np.zeros((N, len(wn)))
    if 'ray' in case['contribs']:
        for g in list(mk.chemistry.activeGases) + list(mk.chemistry.inactiveGases):
            s = rayleigh_sigma_from_name(g, wn)
            if s is not None:
                sig_o += s[None, :] * np.asarray(mk.chemistry.get_gas_mix_profile(g), float)[:, None]
    if 'flat' in case['contribs']:
        sig_o += FLAT
    if case['kind'] == 'transmission':
        zb = np.asarray(mk.altitude_boundaries, float)
        Rp, Rs = mk.planet.fullRadius, mk.star.radius
        segs, b, outer = rt.chord_segments(case['path'], Rp, zb, dz)
        tau_g = rt.slant_tau(sig_g, dens, segs)
        tau_o = rt.slant_tau(sig_o, dens, segs)
        T_abs = rt.ck_transmittance(tau_g, gw)
        T_ref = T_abs * np.exp(-tau_o)
        with np.errstate(all='ignore'):
            tau_tot = -np.log(T_ref)
        r.check(bool(np.all(tk >= 0) and np.all(tk <= 1)), 'range-0-1', 'range/' + tag, got=tk)
        T_avg = np.exp(-np.sum(tau_g * gw, axis=-1) - tau_o)
        lic = np.array([tau_tot[l].min() > 10 for l in range(N)])
        r.check(bool(np.all(tk[~lic] >= T_avg[~lic] * (1 - SLK) - 1e-300)), 'jensen', 'jensen/' + tag)
        for l in range(N):
            if lic[l]:
                r.check(bool(np.all(tk[l] <= math.exp(-10) * (1 + SLK)) and np.all(tk[l] >= T_ref[l] * (1 - SLK) - 1e-300)),
                        'ck-transmittance-saturated', 'trans/saturated/' + tag, layer=l, got=tk[l], ref=T_ref[l])
            else:
                r.eq(tk[l], T_ref[l], 'ck-transmittance', 'trans/%s/%s' % (tag, case['mag']), layer=l, atol=1e-15)
        d_ref = rt.transit_depth(T_ref, Rp, Rs, zb[:-1], dz)
        T_lo = T_ref.copy()
        T_lo[lic] = math.exp(-10)
        d_lo = rt.transit_depth(T_lo, Rp, Rs, zb[:-1], dz)
        r.check(bool(np.all(sk <= d_ref * (1 + SLK)) and np.all(sk >= d_lo * (1 - SLK))), 'ck-depth',
                'depth/%s/%s' % (tag, case['mag']), got=sk, ref=d_ref)
        if np.any((T_ref > math.exp(-10)) & (T_ref < 1 - 1e-12)) and not deg:
            r.nontrivial = True
    else:
        mus, wts = rt.gauss_nodes(case['ngauss'])
        dtau_g = sig_g * (dens * dz)[:, None, None]
        dtau_o = sig_o * (dens * dz)[:, None]
        F, I, L = rt.emission(wn, T, dtau_o, mus, wts, dtau_g, gw)
        Rp, Rs = mk.planet.fullRadius, mk.star.radius
        if case['kind'] == 'emission':
            scale = (Rp / Rs) ** 2 / rt.planck_pi(wn, mk.star.temperature)
        else:
            scale = 0.5 * Rp ** 2 / (mk.star.distance * 3.08567758e16) ** 2
            if not np.all(np.abs(sk - F * scale) <= L * scale + SLK * F * scale):
                scale = 2 * scale       # prefactor convention 1 instead of 1/2 (see C02)
        r.check(bool(np.all(np.abs(sk - F * scale) <= L * scale + SLK * np.abs(F * scale))), 'ck-emission',
                'emission/%s/%s' % (tag, case['mag']), got=sk, want=F * scale, licence=L * scale)
        if not deg and np.any((dtau_g.min(axis=-1) > 1e-6) & (dtau_g.min(axis=-1) < 10)):
            r.nontrivial = True
    r.observe(sk)
    if others_k:
        mx_ = run(case, False)[0]
        _, cdx = mx_.model_contrib()
        for n_, fk in sorted(others_k.items()):
            if r.check(n_ in cdx, 'other-sources-alone', 'others/missing/' + n_):
                r.eq(fk, np.array(cdx[n_][0], float), 'other-sources-alone', 'others/%s/%s' % (case['kind'], n_), rtol=1e-9)
    if deg:
        mx, gx, sx, tx, _ = run(case, False)
        r.eq(gk, gx, 'same-grid', 'degenerate/grid', rtol=0)
        if comps_k is not None:
            comps_x = dict((n_, np.array(f_, float)) for n_, f_, _, _ in mx.model_full_contrib()[1].get('Absorption', []))
            r.check(sorted(n_ for n_, _ in comps_k) == sorted(comps_x), 'degenerate-equals-xsec', 'degenerate/component-names',
                    got=[n_ for n_, _ in comps_k], want=sorted(comps_x))
            for n_, fk in comps_k:
                if n_ in comps_x and case['kind'] == 'transmission':
                    r.eq(fk, comps_x[n_], 'degenerate-equals-xsec', 'degenerate/component/' + case['kind'], rtol=1e-9,
                         component=n_)
                elif n_ in comps_x:
                    r.check(bool(np.all(np.abs(fk - comps_x[n_]) <= 2 * L * scale + SLK * np.abs(comps_x[n_]))),
                            'degenerate-equals-xsec', 'degenerate/component/' + case['kind'], component=n_, got=fk,
                            want=comps_x[n_])
        if case['kind'] == 'transmission':
            r.eq(tk, tx, 'degenerate-equals-xsec', 'degenerate/trans/' + case['kind'], rtol=1e-12, atol=1e-14)
            r.eq(sk, sx, 'degenerate-equals-xsec', 'degenerate/spectrum/' + case['kind'], rtol=1e-13)
        else:
            # the emission clamp at tau>=10 is applied per opacity mode; both runs lie within the licence
            r.check(bool(np.all(np.abs(sk - sx) <= 2 * L * scale + SLK * np.abs(sx))), 'degenerate-equals-xsec',
                    'degenerate/spectrum/' + case['kind'], got=sk, want=sx, licence=L * scale)
        r.nontrivial = r.nontrivial or len(gw) > 1
    return r


# ---------------------------------------------------------------------------------------------
# large spectral grids in correlated-k mode (more points than any block a kernel might work in): degenerate k-tables
# against the same numbers as cross-sections at EVERY wavenumber, for all three model kinds
# ---------------------------------------------------------------------------------------------
def bigk_fn(case):
    from taurex.cache import OpacityCache, GlobalCache
    from taurex.cache.ktablecache import KTableCache
    import os
    r = core.R(case)
    nW, kind = case['nW'], case['kind']
    wn = np.linspace(600.0, 6000.0, nW)
    g = fx.rng('c20big', nW)
    tab = (10 ** g.uniform(-0.5, 0.5, size=(2, 2, nW))) * 1e-27 * 1e4
    gw = [0.3, 0.7]
    spec = {'kind': kind, 'N': 3, 'T': ['dec'], 'ngauss': 2, 'gases': [['H2O', ['const', 1e-4]]], 'contribs': ['abs', 'ray']}
    out = {}
    for ktab in (True, False):
        fx.reset_caches()
        if ktab:
            d = fx.fresh_dir('ktables_big')
            fx.write_pickle_ktable(os.path.join(d, 'H2O.pickle'), 'H2O', wn, fx.T_GRIDS[2], fx.P_GRIDS[2],
                                   tab[..., None] * np.ones(2)[None, None, None, :], gw)
            GlobalCache()['xsec_interpolation'] = 'linear'
            GlobalCache()['opacity_method'] = 'ktables'
            KTableCache().set_ktable_path(d)
            KTableCache().clear_cache()
        else:
            OpacityCache().add_opacity(fx.TinyOp('H2O', wn, fx.T_GRIDS[2], fx.P_GRIDS[2], tab))
        m = fx.build_model(spec)
        gr, sp_, tr, _ = m.model()
        out[ktab] = (np.asarray(gr, float), np.asarray(sp_, float))
    if r.check(out[True][0].shape == out[False][0].shape == (nW,), 'same-grid', 'bigk/grid-shape', got=out[True][0].shape):
        a, b = out[True][1], out[False][1]
        bad = np.nonzero(~np.isclose(a, b, rtol=1e-9, atol=0))[0]
        r.check(bad.size == 0, 'degenerate-equals-xsec', 'bigk/spectrum/%s' % kind, count=int(bad.size),
                first_bad_indices=bad[:6].tolist(), got=a[bad[:3]], want=b[bad[:3]])
    r.observe(out[True][1][::499])
    r.nontrivial = True
    return r


def band_fn(case):
    """A user-supplied source that is opaque at ONE wavenumber (tau = 30 at the first or at a middle point of the grid,
    nothing elsewhere), integrated before the molecular absorption: at every other wavenumber the correlated-k result is
    what it is without that source."""
    from taurex.contributions import Contribution
    r = core.R(case)
    c = dict((k, v[0]) for k, v in DIMS.items())
    c.update(kind='transmission', N=case['N'], spread=3.0, gw=GWS[0], contribs=['abs'], mag='tau1', path=case['path'])
    at = case['at']

    class BandDeck(Contribution):
        def __init__(self):
            super().__init__('BandDeck')

        @property
        def order(self):
            return 1

        def prepare_each(self, model, wngrid):
            self.sigma_xsec = np.zeros((model.nLayers, wngrid.shape[0]))
            self.sigma_xsec[:, at] = 30.0
            yield 'Band', self.sigma_xsec

        def contribute(self, model, start_layer, end_layer, density_offset, layer, density, tau, path_length=None):
            tau[layer] += self.sigma_xsec[layer]

    mk, gk, sk, tk, _ = run(c, True)
    base_t = np.array(tk, float)
    mk.add_contribution(BandDeck())
    mk.build()
    _, s2, t2, _ = mk.model()
    t2 = np.asarray(t2, float)
    others = [i for i in range(len(gk)) if i != at]
    r.eq(t2[:, others], base_t[:, others], 'other-wavenumbers-untouched', 'band/other-wavenumbers/%s' % case['path'],
         rtol=1e-9, atol=1e-15, at=at)
    r.check(bool(np.all(t2[:, at] <= math.exp(-30) * (1 + 1e-9) + 0 * base_t[:, at]) or
                 np.allclose(t2[:, at], base_t[:, at] * math.exp(-30), rtol=1e-9, atol=1e-300)),
            'band-opaque', 'band/band-itself', got=t2[:, at])
    r.observe(t2)
    r.nontrivial = bool(np.any((base_t > math.exp(-10)) & (base_t < 1 - 1e-9)))
    return r


# ---------------------------------------------------------------------------------------------
# history phase (correlated-k mode): one live model, sequences of parameter updates vs fresh model
# ---------------------------------------------------------------------------------------------
HIST_ALPHABET = [['T', 700.0], ['T', 1900.0], ['planet_radius', 0.7], ['planet_mass', 2.0], ['H2O', 1e-6],
                 ['H2O', 1e-2], ['CH4', 1e-3], ['He_H2', 0.6], ['atm_max_pressure', 1e5], ['atm_min_pressure', 1e1]]
# ['H2O', 1.5]: a mixing ratio above one - the model is rejected, and the history goes on from there
HIST_REDUCED = [['H2O', 1.5], ['T', 700.0], ['T', 1900.0], ['H2O', 1e-2], ['atm_max_pressure', 1e5]]


# the installed k-tables are replaced under a live model (another resolution / quadrature of the same line list):
# other weights with the same number of points, and another number of points
HIST_ENV = [['__env__', 'weights'], ['__env__', 'points']]
ENV_GW = {None: [0.2, 0.5, 0.3], 'weights': [0.6, 0.3, 0.1], 'points': [0.35, 0.65]}


def hist_env(case, which):
    hist_install(case, ENV_GW[which], 'ktables_' + which)


def hist_install(case, gw, dirname='ktables'):
    c = {'mag': 'tau1', 'gw': gw, 'spread': 3.0, 'grids': case['grids']}
    tabs = base_tables(c)
    k = dict((mol, t[..., None] * gmult(c)[None, None, None, :]) for mol, t in tabs.items())
    from taurex.cache import GlobalCache
    from taurex.cache.ktablecache import KTableCache
    import os
    d = fx.fresh_dir(dirname)
    for mol, kk in k.items():
        fx.write_pickle_ktable(os.path.join(d, '%s.pickle' % mol), mol, grid_of(c, mol), TG, PG, kk, c['gw'])
    GlobalCache()['xsec_interpolation'] = 'linear'
    GlobalCache()['opacity_method'] = 'ktables'
    KTableCache().set_ktable_path(d)
    KTableCache().clear_cache()


def hist_build(case, net=None):
    fx.reset_caches()
    c = {'mag': 'tau1', 'gw': [0.2, 0.5, 0.3], 'spread': 3.0, 'grids': case['grids']}
    tabs = base_tables(c)
    k = dict((mol, t[..., None] * gmult(c)[None, None, None, :]) for mol, t in tabs.items())
    from taurex.cache import GlobalCache
    from taurex.cache.ktablecache import KTableCache
    import os
    d = fx.fresh_dir('ktables')
    for mol, kk in k.items():
        fx.write_pickle_ktable(os.path.join(d, '%s.pickle' % mol), mol, grid_of(c, mol), TG, PG, kk, c['gw'])
    GlobalCache()['xsec_interpolation'] = 'linear'
    GlobalCache()['opacity_method'] = 'ktables'
    KTableCache().set_ktable_path(d)
    KTableCache().clear_cache()
    spec = {'kind': case['kind'], 'N': 3, 'T': ['iso', 1200.0], 'ngauss': 2,
                           'gases': [['H2O', ['const', 1e-4]], ['CH4', ['const', 3e-5]]], 'contribs': ['abs', 'ray']}
    if net is not None:
        spec, rest = rthist.spec_with_net(spec, net)
        return fx.build_model(spec), rest
    return fx.build_model(spec)


def hist_fn(case):
    r = core.R(case)
    rthist.run_history(r, case['hist'], lambda: hist_build(case), 'ktables/%s/%s' % (case['kind'], case['grids']),
                       env_apply=lambda which: hist_env(case, which), build_with=lambda net: hist_build(case, net),
                       as_numpy=bool(case.get('np')), entry=case.get('entry', 'model'))
    return r


def explore(ctx):
    if ctx.tier == 'quick':
        cases = core.product_cases(DIMS, core=['gw', 'spread', 'kind', 'mag'], d=2)
        ctx.bounds.update(deviations=2, core='gw x spread x kind x mag')
    else:
        cases = core.product_cases(DIMS, core=['gw', 'spread', 'kind', 'mag', 'N', 'T', 'contribs'], d=3)
        ctx.bounds.update(deviations=3, core='gw x spread x kind x mag x N x T x contribs')
    ctx.run_cases('case_fn', cases, phase='inputs')
    bk = [{'nW': nW, 'kind': kd} for nW in ((2500, 4097, 5000) if ctx.tier == 'quick' else (2049, 2500, 4096, 4097, 5000, 70001))
          for kd in ('transmission', 'emission', 'directimage')]
    ctx.run_cases('bigk_fn', bk, phase='large-grid')
    bd = [{'N': n_, 'path': pth, 'at': at_} for n_ in (2, 3, 5) for pth in ('old', 'new') for at_ in (0, 1, 3)]
    ctx.run_cases('band_fn', bd, phase='opaque-band')
    if ctx.tier == 'quick':
        hs = rthist.histories(HIST_ALPHABET, 2, HIST_REDUCED, 3)
        cfgs = [('transmission', 'same'), ('transmission', 'different')]
    else:
        hs = rthist.histories(HIST_ALPHABET, 3, HIST_REDUCED, 4)
        cfgs = [(k, g) for k in ('transmission', 'emission') for g in ('same', 'different')]
    hcases = [{'kind': k, 'grids': g, 'hist': h} for (k, g) in cfgs for h in hs]
    he = rthist.histories(HIST_ENV + HIST_REDUCED, 2 if ctx.tier == 'quick' else 3)
    hcases += [{'kind': k, 'grids': 'same', 'hist': h} for k in ('transmission', 'emission') for h in he
               if any(o[0] == '__env__' for o in h)]
    ctx.bounds.update(histories=len(hcases), history_depth=2 if ctx.tier == 'quick' else 3)
    # every single update once more with the value handed over as a numpy float64 scalar
    hcases += [dict(c_, np=True) for c_ in hcases if len(c_['hist']) == 1]
    # ... and with the first evaluation after the update going through model_full_contrib / model_contrib
    hcases += [dict(c_, entry=e_) for c_ in hcases if len(c_['hist']) == 1 and not c_.get('np') for e_ in ('full', 'contrib')]
    ctx.run_cases('hist_fn', hcases, phase='histories')
