"""C03 - optical depth composes additively over contributions and species."""
import itertools
import math
import numpy as np

from mc import core, fixtures as fx
from mc.ref import opac

ID = 'C03'
RULE = ('cases = full product of (insertion order of every subset of size <= 3 (thorough 4) of the 7 built-in '
        'contributions) x (call history: which of model / model_contrib / model_full_contrib runs first on the '
        'fresh model) plus <= 2 deviations over species set, abundances, layers, magnitude; each case checks the '
        'three product identities, order independence against the canonically ordered model, restoration of the '
        'contribution list, per-component weighted opacities against the reference, zero-abundance neutrality and '
        'store_contributions.  Non-trivial = >= 2 contributions or >= 2 components with a transmittance in '
        '(exp(-10), 1-1e-12).')
ASSUME = ['cross-section mode (the product identity over molecules does not hold for correlated-k by construction)',
          'small-scope hypothesis: <= 5 layers, 4 wavenumbers', 'numba/numpy trusted']

WN = fx.WN_GRIDS[4]
TG = fx.T_GRIDS[3]
PG = fx.P_GRIDS[3]
CIA_T = [100.0, 1000.0, 3500.0]
CONTRIBS = ['abs', 'cia', 'ray', 'clouds', 'flat', 'lee', 'hm']
MOLS = ['H2O', 'CH4', 'CO2']
MAGS = {'thin': (1e-31, None), 'tau1': (1e-27, None), 'mixed': (1.0, [1e-33, 1e-27, 1e-24, 1e-18]),
        # opaque at both ends of the wavenumber grid, a window in between (the cut-off between sources looks at every
        # wavenumber; a test of the two ends only would skip the later sources inside the window)
        'ends': (1.0, [1e-21, 1e-27, 1e-28, 1e-21])}


def orders(maxsize):
    out = [['abs', 'cia']]
    for k in range(1, maxsize + 1):
        for sub in itertools.combinations(CONTRIBS, k):
            for p in itertools.permutations(sub):
                if list(p) not in out:
                    out.append(list(p))
    return out


DIMS = {
    'order': None,      # filled in explore
    # order of the three evaluation entry points on the fresh model (all 6), and the same after a first evaluation
    # with other settings followed by a parameter update (upd-*)
    # (late-*): the last source is added to the already built and already evaluated model, without building again -
    # the sources then stand in the order they were added in, not in the order build() sorts them into
    'hist': ['mcf', 'cmf', 'fcm', 'mfc', 'cfm', 'fmc', 'upd-cfm', 'upd-fcm', 'upd-cmf', 'upd-mfc', 'late-mcf',
             'late-cfm', 'err-cfm', 'err-mcf'],
    'species': [['H2O', 'CH4', 'CO2'], ['H2O'], ['CH4'], ['CO2'], ['H2O', 'CO2'], ['CH4', 'CO2'], ['H2O', 'CH4']],
    'abund': [[1e-4, 3e-5, 1e-5], [0.0, 3e-5, 1e-5], [1e-4, 0.0, 1e-5], [1e-4, 3e-5, 0.0], [1e-6, 1e-6, 1e-6],
              [1e-3, 1e-3, 1e-3], [0.0, 0.0, 0.0]],
    'N': [3, 2, 5],
    'mag': ['tau1', 'thin', 'mixed'],
    # default letters are the collision-prone ones: adjacent layers at exactly equal temperature, abundances that
    # vary with altitude (squeezing the fill gases) and one species that is exactly zero in part of the atmosphere
    'T': [['steps'], ['dec'], ['iso', 1000.0], ['aba']],
    'shape': ['vary', 'const'],
    # how the collision pairs reach their source: constructor argument, appended one by one to the public list of a
    # default-constructed source, or assigned to it (the sources of the several models of a case live side by side)
    'ciavia': ['ctor', 'append', 'setter'],
    # correlated-k: the optical depths of different sources still add (only the molecules inside the absorption
    # source are combined per quadrature point), so everything except the per-molecule product is demanded
}
# (set per case, not a product dimension: every insertion order once in correlated-k mode)


def install(case):
    from taurex.cache import OpacityCache, CIACache
    mag, per = MAGS[case['mag']]
    tabs = {}
    for i, mol in enumerate(MOLS):       # tables exist for all three; "species" decides which gases are present
        tabs[mol] = fx.table(3, 3, 4, 1.0, salt=('c03', mol), pattern='generic', per_wn=per) * mag * (0.5 ** i)
        if case.get('opmode', 'xsec') == 'xsec':
            OpacityCache().add_opacity(fx.TinyOp(mol, WN, TG, PG, tabs[mol]))
    if case.get('opmode', 'xsec') == 'ktables':
        gm = np.array([0.3, 1.0, 3.0])
        fx.install_ktables(dict((mol, t[..., None] * gm[None, None, None, :]) for mol, t in tabs.items()),
                           [0.2, 0.5, 0.3], WN, TG, PG)
    cias = {}
    for j, pair in enumerate(['H2-H2', 'H2-He', 'H2-CH4']):
        cias[pair] = fx.rng('c03cia', pair).uniform(0.5, 1.5, size=(3, 4)) * 1e-55 * (10 ** j)
        CIACache().add_cia(fx.TinyCIA(pair, WN, CIA_T, cias[pair]))
    return tabs, cias


def contrib_spec(c, N, ciavia='ctor'):
    if c == 'cia':
        return ['cia', ['H2-H2', 'H2-He'], ciavia]
    if c == 'clouds':
        return ['clouds', 3e4]
    if c == 'flat':
        return ['flat', {'flat_mix_ratio': 1e-31, 'flat_topP': 1e1, 'flat_bottomP': 1e4}]
    if c == 'lee':
        return ['lee', {'lee_mie_mix_ratio': 1e-12, 'lee_mie_radius': 0.05, 'lee_mie_q': 40, 'lee_mie_topP': 1e0}]
    return c


def spec_of(case, order, drop=None, full_order=None):
    gases = []
    N = case['N']
    for mol, ab in zip(MOLS, case['abund']):
        if mol in case['species'] and mol != drop:
            if case.get('shape', 'const') == 'const' or ab == 0.0:
                gases.append([mol, ['const', ab]])
            elif mol == 'H2O':      # large at depth: squeezes the fill gases layer by layer
                gases.append([mol, ['array', [float(v) for v in np.geomspace(0.2, max(ab, 1e-7), N)]]])
            elif mol == 'CO2':      # exactly zero in the lower part of the atmosphere only
                gases.append([mol, ['array', [0.0] * (N // 2) + [ab] * (N - N // 2)]])
            else:
                gases.append([mol, ['array', [float(v) for v in np.geomspace(ab, ab * 1e-2, N)]]])
    if 'hm' in (full_order or order):
        gases += [['H', ['const', 1e-3]], ['e-', ['const', 1e-7]]]
    spec = {'kind': 'transmission', 'N': case['N'], 'T': case.get('T', ['dec']), 'gases': gases,
            'contribs': [contrib_spec(c, case['N'], case.get('ciavia', 'ctor')) for c in order]}

    if case.get('chem') == 'file-partial':
        # the same species from a tabulated composition that lists 60 % of the atmosphere only
        names = [m_ for m_ in MOLS if m_ in case['species'] and m_ != drop]
        vals = [ab for m_, ab in zip(MOLS, case['abund']) if m_ in case['species'] and m_ != drop]
        names += ['H2', 'He']
        vals += [0.5, 0.1]
        if 'hm' in (full_order or order):
            names += ['H', 'e-']
            vals += [1e-3, 1e-7]
        spec['chemfile'] = {'gases': names, 'values': vals}
    return spec


def satur(taus):
    """per layer: combined reference optical depth > 10 at every wavenumber"""
    return np.array([row.min() > 10 for row in taus])


def cmp_licensed(r, got, want_T, tau_ref, sub, sig, **kw):
    """got == want_T where the combined reference tau is not saturated, else both <= exp(-10)."""
    sat = satur(tau_ref)
    ok = True
    for l in range(len(sat)):
        if sat[l]:
            ok = ok and np.all(got[l] <= math.exp(-10) * (1 + 1e-9)) and np.all(got[l] >= want_T[l] * (1 - 1e-9) - 1e-300)
        else:
            ok = ok and core.close(got[l], want_T[l], 1e-9, 1e-15)
    return r.check(bool(ok), sub, sig, got=got, want=want_T, saturated=sat, **kw)


def case_fn(case):
    from taurex.util.scattering import rayleigh_sigma_from_name
    r = core.R(case)
    if case['hist'].startswith('err-'):
        case = dict(case, shape='const')        # the error round needs the plain 'H2O' parameter of a constant profile
    order = case['order']
    fx.reset_caches()
    tabs, cias = install(case)
    if case['hist'].startswith('late-'):
        m = fx.build_model(spec_of(case, order[:-1], full_order=order))
        m.model()
        m.add_contribution(fx.make_contrib(contrib_spec(order[-1], case['N'], case.get('ciavia', 'ctor'))))
    else:
        m = fx.build_model(spec_of(case, order))
    clist0 = list(m.contribution_list)
    names0 = [c.name for c in clist0]

    def same_list(where):
        r.check(len(m.contribution_list) == len(clist0) and all(a is b for a, b in zip(m.contribution_list, clist0)),
                'contribution-list-restored', 'restore/' + where, now=[c.name for c in m.contribution_list], was=names0)

    res = {}
    isk = case.get('opmode', 'xsec') == 'ktables'
    hist = case['hist']
    if hist.startswith('late-'):
        hist = hist[5:]
    if hist.startswith('err-'):
        # a first round with a mixing ratio above one: every entry point refuses the model; then the value every
        # reference below assumes is written back and nothing of the refusals may survive in what follows
        hist = hist[4:]
        back = m['H2O'] if 'H2O' in m.fittingParameters else None
        if back is not None:
            m['H2O'] = 1.5
            for call_ in (m.model_contrib, m.model_full_contrib, m.model):
                try:
                    call_()
                    r.check(False, 'no-exception', 'error-round/accepted-above-unity/%s' % call_.__name__)
                except Exception:
                    pass
            m['H2O'] = back
            same_list('error-round')
    if hist.startswith('upd-'):
        # a first evaluation with a different fill ratio and planet mass, then the update to the settings every
        # reference below assumes; nothing of the first evaluation may survive in what follows
        hist = hist[4:]
        m['He_H2'] = 0.9
        m['planet_mass'] = 2.5
        m.model()
        m['He_H2'] = 0.17
        m['planet_mass'] = 1.0
    calls = [{'m': 'model', 'c': 'contrib', 'f': 'full'}[ch] for ch in hist]
    for call in calls:
        try:
            if call == 'model':
                g, d, t, _ = m.model()
                res['model'] = (np.array(g, float), np.array(d, float), np.array(t, float))
            elif call == 'contrib':
                g, cd = m.model_contrib()
                res['contrib'] = dict((k, (np.array(v[0], float), np.array(v[1], float))) for k, v in cd.items())
            else:
                g, fd = m.model_full_contrib()
                res['full'] = dict((k, [(n, np.array(a, float), np.array(t, float)) for n, a, t, _ in v])
                                   for k, v in fd.items())
        except Exception as e:
            import traceback
            tb = traceback.extract_tb(e.__traceback__)[-1]
            r.check(False, 'no-exception', 'exception/%s/%s-as-call-%d/%s' % (
                type(e).__name__, call, calls.index(call), tb.name), exc=repr(e), first_call=calls[0])
            return r
        same_list(call)
    # the three entry points given the same request and the same cut-off flag work on the same grid (else their
    # results cannot be composed), whatever the flag
    req_ = np.array(WN[1:3])
    for cut_ in (True, False):
        try:
            ga = np.asarray(m.model(wngrid=req_, cutoff_grid=cut_)[0], float)
            gb = np.asarray(m.model_contrib(wngrid=req_, cutoff_grid=cut_)[0], float)
            gc_, fdd = m.model_full_contrib(wngrid=req_, cutoff_grid=cut_)
            gc_ = np.asarray(gc_, float)
            shp = [np.asarray(x[1]).shape for v_ in fdd.values() for x in v_]
            r.check(ga.shape == gb.shape == gc_.shape and bool(np.all(ga == gb) and np.all(ga == gc_)) and
                    all(sh == ga.shape for sh in shp), 'entry-points-same-grid', 'entry-grid/cutoff=%s' % cut_,
                    model=ga, contrib=gb, full=gc_, component_shapes=shp)
        except Exception as e:
            r.check(False, 'no-exception', 'exception/%s/entry-grid/cutoff=%s' % (type(e).__name__, cut_), exc=repr(e))
    same_list('requests')
    g2, d2, t2, _ = m.model()
    r.eq(np.array(t2, float), res['model'][2], 'model-repeatable-after-contrib-calls', 'repeat/trans', rtol=0, atol=0)
    r.eq(np.array(d2, float), res['model'][1], 'model-repeatable-after-contrib-calls', 'repeat/depth', rtol=0, atol=0)
    T_model = res['model'][2]
    # (i) product over contributions
    with np.errstate(all='ignore'):
        T_c = dict((k, v[1]) for k, v in res['contrib'].items())
        tau_c = dict((k, -np.log(v)) for k, v in T_c.items())
    r.check(sorted(T_c) == sorted(names0), 'contrib-names', 'names/contrib', got=sorted(T_c), want=sorted(names0))
    if T_c:
        prod = np.prod([T_c[k] for k in T_c], axis=0)
        tau_sum = np.sum([tau_c[k] for k in tau_c], axis=0)
    else:
        prod = np.ones_like(T_model)
        tau_sum = np.zeros_like(T_model)
    cmp_licensed(r, T_model, prod, tau_sum, 'product-over-contributions', 'product/contributions')
    # (ii) product over components
    ncomp = 0
    for k in T_c:
        comps = res['full'].get(k)
        if not r.check(comps is not None, 'full-contrib-names', 'names/full', missing=k):
            continue
        ncomp += len(comps)
        pc = np.prod([t for _, _, t in comps], axis=0) if comps else np.ones_like(T_model)
        if isk and k == 'Absorption' and len(comps) > 1:
            continue
        r.eq(T_c[k], pc, 'product-over-components', 'product/components/' + k, atol=1e-15,
             components=[n for n, _, _ in comps])
    # (iii) insertion-order independence: canonical (sorted) insertion order
    canon = sorted(order, key=CONTRIBS.index)
    if canon != order:
        fx.reset_caches()
        install(case)
        mc_ = fx.build_model(spec_of(case, canon))
        _, dc, tc, _ = mc_.model()
        cmp_licensed(r, T_model, np.minimum(np.array(tc, float), prod) if False else prod, tau_sum,
                     'order-independence-ref', 'order/ref')
        cmp_licensed(r, np.array(tc, float), prod, tau_sum, 'order-independence', 'order/canonical-vs-product')
        sat = satur(tau_sum)
        r.eq(T_model[~sat], np.array(tc, float)[~sat], 'order-independence', 'order/direct', atol=1e-15)
    # (v) component weighted opacities against the reference
    fx.reset_caches()
    tabs, cias = install(case)
    mv = fx.build_model(spec_of(case, order))
    mv.model()
    grid = np.array(WN)
    T = np.asarray(mv.temperatureProfile, float)
    P = np.asarray(mv.pressureProfile, float)
    N = mv.nLayers
    from mc.ref import rt
    dens = np.asarray(mv.densityProfile, float)
    segs, _, _ = rt.chord_segments('old', mv.planet.fullRadius, np.asarray(mv.altitude_boundaries, float),
                                   np.asarray(mv.deltaz, float))
    for c in mv.contribution_list:
        nm = type(c).__name__
        if nm == 'HydrogenIon':
            # weighted opacity = (a function of wavelength and temperature) x pressure x H x e- layer by layer: divided
            # by its weights it is the same in any two layers at the same temperature, and nowhere zero where the
            # weights are not
            comps = [(n_, np.array(s_, float)) for n_, s_ in c.prepare_each(mv, grid)]
            if r.check(len(comps) == 1 and comps[0][1].shape == (N, len(grid)), 'component-weighted-opacity',
                       'component/HydrogenIon/shape'):
                wgt = P * np.asarray(mv.chemistry.get_gas_mix_profile('H'), float) * \
                    np.asarray(mv.chemistry.get_gas_mix_profile('e-'), float)
                kk = comps[0][1] / wgt[:, None]
                r.check(bool(np.all(np.isfinite(kk)) and np.all(kk.max(axis=1) > 0)), 'component-weighted-opacity',
                        'component/HydrogenIon/zero-layer', got=kk.max(axis=1), T=T)
                for a_ in range(N):
                    for b_ in range(a_ + 1, N):
                        if T[a_] == T[b_]:
                            r.eq(kk[a_], kk[b_], 'component-weighted-opacity', 'component/HydrogenIon/same-temperature',
                                 rtol=1e-12, layers=[a_, b_], T=T)
            continue
        if nm not in ('AbsorptionContribution', 'CIAContribution', 'RayleighContribution'):
            continue
        if isk and nm == 'AbsorptionContribution':
            continue            # per-point coefficients: C20 decides them
        seen = []
        total = np.zeros((N, len(grid)))
        for name, sig in c.prepare_each(mv, grid):
            sig = np.array(sig, float)          # copy: buffers are reused between components
            seen.append(name)
            if nm == 'AbsorptionContribution':
                chi = np.asarray(mv.chemistry.get_gas_mix_profile(name), float)
                ref = np.array([opac.interp_opacity(tabs[name], TG, PG, T[k], P[k]) * chi[k] for k in range(N)])
            elif nm == 'CIAContribution':
                a, b = name.split('-')
                chi = np.asarray(mv.chemistry.get_gas_mix_profile(a), float) * \
                    np.asarray(mv.chemistry.get_gas_mix_profile(b), float)
                ref = np.array([fx.cia_ref(cias[name], CIA_T, T[k]) * chi[k] for k in range(N)])
            else:
                chi = np.asarray(mv.chemistry.get_gas_mix_profile(name), float)
                ref = rayleigh_sigma_from_name(name, grid)[None, :] * chi[:, None]
            r.eq(sig, ref, 'component-weighted-opacity', 'component/' + nm, component=name, atol=1e-300)
        # the components a source must have, decided independently of what it yielded
        if nm == 'AbsorptionContribution':
            expected = list(mv.chemistry.activeGases)
        elif nm == 'CIAContribution':
            expected = ['H2-H2', 'H2-He']
        else:
            expected = [g for g in list(mv.chemistry.activeGases) + list(mv.chemistry.inactiveGases)
                        if rayleigh_sigma_from_name(g, grid) is not None and
                        np.max(np.asarray(mv.chemistry.get_gas_mix_profile(g), float)) > 0]
        r.check(sorted(seen) == sorted(expected), 'component-set', 'component-set/' + nm, got=sorted(seen),
                want=sorted(expected))
        for name in expected:
            if nm == 'AbsorptionContribution':
                chi = np.asarray(mv.chemistry.get_gas_mix_profile(name), float)
                total += np.array([opac.interp_opacity(tabs[name], TG, PG, T[k], P[k]) * chi[k] for k in range(N)])
            elif nm == 'CIAContribution':
                a, b = name.split('-')
                chi = np.asarray(mv.chemistry.get_gas_mix_profile(a), float) * \
                    np.asarray(mv.chemistry.get_gas_mix_profile(b), float)
                total += np.array([fx.cia_ref(cias[name], CIA_T, T[k]) * chi[k] for k in range(N)])
            else:
                chi = np.asarray(mv.chemistry.get_gas_mix_profile(name), float)
                total += rayleigh_sigma_from_name(name, grid)[None, :] * chi[:, None]
        # the source alone: slant optical depth with density (squared for collision pairs)
        if c.name in T_c:
            tau_alone = rt.slant_tau(total, dens, segs, 2 if nm == 'CIAContribution' else 1)
            r.eq(T_c[c.name], np.exp(-tau_alone), 'source-alone-transmittance', 'alone/' + nm, atol=1e-15)
        if nm == 'AbsorptionContribution':
            r.check(sorted(seen) == sorted(mv.chemistry.activeGases), 'components-are-active-gases',
                    'component/names', got=seen, want=list(mv.chemistry.activeGases))
    # (vi) zero abundance changes nothing
    for mol, ab in zip(MOLS, case['abund']):
        if mol in case['species'] and ab == 0.0 and len(case['species']) > 1:
            fx.reset_caches()
            install(case)
            mz = fx.build_model(spec_of(case, order, drop=mol))
            _, dz_, tz, _ = mz.model()
            tz = np.array(tz, float)
            # (a layer that is beyond tau = 10 in both runs is within the licensed cut-off in both: the comparison model
            # is built in one go, so a late-added source may stand at another place in its list)
            lic_ = (T_model <= math.exp(-10) * (1 + 1e-9)) & (tz <= math.exp(-10) * (1 + 1e-9))
            r.eq(np.where(lic_, 0.0, T_model), np.where(lic_, 0.0, tz), 'zero-abundance-neutral', 'zero-abundance',
                 atol=1e-15, rtol=1e-12, species=mol)
    # (vii) store_contributions
    if case['hist'] == 'mcf':
        from taurex.util.output import store_contributions
        from taurex.binning import FluxBinner
        binner = FluxBinner(np.array([1400.0, 3100.0]), np.array([1000.0, 2000.0]))
        grid_ = res['model'][0]
        sc = store_contributions(binner, m)
        for k in T_c:
            ok = k in sc and core.close(sc[k]['native_spectrum'], res['contrib'][k][0], 1e-12) and \
                core.close(sc[k]['binned_spectrum'], binner.bindown(grid_, res['contrib'][k][0])[1], 1e-12) and \
                core.close(sc[k]['native_tau'], T_c[k], 1e-12, 1e-15)
            r.check(bool(ok), 'store-contributions', 'store/contribution', name=k)
            for n, a, t in res['full'].get(k, []):
                ok = k in sc and n in sc[k] and core.close(sc[k][n]['native_spectrum'], a, 1e-12) and \
                    core.close(sc[k][n]['binned_spectrum'], binner.bindown(grid_, a)[1], 1e-12)
                r.check(bool(ok), 'store-contributions', 'store/component', name=k, component=n)
        same_list('store')
    inter = (T_model > math.exp(-10)) & (T_model < 1 - 1e-12)
    r.nontrivial = bool(inter.any() and (len(order) > 1 or ncomp > 1))
    r.observe(T_model, res['model'][1])
    return r


# two sources of the same built-in kind with different settings in one model (a deep and a high haze, two decks):
# add_contribution accepts them, so the model is the product of the models holding each one alone, in either order
TWINS = {'lee': (['lee', {'lee_mie_mix_ratio': 1e-12, 'lee_mie_radius': 0.05, 'lee_mie_q': 40, 'lee_mie_topP': 1e0}],
                 ['lee', {'lee_mie_mix_ratio': 3e-11, 'lee_mie_radius': 0.2, 'lee_mie_q': 25, 'lee_mie_bottomP': 1e1}]),
         'flat': (['flat', {'flat_mix_ratio': 1e-31, 'flat_topP': 1e1, 'flat_bottomP': 1e4}],
                  ['flat', {'flat_mix_ratio': 4e-31, 'flat_topP': 1e-1, 'flat_bottomP': 1e1}]),
         'clouds': (['clouds', 3e4], ['clouds', 2e2]),
         'cia': (['cia', ['H2-H2']], ['cia', ['H2-He']])}


def twin_fn(case):
    r = core.R(case)
    kind, rev, others = case['kind'], case['rev'], case['others']
    base = dict((k, v[0]) for k, v in DIMS.items() if k != 'order')
    base.update(N=case['N'], mag=case['mag'])

    def trans(contribs):
        fx.reset_caches()
        install(base)
        sp = spec_of(base, [c_ for c_ in others])
        sp['contribs'] = [contrib_spec(c_, base['N']) for c_ in others if c_ not in ('A', 'B')]
        out = []
        for c_ in contribs:
            out.append(TWINS[kind][0] if c_ == 'A' else TWINS[kind][1] if c_ == 'B' else contrib_spec(c_, base['N']))
        sp['contribs'] = out
        m = fx.build_model(sp)
        _, d, t, _ = m.model()
        return np.array(d, float), np.array(t, float)

    pair = ['B', 'A'] if rev else ['A', 'B']
    full = list(others) + pair if case['first'] == 'others' else pair + list(others)
    d_full, T_full = trans(full)
    parts = [trans([c_])[1] for c_ in full]
    prod = np.prod(parts, axis=0)
    with np.errstate(all='ignore'):
        tau_sum = np.sum([-np.log(p_) for p_ in parts], axis=0)
    sig = '%s/%s' % (kind, '+'.join(others) if others else 'alone')
    cmp_licensed(r, T_full, prod, tau_sum, 'product-over-contributions', 'twins/product/' + sig)
    d_other, T_other = trans(list(reversed(full)))
    sat = satur(tau_sum)
    r.eq(T_full[~sat], T_other[~sat], 'order-independence', 'twins/order/' + sig, atol=1e-15)
    differ = not np.allclose(parts[full.index('A')], parts[full.index('B')])
    r.nontrivial = bool(differ and np.any((prod > math.exp(-10)) & (prod < 1 - 1e-9)))
    r.observe(T_full)
    return r



def ciaactive_fn(case):
    """A collision pair one partner of which is an absorbing (cross-section carrying) gas of the atmosphere: it is a
    component like any other - present, weighted by both partners' mixing ratios, part of the product."""
    r = core.R(case)
    base = dict((k, v[0]) for k, v in DIMS.items() if k != 'order')
    base.update(N=case['N'], mag=case['mag'], shape='const', abund=[1e-4, case['ch4'], 1e-5])
    fx.reset_caches()
    tabs, cias = install(base)
    sp = spec_of(base, case['order'])
    for c_ in sp['contribs']:
        if isinstance(c_, list) and c_[0] == 'cia':
            c_[1] = ['H2-H2', 'H2-CH4', 'H2-He']
    m = fx.build_model(sp)
    _, d, t, _ = m.model()
    _, cd = m.model_contrib()
    _, fd = m.model_full_contrib()
    comps = fd.get('CIA', [])
    names = [c_[0] for c_ in comps]
    r.check(sorted(names) == ['H2-CH4', 'H2-H2', 'H2-He'], 'component-set', 'cia-active-partner/component-set', got=names)
    T = np.asarray(m.temperatureProfile, float)
    N = m.nLayers
    cia_src = [c_ for c_ in m.contribution_list if type(c_).__name__ == 'CIAContribution'][0]
    for name, sig in cia_src.prepare_each(m, np.array(WN)):
        sig = np.array(sig, float)
        a, b = name.split('-')
        chi = np.asarray(m.chemistry.get_gas_mix_profile(a), float) * np.asarray(m.chemistry.get_gas_mix_profile(b), float)
        ref = np.array([fx.cia_ref(cias[name], CIA_T, T[k]) * chi[k] for k in range(N)])
        r.eq(sig, ref, 'component-weighted-opacity', 'cia-active-partner/component', component=name, atol=1e-300)
    if comps and 'CIA' in cd:
        r.eq(np.asarray(cd['CIA'][1], float), np.prod([np.asarray(c_[2], float) for c_ in comps], axis=0),
             'product-over-components', 'cia-active-partner/product', atol=1e-15)
    r.observe(np.asarray(t, float))
    r.nontrivial = True
    return r



def rayorder_fn(case):
    """Scattering components next to gases that have no scattering law of their own (TiO, Na): each component is its own
    species' cross-section weighted by its own mixing ratio, wherever the law-less gases stand in the gas list."""
    from taurex.util.scattering import rayleigh_sigma_from_name
    from taurex.cache import OpacityCache
    r = core.R(case)
    fx.reset_caches()
    base = dict((k, v[0]) for k, v in DIMS.items() if k != 'order')
    base.update(N=3, mag='tau1')
    tabs, cias = install(base)
    for mol in ('TiO', 'Na'):
        OpacityCache().add_opacity(fx.TinyOp(mol, WN, TG, PG, fx.table(3, 3, 4, 1e-27, salt=('c03', mol))))
    gases = [[g_, ['const', ab]] for g_, ab in zip(case['gases'], (2e-6, 1e-4, 3e-5, 5e-6))]
    m = fx.build_model({'kind': 'transmission', 'N': 3, 'T': ['dec'], 'gases': gases, 'contribs': ['abs', 'ray']})
    m.model()
    ray = [c_ for c_ in m.contribution_list if type(c_).__name__ == 'RayleighContribution'][0]
    seen = []
    for name, sig in ray.prepare_each(m, np.array(WN)):
        sig = np.array(sig, float)
        seen.append(name)
        law = rayleigh_sigma_from_name(name, np.array(WN))
        if not r.check(law is not None, 'component-set', 'rayleigh-order/component-without-law', name=name):
            continue
        chi = np.asarray(m.chemistry.get_gas_mix_profile(name), float)
        r.eq(sig, law[None, :] * chi[:, None], 'component-weighted-opacity', 'rayleigh-order/component', component=name,
             gases=case['gases'], atol=1e-300)
    want = [g_ for g_ in list(m.chemistry.activeGases) + list(m.chemistry.inactiveGases)
            if rayleigh_sigma_from_name(g_, np.array(WN)) is not None]
    r.check(sorted(seen) == sorted(want), 'component-set', 'rayleigh-order/component-set', got=seen, want=want)
    r.observe(seen)
    r.nontrivial = True
    return r



def explore(ctx):
    import json
    dims = dict(DIMS)
    quick = ctx.tier == 'quick'
    dims['order'] = orders(3 if quick else 4)
    small = dict(DIMS)
    small['order'] = orders(2)
    if quick:
        cases = core.product_cases(dims, core=['order', 'hist'], d=1) + core.product_cases(small, d=2)
    else:
        cases = core.product_cases(dims, core=['order', 'hist'], d=1) + \
            core.product_cases(small, core=['order', 'hist', 'mag', 'species'], d=3)
    base = dict((k, v[0]) for k, v in DIMS.items() if k != 'order')
    cases += [dict(base, order=o, opmode='ktables', hist=h) for o in dims['order'] for h in ('mcf', 'late-cfm')]
    cases += [dict(base, order=o, mag='ends', hist=h) for o in dims['order'] for h in ('mcf', 'cfm')]
    cases += [dict(base, order=o, chem='file-partial', hist=h, abund=ab) for o in orders(2) for h in ('mcf', 'fcm')
              for ab in (DIMS['abund'][0], DIMS['abund'][1])]
    seen, out = set(), []
    for c in cases:
        k = json.dumps(c, sort_keys=True)
        if k not in seen:
            seen.add(k)
            out.append(c)
    ctx.bounds.update(orders=len(dims['order']), max_contributions=3 if quick else 4,
                      deviations='1 over all orders; %d over orders of <= 2 contributions' % (2 if quick else 3))
    ctx.run_cases('case_fn', out)
    tw = [{'kind': k_, 'rev': rv, 'others': oth, 'first': fs, 'N': n_, 'mag': mg} for k_ in TWINS for rv in (False, True)
          for oth in ([], ['abs'], ['abs', 'ray']) for fs in ('others', 'pair') for n_ in (3, 5)
          for mg in ('tau1', 'thin') if not (fs == 'pair' and not oth)]
    ctx.run_cases('twin_fn', tw, phase='two-of-a-kind')
    ca = [{'N': n_, 'mag': mg, 'ch4': ab, 'order': od} for n_ in (3, 5) for mg in ('tau1', 'thin') for ab in (3e-5, 1e-2, 0.0)
          for od in (['abs', 'cia'], ['cia'], ['cia', 'abs', 'ray'])]
    ctx.run_cases('ciaactive_fn', ca, phase='cia-active-partner')
    ro = [{'gases': list(p_)} for p_ in itertools.permutations(['TiO', 'H2O', 'CH4', 'Na'])]
    ctx.run_cases('rayorder_fn', ro, phase='rayleigh-order')
