"""C01 - transmission spectrum equals the documented transit-depth integral (DESIGN 4, C01).

Engine E1 over tiny atmospheres; oracle = mc.ref.rt (explicit chord geometry, own opacity
interpolation, the documented depth integral) with the tau>10 licence of DESIGN 2.8.
"""
import itertools
import math
import numpy as np

from mc import core, fixtures as fx, rthist
from mc.ref import rt, opac

ID = 'C01'
RULE = ('two phases.  histories: one live model, every sequence of parameter updates (23 letters over 12 fitted / '
        'star parameters) up to depth 2 (thorough 3), depth 3 (4) over a 7-letter sub-alphabet, evaluated after every '
        'update and compared with a fresh model holding the net settings.  inputs: cases = full product of the core dimensions (layers x opacity magnitude x contribution subset x '
        'path method) plus every case with <= 2 deviations from the default letter over all 10 dimensions '
        '(thorough: <= 3 deviations and the full product of 7 dimensions); each case builds a fresh '
        'TransmissionModel, runs model() at cross-section scale 1 and 3, and compares transmittance, '
        'depth, geometry and the four stated consequences with the reference.  Non-trivial = at least one '
        'layer with reference transmittance strictly between exp(-10) and 1-1e-12.')
ASSUME = ['small-scope hypothesis: layers<=7, 4 wavenumbers, tables 3x3', 'numba/numpy trusted',
          'density, altitude and mixing-ratio profiles are read from the model (decided by C10/C11)',
          'Rayleigh per-molecule cross-section and Lee-Mie weighted opacity are read as data (decided by C03/C19)']

WN = fx.WN_GRIDS[4]
TG = fx.T_GRIDS[3]
PG = fx.P_GRIDS[3]
CIA_T = [100.0, 1000.0, 3500.0]

DIMS = {
    'N': [3, 2, 4, 5, 7],
    'mag': ['thin', 'zero', 'tau1', 'mixed', 'sat'],
    'contribs': [list(c) for k in range(0, 6) for c in itertools.combinations(['abs', 'cia', 'ray', 'lee', 'flat'], k)],
    'path': ['old', 'new'],
    'prange': [[1e6, 1e-1], [1e5, 1e1], [1e7, 1e-4]],
    'planet': [[1.0, 1.0], [0.5, 0.1], [1.7, 3.0]],
    # (0.05 solar radii: a white dwarf - a giant planet is larger than its star, the documented ratio exceeds one)
    'rstar': [1.0, 0.3, 0.05],
    'log': ['quiet', 'debug'],
    # the last one: the deepest layers are hotter than the collision-induced-absorption tables reach (no CIA opacity
    # there, by the documented rule for CIA objects), the layers above are inside
    'T': [['iso', 1000.0], ['dec'], ['inc'], ['nonmono'], ['outside'], ['array', [800.0, 2000.0, 3700.0, 4200.0]]],
    # the last two: exactly absent in the lower layers and present aloft; present below and aloft with a gap between
    'abund': [['const', 1e-4], ['array', [1e-3, 1e-6]], ['const', 0.0], ['array', [1e-12, 1e-12, 3e-2, 3e-2]],
              ['array', [0.0, 0.0, 3e-3, 3e-3]], ['array', [1e-3, 0.0, 0.0, 1e-3]]],
    'mode': ['linear', 'exp'],
    # type of the wavenumber axis of the opacity tables (it becomes the model's native grid): float64 or an integer
    # np.arange axis (a float32 axis makes the unchanged code evaluate the scattering laws in single precision, 1e-5
    # away from the reference: a precision question the statement does not settle, so it is not a letter)
    'wndtype': ['float64', 'int64'],
}
# 'abs' first in default so that the default case is non-trivial
DIMS['contribs'].remove(['abs'])
DIMS['contribs'].insert(0, ['abs'])

DIMS_DEFAULT = dict((k, v[0]) for k, v in DIMS.items())
MAGS = {'zero': (0.0, None), 'thin': (1e-33, None), 'tau1': (1e-27, None),
        'mixed': (1.0, [1e-33, 1e-27, 1e-23, 1e-18]), 'sat': (1e-18, None)}


def tables(case, scale):
    mag, per = MAGS[case['mag']]
    out = {}
    for mol, f in (('H2O', 1.0), ('CH4', 0.37)):
        t = fx.table(3, 3, 4, 1.0, salt=('c01', mol), pattern='generic', per_wn=per)
        out[mol] = t * mag * f * scale
    cia = fx.rng('c01cia').uniform(0.5, 1.5, size=(3, 4)) * 1e-55 * (1e6 if case['mag'] in ('sat', 'mixed') else 1.0)
    if case['mag'] == 'zero':
        cia = cia * 0.0
    return out, cia * scale


def install(case, scale):
    from taurex.cache import OpacityCache, CIACache
    tabs, cia = tables(case, scale)
    if case['mode'] == 'exp' and case['mag'] == 'zero':
        pass
    for mol, t in tabs.items():
        wd = case.get('wndtype', 'float64')
        OpacityCache().add_opacity(fx.TinyOp(mol, WN if wd == 'float64' else np.array(WN).astype(wd), TG, PG, t,
                                             case['mode'], keep_dtype=wd != 'float64'))
    CIACache().add_cia(fx.TinyCIA('H2-He', WN, CIA_T, cia))
    CIACache().add_cia(fx.TinyCIA('H2-H2', WN, CIA_T, cia[::-1, ::-1] * 0.3))
    return tabs, cia


def spec_of(case, scale):
    contribs = []
    for c in case['contribs']:
        if c == 'cia':
            contribs.append(['cia', ['H2-H2', 'H2-He']])
        elif c == 'lee':
            mix = 0.0 if case['mag'] == 'zero' else {'thin': 1e-16, 'tau1': 1e-10, 'mixed': 1e-10, 'sat': 1e-2}[case['mag']]
            contribs.append(['lee', {'lee_mie_mix_ratio': mix * scale, 'lee_mie_radius': 0.05, 'lee_mie_q': 40}])
        elif c == 'flat':
            mix = 0.0 if case['mag'] == 'zero' else {'thin': 1e-36, 'tau1': 1e-30, 'mixed': 1e-30, 'sat': 1e-20}[case['mag']]
            contribs.append(['flat', {'flat_mix_ratio': mix * scale, 'flat_topP': 3e0, 'flat_bottomP': 2e4}])
        else:
            contribs.append(c)
    gases = [['H2O', case['abund']], ['CH4', ['const', 3e-5]]]
    return {'kind': 'transmission', 'N': case['N'], 'prange': case['prange'], 'planet': case['planet'],
            'star': [case['rstar'], 5000.0], 'T': case['T'], 'gases': gases, 'contribs': contribs,
            'path': case['path']}


def reference(m, case, tabs, cia):
    """Reference slant optical depth per tangent layer, from the model's public profiles."""
    from taurex.util.scattering import rayleigh_sigma_from_name
    N = m.nLayers
    T = np.asarray(m.temperatureProfile, float)
    P = np.asarray(m.pressureProfile, float)
    dens = np.asarray(m.densityProfile, float)
    zb = np.asarray(m.altitude_boundaries, float)
    dz = np.asarray(m.deltaz, float)
    Rp = m.planet.fullRadius
    segs, b, outer = rt.chord_segments(case['path'], Rp, zb, dz)
    wn = np.array(WN)
    # contributions in the model's computation order
    taus = []
    for c in m.contribution_list:
        nm = type(c).__name__
        if nm == 'AbsorptionContribution':
            sig = np.zeros((N, len(wn)))
            for mol in m.chemistry.activeGases:
                chi = np.asarray(m.chemistry.get_gas_mix_profile(mol), float)
                for k in range(N):
                    sig[k] += opac.interp_opacity(tabs[mol], TG, PG, T[k], P[k], case['mode']) * chi[k]
            taus.append(rt.slant_tau(sig, dens, segs, 1))
        elif nm == 'CIAContribution':
            chi = np.asarray(m.chemistry.get_gas_mix_profile('H2'), float) * \
                np.asarray(m.chemistry.get_gas_mix_profile('He'), float)
            sig = np.array([fx.cia_ref(cia, CIA_T, T[k]) * chi[k] for k in range(N)])
            chi2 = np.asarray(m.chemistry.get_gas_mix_profile('H2'), float) ** 2
            sig = sig + np.array([fx.cia_ref(cia[::-1, ::-1] * 0.3, CIA_T, T[k]) * chi2[k] for k in range(N)])
            taus.append(rt.slant_tau(sig, dens, segs, 2))
        elif nm == 'RayleighContribution':
            sig = np.zeros((N, len(wn)))
            for g in list(m.chemistry.activeGases) + list(m.chemistry.inactiveGases):
                s = rayleigh_sigma_from_name(g, wn)
                if s is not None:
                    sig += s[None, :] * np.asarray(m.chemistry.get_gas_mix_profile(g), float)[:, None]
            taus.append(rt.slant_tau(sig, dens, segs, 1))
        elif nm in ('LeeMieContribution', 'FlatMieContribution'):
            taus.append(rt.slant_tau(np.asarray(c.sigma_xsec, float), dens, segs, 1))
        elif nm == 'GreyDeck':
            pass        # the user-supplied source of the licence-boundary phase is added by its caller
        else:
            raise RuntimeError(nm)
    tau = np.sum(taus, axis=0) if taus else np.zeros((N, len(wn)))
    return tau, segs, b, outer, zb, dz, Rp


def one_run(r, case, scale, tag):
    fx.reset_caches()
    tabs, cia = install(case, scale)
    m = fx.build_model(spec_of(case, scale))
    if case.get('log') == 'debug':
        with fx.debug_logging():        # the run as under `taurex -g`: what is computed does not depend on what is logged
            grid, depth, trans, _ = m.model()
    else:
        grid, depth, trans, _ = m.model()
    tau_ref, segs, b, outer, zb, dz, Rp = reference(m, case, tabs, cia)
    N = m.nLayers
    Rs = m.star.radius
    z = zb[:-1]
    sg = '%s/%s' % (case['path'], tag)
    r.eq(grid, WN, 'native-grid', 'grid/%s' % sg, rtol=0)
    # --- geometry invariants (independent of the encoded shell definition)
    pl = m.path_length
    ok_len = len(pl) == N and all(len(pl[l]) == N - l for l in range(N))
    r.check(ok_len, 'geometry-lengths', 'geometry/len/%s' % case['path'], lens=[len(p) for p in pl])
    if ok_len:
        r.check(all(np.all(np.asarray(p) > 0) for p in pl), 'geometry-positive',
                'geometry/positive/%s' % case['path'])
        for l in range(N):
            r.eq(np.sum(pl[l]), 2.0 * math.sqrt(max(outer[-1] ** 2 - b[l] ** 2, 0.0)),
                 'geometry-telescoping', 'geometry/telescoping/%s' % case['path'], rtol=1e-9, layer=l)
            r.eq(pl[l], segs[l], 'geometry-segments', 'geometry/segments/%s' % case['path'], rtol=1e-9,
                 atol=1e-9 * float(np.max(segs[l])), layer=l)
    # --- transmittance with the tau>10 licence
    T_ref = np.exp(-tau_ref)
    trans = np.asarray(trans, float)
    if not r.check(trans.shape == T_ref.shape, 'trans-shape', 'trans/shape'):
        return None
    lic = np.zeros(N, bool)
    for l in range(N):
        if tau_ref[l].min() > 10:
            lic[l] = True
            ok = np.all(trans[l] >= T_ref[l] * (1 - 1e-9) - 1e-300) and np.all(trans[l] <= math.exp(-10) * (1 + 1e-9))
            r.check(bool(ok), 'transmittance-saturated', 'trans/saturated/%s' % sg, layer=l, got=trans[l],
                    ref=T_ref[l])
        else:
            r.eq(trans[l], T_ref[l], 'transmittance', 'trans/%s/%s' % (sg, case['mag']), layer=l,
                 tau_ref=tau_ref[l], atol=1e-15)
    # --- depth: the documented integral of the returned transmittance, and the reference band
    d_of_T = rt.transit_depth(trans, Rp, Rs, z, dz)
    r.eq(depth, d_of_T, 'depth-integral', 'depth/integral/%s' % tag, rtol=1e-12)
    d_ref = rt.transit_depth(T_ref, Rp, Rs, z, dz)
    T_lo = T_ref.copy()
    T_lo[lic] = math.exp(-10)
    d_lo = rt.transit_depth(T_lo, Rp, Rs, z, dz)
    depth = np.asarray(depth, float)
    r.check(bool(np.all(depth <= d_ref * (1 + 1e-9)) and np.all(depth >= d_lo * (1 - 1e-9))), 'depth',
            'depth/reference/%s/%s' % (sg, case['mag']), got=depth, ref=d_ref, lo=d_lo)
    # --- consequences
    bare = (Rp / Rs) ** 2
    opaque = rt.transit_depth(np.zeros_like(T_ref), Rp, Rs, z, dz)
    r.check(bool(np.all(depth >= bare * (1 - 1e-14))), 'ge-bare-planet', 'consequence/bare')
    r.check(bool(np.all(depth <= opaque * (1 + 1e-12))), 'le-opaque', 'consequence/opaque')
    if not np.any(tau_ref > 0):
        r.eq(depth, np.full_like(depth, bare), 'nothing-absorbs', 'consequence/nothing-absorbs', rtol=1e-14)
    inter = (T_ref > math.exp(-10)) & (T_ref < 1 - 1e-12)
    if inter.any():
        r.nontrivial = True
    r.observe(depth, trans)
    return depth, bool(lic.any()), opaque, bare


def case_fn(case):
    r = core.R(case)
    a = one_run(r, case, 1.0, 'x1')
    b = one_run(r, case, 3.0, 'x3')
    if a is not None and b is not None:
        d1, _, opaque, bare = a
        d3, lic3, _, _ = b
        slack = (opaque - bare) * math.exp(-10) if lic3 else 0.0
        r.check(bool(np.all(d3 >= d1 * (1 - 1e-12) - slack)), 'monotone-in-scale', 'consequence/monotone',
                d1=d1, d3=d3)
    return r


# ---------------------------------------------------------------------------------------------
# inverted saturation: an absorber confined to the top layers, calibrated so that the highest rays are
# just opaque (tau ~ 20 at every wavenumber) while the deeper rays, which cross the same shells on shorter
# chords, are not; a second, grey source matters in the deep layers.  (The tau>10 licence is per ray.)
# ---------------------------------------------------------------------------------------------
def inverted_fn(case):
    r = core.R(case)
    N, ntop = case['N'], case['ntop']
    c = dict(DIMS_DEFAULT, N=N, path=case['path'], mag='tau1', contribs=['abs', case['second']], T=['iso', 1000.0])
    c['pattern'] = 'flat'

    def build(x_top, scale=1.0):
        fx.reset_caches()
        from taurex.cache import OpacityCache, CIACache
        tabs = {}
        for mol, f in (('H2O', 1.0), ('CH4', 0.37)):
            tabs[mol] = fx.table(3, 3, 4, 1e-27, salt=('c01inv', mol), pattern='flat') * f * scale
            OpacityCache().add_opacity(fx.TinyOp(mol, WN, TG, PG, tabs[mol]))
        cia = fx.rng('c01cia').uniform(0.5, 1.5, size=(3, 4)) * 1e-55
        CIACache().add_cia(fx.TinyCIA('H2-He', WN, CIA_T, cia))
        CIACache().add_cia(fx.TinyCIA('H2-H2', WN, CIA_T, cia[::-1, ::-1] * 0.3))
        sp = spec_of(c, 0.1)          # the second source stays moderate in the deep layers
        prof = [1e-30] * (N - ntop) + [x_top] * ntop
        sp['gases'] = [['H2O', ['array', prof]], ['CH4', ['const', 1e-30]]]
        return fx.build_model(sp), tabs, cia

    x_top = 1e-2
    probe, tabs, cia = build(x_top)
    probe.model()
    sig_top = opac.interp_opacity(tabs['H2O'], TG, PG, float(probe.temperatureProfile[-1]),
                                  float(probe.pressureProfile[-1]), 'linear')
    col = float(sig_top.min()) * x_top * float(probe.densityProfile[-1]) * float(probe.path_length[-1][0])
    m, tabs, cia = build(x_top, scale=20.0 / col)     # the table is an input: scaled so that the top ray has tau = 20
    grid, depth, trans, _ = m.model()
    tau_ref, segs, b, outer, zb, dz, Rp = reference(m, c, tabs, cia)
    T_ref = np.exp(-tau_ref)
    trans = np.asarray(trans, float)
    sat = np.array([tau_ref[l].min() > 10 for l in range(N)])
    r.count('rays-saturated', int(sat.sum()))
    inverted = bool(sat.any() and not sat[0])
    r.count('inverted-pattern-reached', int(inverted))
    for l in range(N):
        if sat[l]:
            ok = np.all(trans[l] <= math.exp(-10) * (1 + 1e-9)) and np.all(trans[l] >= T_ref[l] * (1 - 1e-9) - 1e-300)
            r.check(bool(ok), 'transmittance-saturated', 'inverted/saturated/%s' % case['path'], layer=l)
        else:
            r.eq(trans[l], T_ref[l], 'transmittance', 'inverted/trans/%s/%s' % (case['path'], case['second']), layer=l,
                 atol=1e-15, saturated=sat)
    r.nontrivial = inverted
    r.observe(depth, trans)
    return r


# ---------------------------------------------------------------------------------------------
# the boundary of the licence: a user-supplied grey source puts every ray at exactly tau = 10 (or one unit in the
# last place above or below it, or clearly on either side) before or after the molecular absorption is added.
# Skipping is licensed only where a set of sources already integrated exceeds 10 *strictly* at every wavenumber.
# ---------------------------------------------------------------------------------------------
DECKS = {'ten': 10.0, 'ten+': float(np.nextafter(10.0, np.inf)), 'ten-': float(np.nextafter(10.0, -np.inf)),
         'nine': 9.0, 'eleven': 11.0, 'tenwn': 'tenwn'}


def boundary_fn(case):
    from taurex.contributions import Contribution
    r = core.R(case)
    N = case['N']
    c = dict(DIMS_DEFAULT, N=N, path=case['path'], mag='tau1', contribs=['abs'], T=['iso', 1000.0])
    fx.reset_caches()
    tabs, cia = install(c, 1.0)
    m = fx.build_model(spec_of(c, 1.0))
    deck = DECKS[case['deck']]
    if deck == 'tenwn':      # exactly 10 at one wavenumber only, above it elsewhere: the minimum is what counts
        deck = np.full(len(WN), 12.0)
        deck[1] = 10.0
    else:
        deck = np.full(len(WN), deck)
    order = case['order']

    class GreyDeck(Contribution):
        def __init__(self):
            super().__init__('GreyDeck')

        @property
        def order(self):
            return order

        def prepare_each(self, model, wngrid):
            self.sigma_xsec = np.tile(deck[None, :len(wngrid)], (model.nLayers, 1))
            yield 'Deck', self.sigma_xsec

        def contribute(self, model, start_layer, end_layer, density_offset, layer, density, tau, path_length=None):
            tau[layer] += self.sigma_xsec[layer]

    m.add_contribution(GreyDeck())
    m.build()
    grid, depth, trans, _ = m.model()
    tau_abs, segs, b, outer, zb, dz, Rp = reference(m, dict(c, contribs=['abs']), tabs, cia)
    trans = np.asarray(trans, float)
    total = tau_abs + deck[None, :]
    sg = '%s/%s/order%d' % (case['path'], case['deck'], order)
    if not r.check(trans.shape == total.shape, 'trans-shape', 'boundary/shape'):
        return r
    nlic = 0
    for l in range(N):
        exact = bool(np.allclose(trans[l], np.exp(-total[l]), rtol=1e-9, atol=1e-300))
        # subsets of {deck, absorption} that license skipping the other one on this ray
        lic = [s_ for s_ in (deck, tau_abs[l]) if s_.min() > 10]
        ok = exact or any(np.all(trans[l] <= np.exp(-s_) * (1 + 1e-9)) and np.all(trans[l] >= np.exp(-total[l]) * (1 - 1e-9))
                          for s_ in lic)
        nlic += int(bool(lic))
        r.check(bool(ok), 'transmittance-licence-boundary', 'boundary/%s' % sg, layer=l, got=trans[l],
                full=np.exp(-total[l]), licensed_subsets=len(lic))
    r.count('rays-with-a-licensed-subset', nlic)
    d_of_T = rt.transit_depth(trans, Rp, m.star.radius, zb[:-1], dz)
    r.eq(depth, d_of_T, 'depth-integral', 'boundary/depth-integral', rtol=1e-12)
    r.nontrivial = bool(np.any(tau_abs > 1e-3))
    r.observe(trans)
    return r


# ---------------------------------------------------------------------------------------------
# history phase: one live model, every sequence of parameter updates, fresh-model differential
# ---------------------------------------------------------------------------------------------
HIST_ALPHABET = [['T', 800.0], ['T', 1800.0], ['planet_radius', 0.8], ['planet_radius', 1.3],
                 ['planet_mass', 0.5], ['planet_mass', 2.0], ['H2O', 1e-6], ['H2O', 1e-3],
                 ['He_H2', 0.05], ['He_H2', 0.6], ['atm_max_pressure', 1e5], ['atm_max_pressure', 1e7],
                 ['atm_min_pressure', 1e-3], ['atm_min_pressure', 1e1], ['clouds_pressure', 1e2],
                 ['clouds_pressure', 3e4], ['flat_mix_ratio', 1e-33], ['flat_mix_ratio', 1e-29],
                 ['lee_mie_mix_ratio', 1e-16], ['lee_mie_mix_ratio', 1e-9], ['star_radius', 4e8],
                 # mass and radius written together to a pair with the surface gravity of the start
                 ['__multi__', [['planet_mass', 4.0], ['planet_radius', 2.0]]],
                 # the atmosphere becomes pure sodium vapour (no opacity, no scattering data): every species that
                 # absorbs or scatters is at exactly zero abundance - sources that had components now have none
                 ['__multi__', [['H2O', 0.0], ['CH4', 0.0], ['Na', 1.0]]]]
# requested spectral windows of equal length at both ends of the native grid, and the full grid again
HIST_ALPHABET += [['__window__', [1000.0, 2000.0]], ['__window__', [3000.0, 4000.0]], ['__window__', None]]
HIST_ALPHABET += [['H2O', 1.5]]      # rejected (above one): the history continues from the rejected state
# ['H2O', 1.5]: a mixing ratio above one - the model is rejected, and the history goes on from there
HIST_REDUCED = [['H2O', 1.5], ['T', 800.0], ['T', 1800.0], ['planet_mass', 0.5], ['clouds_pressure', 1e2], ['clouds_pressure', 3e4],
                ['H2O', 1e-3], ['atm_max_pressure', 1e5]]


# a node-based temperature profile whose interior node lies between the two topmost layers: T_top then moves the
# top layer alone (its thickness, not the altitude of any layer bottom), T_surface only the layers below the node
NPOINT_ALPHABET = [['T_top', 400.0], ['T_top', 2200.0], ['T_surface', 2100.0], ['T_point1', 600.0],
                   ['T_point1', 1900.0], ['planet_mass', 0.5], ['H2O', 1e-3], ['atm_min_pressure', 1e-3]]


def hist_build(case, net=None):
    fx.reset_caches()
    c = {'mag': 'tau1', 'mode': 'linear'}
    install(c, 1.0)
    T = ['iso', 1200.0]
    if case.get('T') == 'npoint':
        # layer pressures of the standard grid 1e6 .. 1e-1 Pa: the node goes between the two topmost of them
        lev = np.logspace(6, -1, case['N'] + 1)
        lay = np.sqrt(lev[:-1] * lev[1:])
        T = ['npoint', float(np.sqrt(lay[-1] * lay[-2]))]
    spec = {'kind': 'transmission', 'N': case['N'], 'T': T, 'path': case['path'],
            'gases': [['H2O', ['const', 1e-4]], ['CH4', ['const', 3e-5]], ['Na', ['const', 1e-6]]],
            'contribs': ['abs', ['cia', ['H2-H2', 'H2-He']], 'ray', ['clouds', 1e3],
                         ['flat', {'flat_mix_ratio': 1e-31, 'flat_topP': 3e0, 'flat_bottomP': 2e4}],
                         ['lee', {'lee_mie_mix_ratio': 1e-12, 'lee_mie_radius': 0.05, 'lee_mie_q': 40}]]}
    if net is not None:
        spec, rest = rthist.spec_with_net(spec, net)
        return fx.build_model(spec), rest
    return fx.build_model(spec)


def hist_fn(case):
    r = core.R(case)
    rthist.run_history(r, case['hist'], lambda: hist_build(case), 'transmission/' + case['path'],
                       build_with=lambda net: hist_build(case, net), as_numpy=bool(case.get('np')), entry=case.get('entry', 'model'))
    return r


def bigwn_fn(case):
    """A native grid of high-resolution size (more points than any power-of-two block a kernel might work in): every
    wavenumber against the reference, so a point dropped or counted twice at a block boundary shows."""
    from taurex.cache import OpacityCache
    r = core.R(case)
    fx.reset_caches()
    nW, N = case['nW'], case['N']
    wn = np.linspace(1000.0, 4000.0, nW)
    g = fx.rng('c01big', nW)
    tab = (10 ** g.uniform(-0.5, 0.5, size=(2, 2, nW))) * 1e-27 * 1e4
    OpacityCache().add_opacity(fx.TinyOp('H2O', wn, fx.T_GRIDS[2], fx.P_GRIDS[2], tab, case['mode']))
    contribs = ['abs'] + (['ray'] if case['ray'] else [])
    m = fx.build_model({'kind': 'transmission', 'N': N, 'T': ['dec'], 'path': case['path'],
                        'gases': [['H2O', ['const', 1e-4]]], 'contribs': contribs})
    grid, depth, trans, _ = m.model()
    r.eq(np.asarray(grid, float), wn, 'native-grid', 'bigwn/grid', rtol=0)
    T = np.asarray(m.temperatureProfile, float)
    P = np.asarray(m.pressureProfile, float)
    dens = np.asarray(m.densityProfile, float)
    zb = np.asarray(m.altitude_boundaries, float)
    dz = np.asarray(m.deltaz, float)
    segs, b, outer = rt.chord_segments(case['path'], m.planet.fullRadius, zb, dz)
    chi = np.asarray(m.chemistry.get_gas_mix_profile('H2O'), float)
    sig = np.array([opac.interp_opacity(tab, fx.T_GRIDS[2], fx.P_GRIDS[2], T[k], P[k], case['mode']) * chi[k] for k in range(N)])
    if case['ray']:
        from taurex.util.scattering import rayleigh_sigma_from_name
        for gname in list(m.chemistry.activeGases) + list(m.chemistry.inactiveGases):
            s_ = rayleigh_sigma_from_name(gname, wn)
            if s_ is not None:
                sig = sig + s_[None, :] * np.asarray(m.chemistry.get_gas_mix_profile(gname), float)[:, None]
    T_ref = np.exp(-rt.slant_tau(sig, dens, segs, 1))
    trans = np.asarray(trans, float)
    if r.check(trans.shape == T_ref.shape, 'trans-shape', 'bigwn/shape', got=trans.shape):
        bad = np.nonzero(~np.isclose(trans, T_ref, rtol=1e-9, atol=1e-15))
        r.check(bad[0].size == 0, 'transmittance', 'bigwn/transmittance/%s' % case['path'],
                first_bad_wavenumber_indices=sorted(set(bad[1].tolist()))[:8], count=int(bad[0].size))
        d_ref = rt.transit_depth(T_ref, m.planet.fullRadius, m.star.radius, zb[:-1], dz)
        r.eq(np.asarray(depth, float), d_ref, 'depth', 'bigwn/depth/%s' % case['path'], rtol=1e-9)
    r.observe(np.asarray(depth, float)[::997])
    r.nontrivial = True
    return r


def explore(ctx):
    big = [{'nW': nW, 'N': 2, 'path': pth, 'mode': md, 'ray': ry} for nW, pth, md, ry in
           ((65537, 'old', 'linear', False), (70001, 'new', 'exp', False), (131073, 'old', 'exp', True),
            (140003, 'old', 'linear', False))]
    if ctx.tier == 'thorough':
        big += [{'nW': 262145, 'N': 3, 'path': 'old', 'mode': 'linear', 'ray': True},
                {'nW': 200001, 'N': 2, 'path': 'new', 'mode': 'exp', 'ray': False}]
    ctx.run_cases('bigwn_fn', big, phase='large-grid')
    if ctx.tier == 'quick':
        cases = core.product_cases(DIMS, core=['N', 'mag', 'contribs', 'path'], d=2)
        ctx.bounds.update(deviations=2, core='N x mag x contribs x path')
    else:
        cases = core.product_cases(DIMS, core=['N', 'mag', 'contribs', 'path', 'T', 'abund', 'mode'], d=3)
        ctx.bounds.update(deviations=3, core='N x mag x contribs x path x T x abund x mode')
    # a very extended atmosphere (inflated low-gravity hot planet over a wide pressure range: the top lies most of a
    # planetary radius above the surface), every layer count x magnitude x path method
    for N, mag, pth, cb in itertools.product(DIMS['N'], DIMS['mag'], DIMS['path'], [['abs'], DIMS['contribs'][-1]]):
        c = dict(DIMS_DEFAULT, N=N, mag=mag, path=pth, contribs=cb, planet=[1.3, 0.2], T=['iso', 1800.0], prange=[1e7, 1e-4])
        if c not in cases:
            cases.append(c)
    # exp interpolation of an all-zero table is log(0/0): outside the value alphabet of C04
    cases = [c for c in cases if not (c['mode'] == 'exp' and c['mag'] == 'zero')]
    ctx.run_cases('case_fn', cases, phase='inputs')
    if ctx.tier == 'quick':
        hs = rthist.histories(HIST_ALPHABET, 2, HIST_REDUCED, 3)
        cfgs = [(4, 'old'), (3, 'new')]
    else:
        hs = rthist.histories(HIST_ALPHABET, 3, HIST_REDUCED, 4)
        cfgs = [(4, 'old'), (3, 'new'), (2, 'old'), (5, 'new')]
    hcases = [{'N': n, 'path': pth, 'hist': h} for (n, pth) in cfgs for h in hs]
    hn = rthist.histories(NPOINT_ALPHABET, 2 if ctx.tier == 'quick' else 3)
    hcases += [{'N': n, 'path': pth, 'T': 'npoint', 'hist': h} for (n, pth) in cfgs[:2] for h in hn]
    ctx.bounds.update(history_depth_full_alphabet=2 if ctx.tier == 'quick' else 3,
                      history_depth_reduced_alphabet=3 if ctx.tier == 'quick' else 4, histories=len(hcases))
    # every single update once more with the value handed over as a numpy float64 scalar
    hcases += [dict(c_, np=True) for c_ in hcases if len(c_['hist']) == 1]
    # ... and with the first evaluation after the update going through model_full_contrib / model_contrib
    hcases += [dict(c_, entry=e_) for c_ in hcases if len(c_['hist']) == 1 and not c_.get('np') for e_ in ('full', 'contrib')]
    ctx.run_cases('hist_fn', hcases, phase='histories')
    inv = [{'N': n, 'ntop': t, 'path': pth, 'second': sec} for n in (3, 4, 5, 7) for t in (1, 2) if t < n
           for pth in ('old', 'new') for sec in ('flat', 'lee', 'ray', 'cia')]
    ctx.run_cases('inverted_fn', inv, phase='inverted')
    bd = [{'N': n, 'path': pth, 'deck': d_, 'order': o_} for n in (2, 4) for pth in ('old', 'new') for d_ in DECKS
          for o_ in (3, 7)]
    ctx.run_cases('boundary_fn', bd, phase='licence-boundary')
