"""C17 - observations load independent of row order (DESIGN.md section 4, C17).

Engine E1.  A case = (wavelength spacing, n rows, 3|4 columns, width letter, source); inside a case
EVERY permutation of the rows is loaded through the real loader (ArraySpectrum, ObservedSpectrum from
a text file, TaurexSpectrum and taurex_hdf5_to_observation from a file written by TauREx's own
HDF5Output) and the resulting object is compared

  * with mc.ref.binning.observation(rows)  (written from the statement: rows ordered by ascending
    wavenumber 10000/lambda, every value/error/width still with its wavelength, widths
    10000 w / lambda^2 or from neighbouring mid-points, edges = the wavelength intervals),
  * bit for bit with the object loaded from the rows in sorted order (differential),
  * through create_binner(): returned centres/widths are the observation's and a fine-grid model
    binned with it equals ref.overlap_bin bin by bin in the order of `spectrum`.
"""
import itertools
import os

import numpy as np

from mc import core, fixtures as fx
from mc.ref import binning as ref

ID = 'C17'
RULE = ('wavelength spacing letter (uniform, log, irregular, long-wave) x n=2..4 (..6 thorough, 7 for the array source) x columns (3, 4) x '
        'width letter (contiguous, distinct with gaps, distinct overlapping neighbours) x source (array, text file, '
        'TaurexSpectrum, taurex_hdf5_to_observation) ; inside a case all n! row permutations.  Values, errors and '
        'widths are distinct per row (seeded generic), so any mis-pairing changes the result.  A case is non-trivial '
        'when the permutation is not the sorted one.')
ASSUME = ['numpy, h5py trusted; the HDF5 file is written with taurex.output.hdf5.HDF5Output exactly as taurex.taurex.main '
          'writes Output/Spectra/instrument_*',
          'wavelengths distinct, n >= 2 (statement)',
          'binEdges layout as exposed: 2n interleaved (lower, upper) wavenumber edges for 4 columns, n+1 mid-point '
          'edges for 3 columns; they are compared in the wavelength domain (10000/binEdges = lambda -+ w/2), the '
          'first-order wavenumber width is NOT required to reproduce them',
          'small-scope hypothesis: n <= 7 rows']

SPACINGS = ['uniform', 'log', 'irregular', 'longwave']
# 'integers': every column holds whole numbers and the array source receives an integer-typed array (odd widths)
INT_SPACING = 'integers'
WIDTHS = ['contig', 'gappy', 'overlap']
SOURCES = ['array', 'text', 'text-aligned', 'taurex', 'hdf5fn']


def wavelengths(letter, n):
    if letter == 'uniform':
        return 1.0 + 0.5 * np.arange(n)
    if letter == 'log':
        return 0.5 * 2.0 ** np.arange(n)
    if letter == 'irregular':
        return np.array([0.8, 1.1, 1.15, 2.4, 5.0, 5.5, 9.0])[:n]
    if letter == 'longwave':
        return np.array([12.0, 30.0, 110.0, 250.0, 600.0, 900.0, 1500.0])[:n]
    if letter == INT_SPACING:
        return np.array([2.0, 5.0, 9.0, 14.0, 20.0, 27.0, 35.0])[:n]
    raise ValueError(letter)


def make_rows(case):
    """rows in ascending-wavelength order (the permutations are applied by the caller)."""
    n, cols = case['n'], case['cols']
    wl = wavelengths(case['spacing'], n)
    g = fx.rng('c17', case['spacing'], n, cols, case['width'])
    val = 0.01 * (1.0 + 0.1 * np.arange(n)) * g.uniform(0.9, 1.1, n)
    err = 1e-4 * (1.0 + np.arange(n)) * g.uniform(0.9, 1.1, n)
    colsl = [wl, val, err]
    if case['spacing'] == INT_SPACING:
        colsl = [wl, np.array([30.0, 41.0, 37.0, 52.0, 48.0, 60.0, 55.0])[:n], np.array([2.0, 3.0, 5.0, 4.0, 6.0, 7.0, 9.0])[:n]]
        if cols == 4:
            colsl.append(np.array([1.0, 3.0, 3.0, 5.0, 5.0, 7.0, 7.0])[:n])
        return np.vstack(colsl).T.copy()
    if cols == 4:
        mid = ref.midpoint_widths(wl)
        if case['width'] == 'contig':
            w = mid
        elif case['width'] == 'gappy':
            w = mid * (0.3 + 0.1 * np.arange(n)) * g.uniform(0.9, 1.1, n)
        else:
            w = np.minimum(mid * (1.2 + 0.15 * np.arange(n)), 1.2 * wl)      # lower edge stays > 0
        colsl.append(w)
    return np.vstack(colsl).T.copy()


# ----------------------------------------------------------------------------------------------
# loaders
# ----------------------------------------------------------------------------------------------
def load(source, rows, tag):
    """Hand the rows (in the given order) to the real loader.  For the two HDF5 sources the file
    holds (wavenumber, value, noise, wavenumber width) in that row order.  Returns
    (object, rows_as_seen): the (wavelength, value, error, width) rows the statement is about."""
    if source == 'array':
        from taurex.data.spectrum import ArraySpectrum
        buf = rows.copy()
        if np.all(buf == np.round(buf)):
            buf = buf.astype(np.int64)
        o = ArraySpectrum(buf)
        o._verif_input_buffer = buf       # kept so that the caller's buffer can be reused after loading
        return o, rows
    if source == 'text-aligned':
        # right-aligned fixed-width columns, no header: every line starts with blanks
        from taurex.data.spectrum.observed import ObservedSpectrum
        d = fx.fresh_dir('c17_text')
        path = os.path.join(d, 'obs_%s.dat' % tag)
        np.savetxt(path, rows, fmt='%18.10e')
        return ObservedSpectrum(path), np.loadtxt(path)
    if source == 'text':
        from taurex.data.spectrum.observed import ObservedSpectrum
        d = fx.fresh_dir('c17_text')
        path = os.path.join(d, 'obs_%s.dat' % tag)
        np.savetxt(path, rows, header='wavelength value error' + (' width' if rows.shape[1] == 4 else ''))
        return ObservedSpectrum(path), np.loadtxt(path)
    # TauREx HDF5, written with TauREx's own output classes as taurex.taurex.main does
    from taurex.output.hdf5 import HDF5Output
    d = fx.fresh_dir('c17_hdf5')
    path = os.path.join(d, 'fm_%s.h5' % tag)
    wn = 10000.0 / rows[:, 0]
    wnw = 10000.0 * rows[:, 3] / rows[:, 0] ** 2
    spec = {'instrument_wngrid': wn.copy(), 'instrument_wnwidth': wnw.copy(), 'instrument_wlgrid': 10000.0 / wn,
            'instrument_spectrum': rows[:, 1].copy(), 'instrument_noise': rows[:, 2].copy()}
    # ... next to what the program stores about the model itself: the native and the binned spectrum, on other grids
    # (same number of bins as the instrument, so that nothing fails on a shape)
    nat = np.linspace(0.5 * wn.min(), 1.5 * wn.max(), 3 * len(wn) + 1)
    bwn = np.sort(wn) * 1.0173 + 3.0
    spec.update({'native_wngrid': nat, 'native_spectrum': 0.02 + 1e-6 * nat, 'native_wlgrid': 10000.0 / nat,
                 'binned_wngrid': bwn, 'binned_wlgrid': 10000.0 / bwn, 'binned_wnwidth': np.full(len(bwn), 7.5),
                 'binned_wlwidth': 10000.0 * 7.5 / bwn ** 2, 'binned_spectrum': 0.03 + 1e-6 * bwn})
    with HDF5Output(path) as o:
        out = o.create_group('Output')
        out.store_dictionary(spec, group_name='Spectra')
    seen = np.vstack([10000.0 / wn, rows[:, 1], rows[:, 2], 10000.0 * wnw / wn ** 2]).T
    if source == 'taurex':
        from taurex.data.spectrum.taurex import TaurexSpectrum
        return TaurexSpectrum(path), seen
    from taurex.util.hdf5 import taurex_hdf5_to_observation
    return taurex_hdf5_to_observation(path), seen


ATTRS = ['wavelengthGrid', 'wavenumberGrid', 'spectrum', 'errorBar', 'binWidths', 'binEdges']


def snapshot(o):
    return dict((a, np.array(getattr(o, a), dtype=float)) for a in ATTRS)


def fine_model(R):
    """native grid finer than every observation bin, covering them with a margin, and a model on it."""
    lo = float(np.min(10000.0 / R['wl_hi']))
    hi = float(np.max(10000.0 / R['wl_lo']))
    wmin = float(np.min(R['wnwidth']))
    span = hi - lo
    npts = int(min(4000, max(40, np.ceil(span * 1.2 / (wmin / 3.3)))))
    wn = np.linspace(lo - 0.1 * span, hi + 0.1 * span, npts)
    wn = wn[wn > 0]
    g = fx.rng('c17', 'model', len(wn))
    s = 0.01 * (1.0 + 0.3 * np.sin(wn / (0.13 * span + 1.0)) + 0.5 * (wn - wn[0]) / span) * g.uniform(0.97, 1.03, len(wn))
    return wn, s


def case_fn(case):
    r = core.R(case)
    fx.reset_caches()
    base = make_rows(case)
    n = len(base)
    src = case['source']
    cols = case['cols']
    cls0 = 'src=%s,cols=%d' % (src, cols)

    # the object built from the sorted rows (descending wavelength = ascending wavenumber)
    o_sorted, seen_sorted = load(src, base[::-1].copy(), 'sorted')
    snap_sorted = snapshot(o_sorted)
    R0 = ref.observation(seen_sorted)
    wn_f, s_f = fine_model(R0)
    w_f = ref.midpoint_widths(wn_f)
    bref, _, sumw, _ = ref.overlap_bin(wn_f, w_f, s_f, R0['wn'], R0['wnwidth'])

    perms = list(itertools.permutations(range(n)))
    for p in perms:
        p = list(p)
        kind = 'sorted-asc-wl' if p == list(range(n)) else 'sorted-desc-wl' if p == list(range(n))[::-1] else 'shuffled'
        cls = '%s,rows=%s' % (cls0, 'sorted' if kind == 'sorted-desc-wl' else 'unsorted')
        rows = base[p].copy()
        keep = rows.copy()
        try:
            o, seen = load(src, rows, 'p' + ''.join(map(str, p)))
            snap = snapshot(o)
        except Exception as ex:
            r.check(False, 'no-exception', 'obs/raised/%s/%s' % (type(ex).__name__, cls), exc=repr(ex), rows=keep)
            continue
        r.observe(*[snap[a] for a in ATTRS])
        buf = getattr(o, '_verif_input_buffer', None)
        if buf is not None:
            # the caller reuses its buffer for the next spectrum (rows reversed, values refilled): the loaded
            # observation must not change with it
            buf[:] = buf[::-1].copy()
            buf[:, 1] = (buf[:, 1] * 1.7).astype(buf.dtype)
            snap2 = snapshot(o)
            same = all(np.array_equal(snap[a], snap2[a]) for a in ATTRS)
            r.check(same, 'independent-of-input-buffer', 'obs/aliases-input-buffer/' + cls, rows=keep)
        R = ref.observation(seen)
        tol = 1e-12
        ok = True
        ok &= r.check(snap['wavenumberGrid'].shape == (n,) and bool(np.all(np.diff(snap['wavenumberGrid']) > 0)),
                      'ascending', 'obs/not-ascending/' + cls, got=snap['wavenumberGrid'], rows=keep)
        ok &= r.eq(snap['wavenumberGrid'], R['wn'], 'wavenumber', 'obs/wavenumber/' + cls, rtol=tol, rows=keep)
        ok &= r.eq(snap['wavelengthGrid'], R['wl'], 'wavelength', 'obs/wavelength/' + cls, rtol=tol, rows=keep)
        ok &= r.eq(snap['spectrum'], R['spectrum'], 'paired-value', 'obs/value-pairing/' + cls, rtol=tol, rows=keep)
        ok &= r.eq(snap['errorBar'], R['error'], 'paired-error', 'obs/error-pairing/' + cls, rtol=tol, rows=keep)
        ok &= r.eq(snap['binWidths'], R['wnwidth'], 'width', 'obs/width/' + cls, rtol=1e-11, rows=keep)
        # bin edges, in the wavelength domain in which they are defined
        be = snap['binEdges']
        with np.errstate(all='ignore'):
            wl_e = 10000.0 / be
        if cols == 4 or src in ('taurex', 'hdf5fn'):
            if r.check(be.shape == (2 * n,), 'edges', 'obs/edges-shape/' + cls, got=be.shape):
                want = np.empty(2 * n)
                want[0::2] = R['wl_hi']
                want[1::2] = R['wl_lo']
                ok &= r.eq(wl_e, want, 'edges', 'obs/edges/' + cls, rtol=1e-11, rows=keep)
                ok &= r.check(bool(np.all(be[0::2] < snap['wavenumberGrid']) and np.all(snap['wavenumberGrid'] < be[1::2])),
                              'edges', 'obs/edges-bracket/' + cls, edges=be, wn=snap['wavenumberGrid'])
        else:
            if r.check(be.shape == (n + 1,), 'edges', 'obs/edges-shape/' + cls, got=be.shape):
                want = np.concatenate([R['wl_hi'], R['wl_lo'][-1:]])
                ok &= r.eq(wl_e, want, 'edges', 'obs/edges/' + cls, rtol=1e-11, rows=keep)
                ok &= r.check(bool(np.all(be[:-1] < snap['wavenumberGrid']) and np.all(snap['wavenumberGrid'] < be[1:])),
                              'edges', 'obs/edges-bracket/' + cls, edges=be, wn=snap['wavenumberGrid'])
        # differential: identical to the object from the sorted rows
        same = all(np.array_equal(snap[a], snap_sorted[a]) for a in ATTRS)
        r.check(same, 'order-independent', 'obs/order-dependent/' + cls,
                differing=[a for a in ATTRS if not np.array_equal(snap[a], snap_sorted[a])], rows=keep)
        # binner from the observation
        try:
            b = o.create_binner()
            out = b.bindown(wn_f.copy(), s_f.copy())
            out2 = b.bin_model((wn_f.copy(), s_f.copy(), None, None))
        except Exception as ex:
            r.check(False, 'no-exception', 'binner/raised/%s/%s' % (type(ex).__name__, cls), exc=repr(ex), rows=keep)
            continue
        g_tc, g_val, g_err, g_tw = out
        if not r.check(np.shape(g_val) == np.shape(bref), 'binner-grid', 'binner/number-of-bins/' + cls,
                       got=np.shape(g_val), want=np.shape(bref), rows=keep):
            continue
        r.eq(g_tc, R['wn'], 'binner-grid', 'binner/centres/' + cls, rtol=tol, rows=keep)
        r.eq(g_tw, R['wnwidth'], 'binner-grid', 'binner/widths/' + cls, rtol=1e-11, rows=keep)
        live = sumw > 0
        r.eq(np.asarray(g_val, float)[live], bref[live], 'binned-model', 'binner/aligned-model/' + cls, rows=keep)
        r.check(np.array_equal(np.asarray(out2[1], float), np.asarray(g_val, float)), 'binned-model',
                'binner/bin_model/' + cls)
        # a model grid that stops short of the observation at one end (the outermost bin lies wholly outside it):
        # every bin the model does reach is still aligned with its own observed value
        if p == list(range(n)) or p == list(range(n))[::-1] or p == perms[len(perms) // 2]:
            for side in ('low', 'high'):
                if side == 'low':
                    sel = wn_f > (R['wn'][0] + 0.5 * R['wnwidth'][0]) * 1.0001
                else:
                    sel = wn_f < (R['wn'][-1] - 0.5 * R['wnwidth'][-1]) * 0.9999
                if sel.sum() < 3:
                    continue
                wn_p, s_p = wn_f[sel], s_f[sel]
                bp, _, sw_p, _ = ref.overlap_bin(wn_p, ref.midpoint_widths(wn_p), s_p, R['wn'], R['wnwidth'])
                try:
                    gp = np.asarray(b.bindown(wn_p.copy(), s_p.copy())[1], float)
                except Exception as ex:
                    r.check(False, 'no-exception', 'binner/raised-short-model/%s/%s' % (type(ex).__name__, cls), exc=repr(ex))
                    continue
                lv = sw_p > 1e-9 * R['wnwidth']
                if gp.shape == bp.shape and lv.any():
                    r.eq(gp[lv], bp[lv], 'binned-model', 'binner/aligned-model-short-%s/%s' % (side, cls), rows=keep)
        # a model sampled exactly on the observation's own centres (in the row order of the file): still averaged over
        # the observation's widths, like any other native grid
        if p == list(range(n)) or p == perms[len(perms) // 2]:
            wn_c = 10000.0 / keep[:, 0]
            s_c = 0.01 * (1.0 + 0.2 * np.sin(np.arange(n) * 1.3) + 0.05 * np.arange(n))
            oc = np.argsort(wn_c)
            wmid = ref.midpoint_widths(wn_c[oc])
            lo_n, hi_n = wn_c[oc] - wmid / 2, wn_c[oc] + wmid / 2
            ordered_native = bool(np.all(np.diff(lo_n) >= 0) and np.all(np.diff(hi_n) >= 0) and
                                  np.all(hi_n[:-1] <= lo_n[1:] * (1 + 1e-12)))
            bc, _, sw_c, _ = ref.overlap_bin(wn_c[oc], wmid, s_c[oc], R['wn'], R['wnwidth'])
            # (C05 speaks of native grids with non-overlapping ordered bins: on strongly uneven centres the implied
            # mid-point bins overlap, and nothing is demanded)
            try:
                if not ordered_native:
                    raise StopIteration
                gc = np.asarray(b.bindown(wn_c.copy(), s_c.copy())[1], float)
                lv = sw_c > 1e-9 * R['wnwidth']
                if gc.shape == bc.shape and lv.any():
                    r.eq(gc[lv], bc[lv], 'binned-model', 'binner/model-on-observation-centres/' + cls, rows=keep)
            except StopIteration:
                r.count('model-on-centres-skipped-overlapping-native-bins')
            except Exception as ex:
                r.check(False, 'no-exception', 'binner/raised-on-centres/%s/%s' % (type(ex).__name__, cls), exc=repr(ex))
        # element-by-element alignment: bin i of the binned model is the bin of spectrum[i]
        r.check(np.asarray(g_val).shape == snap['spectrum'].shape, 'binned-model', 'binner/shape/' + cls)
        if kind == 'shuffled' or (kind == 'sorted-asc-wl'):
            r.nontrivial = True
    return r


def explore(ctx):
    thorough = ctx.tier == 'thorough'
    ns = [2, 3, 4, 5, 6] if thorough else [2, 3, 4]
    cases = []
    for sp in SPACINGS:
        for n in ns:
            for src in SOURCES:
                for cols in (3, 4):
                    if cols == 3 and src in ('taurex', 'hdf5fn'):
                        continue
                    for wd in (WIDTHS if cols == 4 else ['none']):
                        cases.append({'spacing': sp, 'n': n, 'cols': cols, 'width': wd, 'source': src})
    for n in ns:
        for cols in (3, 4):
            cases.append({'spacing': INT_SPACING, 'n': n, 'cols': cols, 'width': 'odd' if cols == 4 else 'none',
                          'source': 'array'})
    if thorough:
        # 5040 permutations of 7 rows, in-memory source only
        for sp in SPACINGS:
            for cols in (3, 4):
                for wd in (WIDTHS if cols == 4 else ['none']):
                    cases.append({'spacing': sp, 'n': 7, 'cols': cols, 'width': wd, 'source': 'array'})
    ctx.bounds.update(rows='n=2..%d, all n! permutations%s' % (ns[-1], '; n=7 for the array source' if thorough else ''),
                      sources=SOURCES, columns=[3, 4])
    ctx.run_cases('case_fn', cases, chunk=1)
