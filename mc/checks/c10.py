"""C10 - atmospheric composition is a valid mixture for every input (DESIGN.md section 4, C10).

Engine E1, two case functions on the real classes:

  profile_case : one built-in abundance profile (constant / two-layer / two-point / array /
                 power-law) x layer count x control values x type-specific letters x pressure
                 range x temperature letter.  Oracle (statement, last sentence): exactly one
                 finite value per layer, inside [min(control), max(control)] (power law:
                 0 <= chi <= deep-atmosphere value), for every layer count >= 2.
  mix_case     : TaurexChemistry with fill-gas list x ratio letter x one profile letter for each
                 of the four trace slots (H2O, CH4, CO, Na) x layer count x temperature letter x
                 available-opacity set x opacity mode (xsec / ktables).  Oracle: ref.chem
                 (exact rational unity test, mixture filling, own formula parser for the masses).
"""
import itertools
import os

import numpy as np

from mc import core, fixtures as fx
from mc.ref import chem as rchem
from mc.ref import hydro as rhydro

ID = 'C10'
RULE = ('profile_case: full product of profile type x layer count x (surface,top) control pairs x '
        'type-specific letters (two-layer: boundary pressure x smoothing; array: node count; power: '
        'coefficient source) with the pressure-range and temperature letters at <=1 (quick) / all '
        '(thorough) deviations.  mix_case: full product over the profile letters of the trace slots '
        '(3 slots quick, 4 thorough) plus <=2 deviations (quick) / a wider product (thorough) over '
        'fill list, ratio letter, layer count, temperature, available-opacity set and opacity mode.  '
        'Non-trivial: at least one trace gas and the verdict (accept/reject, fill values, split) '
        'depends on it.')
ASSUME = ['numpy trusted; physical constant AMU taken from taurex.constants',
          'atomic weights: the documented IUPAC-1995 table (embedded in mc/ref/chem.py)',
          'control values > 0 (profiles are defined through logarithms); two-layer smoothing 1..100 %',
          'totals within 4 eps of one: either verdict accepted (float summation order is not fixed by the statement)',
          'a molecule named in the global deactive_molecules list counts as having no opacity data (what the code does in cross-section mode and in correlated-k mode alike; the statement does not mention the switch)']

FILLS = [['H2', 'He'], ['H2'], ['H2', 'He', 'N2'], ['N2', 'H2', 'He', 'CO2']]
RATIOS = {'std': [0.17, 0.05, 0.02], 'one': [1.0, 1.0, 1.0], 'tiny': [1e-12, 1e-12, 1e-12],
          'mixed': [0.1, 0.5, 2.0], 'float': [0.17, 0.05, 0.02], 'int': [1, 2, 1]}
SLOTS = ['H2O', 'CH4', 'CO', 'Na']
GAS_LETTERS = ['-', 'c:1e-3', 'c:0.5', 'c:0.25', 'c:0.3', 'c:1e-12', 'c:0.500000000001',
               'tp:0.3>1e-6', 'tp:0.3>0.6', 'tp:0.6>0.3', 'arr', 'pow', 'tl']
AVAIL = [['H2O'], [], ['H2O', 'CH4'], ['He', 'CO', 'Na'], ['CH4', 'H2', 'Na'],
         # opacity data for every gas there is, fill gases included: nothing is left non-absorbing
         ['H2', 'He', 'N2', 'CO2', 'H2O', 'CH4', 'CO', 'Na'],
         # opacity data for cobalt (Co): a name that differs from a gas of the mixture by letter case
         # only: carbon monoxide (CO) stays non-absorbing
         ['H2O', 'Co'], ['Co', 'NA']]
CONTROLS = [1e-12, 1e-6, 1e-3, 0.3, 0.5, 'gen1', 'gen2']   # genN: seed-dependent generic value
NS_QUICK = [2, 3, 4, 5, 7, 10, 13, 25, 30, 45, 100]
PRANGES = {'std': (1e-4, 1e6), 'short': (1e-1, 1e5), 'wide': (1e-8, 1e4), 'narrow': (1e2, 1e3)}
TLETTERS = ['iso1000', 'iso3000', 'dec', 'inv', 'cold']
EPS = np.finfo(float).eps


# ----------------------------------------------------------------------------------------------
def pressures(n, prange):
    pmin, pmax = PRANGES[prange]
    return rhydro.layer_pressure(rhydro.simple_levels(n, pmin, pmax))


def temperatures(n, letter):
    if letter == 'iso1000':
        return np.full(n, 1000.0)
    if letter == 'iso3000':
        return np.full(n, 3000.0)
    if letter == 'cold':
        return np.full(n, 100.0)
    x = np.linspace(0.0, 1.0, n) if n > 1 else np.zeros(1)
    if letter == 'dec':
        return 2200.0 - 1500.0 * x
    if letter == 'inv':
        return 600.0 + 1900.0 * x ** 2
    raise ValueError(letter)


def ctl_value(x):
    if isinstance(x, str):
        return float(10 ** fx.rng('c10-control', x).uniform(-8.0, -0.4))
    return float(x)


def gas_classes():
    from taurex.data.profiles.chemistry.gas.constantgas import ConstantGas
    from taurex.data.profiles.chemistry.gas.twolayergas import TwoLayerGas
    from taurex.data.profiles.chemistry.gas.twopointgas import TwoPointGas
    from taurex.data.profiles.chemistry.gas.arraygas import ArrayGas
    from taurex.data.profiles.chemistry.gas.powergas import PowerGas
    return ConstantGas, TwoLayerGas, TwoPointGas, ArrayGas, PowerGas


def window_class(n, smoothing):
    """Structural class of the two-layer smoothing window nlayers*smoothing/100."""
    w = n * (smoothing / 100.0)
    if w < 1:
        return 'window<1'
    if w < 2:
        return 'window<2'
    if w == int(w):
        return 'window-integer'
    return 'window-fractional/floor-%s' % ('even' if int(w) % 2 == 0 else 'odd')


def check_profile(r, kind, prof, n, lo, hi, sigtail):
    """The statement's demand on one abundance profile."""
    prof = np.asarray(prof)
    if not r.check(prof.shape == (n,), 'profile-length', 'profile/%s/length/%s' % (kind, sigtail),
                   got=prof.shape, want=(n,)):
        return False
    prof = prof.astype(float)
    ok = r.check(bool(np.all(np.isfinite(prof))), 'profile-finite',
                 'profile/%s/non-finite/%s' % (kind, sigtail), got=prof)
    slack = 1e-12
    r.check(bool(np.all(prof >= lo * (1 - slack)) and np.all(prof <= hi * (1 + slack))),
            'profile-range', 'profile/%s/range/%s' % (kind, sigtail), got=prof, lo=lo, hi=hi)
    return ok


# ----------------------------------------------------------------------------------------------
# single profiles
# ----------------------------------------------------------------------------------------------
def profile_case(case):
    r = core.R(case)
    fx.reset_caches()
    ConstantGas, TwoLayerGas, TwoPointGas, ArrayGas, PowerGas = gas_classes()
    kind, n = case['type'], case['N']
    a, b = [ctl_value(v) for v in case['ctl']]
    P = pressures(n, case['prange'])
    T = temperatures(n, case['T'])
    z = np.linspace(0.0, 1e6, n)
    sigtail = 'generic'
    lo, hi = min(a, b), max(a, b)
    if kind == 'constant':
        gas = ConstantGas('H2O', a)
        lo = hi = a
    elif kind == 'twopoint':
        gas = TwoPointGas('CH4', a, b)
    elif kind == 'twolayer':
        pm = case['Pmid']
        pmin, pmax = PRANGES[case['prange']]
        Pmid = {'mid': 10 ** (0.5 * (np.log10(pmin) + np.log10(pmax))), 'default': 1e3,
                'near-top': pmin * 3.0, 'near-surface': pmax / 3.0,
                'above-surface': pmax * 1e2, 'beyond-top': pmin * 1e-2,
                'on-layer': float(P[n // 2])}[pm]
        gas = TwoLayerGas('CH4', a, b, Pmid, case['smooth'])
        sigtail = window_class(n, case['smooth'])
    elif kind == 'array':
        m = case['nodes']
        if m == 'N':
            arr = [float(v) for v in np.where(np.arange(n) % 2 == 0, a, b)]
        else:
            arr = [a, b, a, (a * b) ** 0.5, b, b, a][:m]
        # the control values as a list, a tuple or an array - the same profile
        gas = ArrayGas('H2O', {0: list, 1: tuple, 2: np.array}[(n + len(arr)) % 3](arr))
        lo, hi = min(arr), max(arr)
        sigtail = 'nodes=%s' % m
    elif kind == 'power':
        src = case['coeff']
        if src == 'known':
            gas = PowerGas(case['mol'], mix_ratio_surface=a)
        elif src == 'explicit':
            gas = PowerGas(case['mol'], mix_ratio_surface=a, alpha=1.2, beta=2.0e4, gamma=9.0)
        else:   # another molecule's law
            gas = PowerGas(case['mol'], profile_type='TiO', mix_ratio_surface=a)
        lo, hi = 0.0, a
        sigtail = 'coeff=%s' % src
    else:
        raise ValueError(kind)
    try:
        with np.errstate(all='ignore'):
            gas.initialize_profile(n, T, P, z)
            prof = gas.mixProfile
    except Exception as e:
        r.check(False, 'profile-no-exception',
                'profile/%s/raised/%s/%s' % (kind, type(e).__name__, sigtail), exc=repr(e), N=n)
        return r
    r.count('profile-no-exception')
    r.checks += 1
    check_profile(r, kind, prof, n, lo, hi, sigtail)
    r.observe(np.asarray(prof, dtype=float))
    r.nontrivial = a != b or kind in ('constant', 'power')
    return r


def profile_cases(tier):
    thorough = tier == 'thorough'
    ns = NS_QUICK if not thorough else sorted(set(list(range(2, 42)) + [45, 50, 57, 60, 75, 99, 100, 101, 150]))
    pairs = list(itertools.product(CONTROLS, CONTROLS))
    if thorough:
        env = list(itertools.product(PRANGES, TLETTERS))
    else:
        env = [('std', 'iso1000')] + [(p, 'iso1000') for p in PRANGES if p != 'std'] + \
              [('std', t) for t in TLETTERS if t != 'iso1000']
    cases = []

    def add(**kw):
        cases.append(kw)
    for n in ns:
        for pr, tl in env:
            for a in CONTROLS:
                if tl == 'iso1000':
                    add(type='constant', N=n, ctl=[a, a], prange=pr, T=tl)
                for mol, src in [('H2O', 'known'), ('Na', 'known'), ('CH4', 'explicit'), ('CO', 'other')]:
                    add(type='power', N=n, ctl=[a, a], prange=pr, T=tl, mol=mol, coeff=src)
            if tl != 'iso1000':
                continue            # the remaining types do not read the temperature
            for a, b in pairs:
                add(type='twopoint', N=n, ctl=[a, b], prange=pr, T=tl)
                for m in ([1, 2, 3, 7, 'N'] if thorough or pr == 'std' else [2]):
                    add(type='array', N=n, ctl=[a, b], prange=pr, T=tl, nodes=m)
            smooths = [10, 20, 50, 4, 1, 100, 0.5, 1.9] if thorough else [10, 20, 50, 1, 0.5]
            pmids = ['default', 'mid', 'near-top', 'near-surface', 'above-surface', 'beyond-top', 'on-layer']
            tl_pairs = pairs if (thorough or pr == 'std') else [(1e-3, 1e-6), (1e-6, 0.3), (0.5, 0.5)]
            for (a, b), pm, s in itertools.product(tl_pairs, pmids if (thorough or pr == 'std') else pmids[:3], smooths):
                add(type='twolayer', N=n, ctl=[a, b], prange=pr, T=tl, Pmid=pm, smooth=s)
    return cases, ns


# ----------------------------------------------------------------------------------------------
# mixtures
# ----------------------------------------------------------------------------------------------
def make_gas(mol, letter):
    ConstantGas, TwoLayerGas, TwoPointGas, ArrayGas, PowerGas = gas_classes()
    if letter.startswith('c:'):
        return ConstantGas(mol, float(letter[2:]))
    if letter.startswith('tp:'):
        a, b = letter[3:].split('>')
        return TwoPointGas(mol, float(a), float(b))
    if letter == 'arr':
        return ArrayGas(mol, [1e-3, 0.25, 1e-12])
    if letter == 'pow':
        if mol in ('H2O', 'Na'):
            return PowerGas(mol, mix_ratio_surface=0.25)
        return PowerGas(mol, mix_ratio_surface=0.25, alpha=1.2, beta=2.0e4, gamma=9.0)
    if letter == 'tl':
        return TwoLayerGas(mol, 0.25, 1e-6, 1e3, 10)
    raise ValueError(letter)


def install_opacities(avail, mode):
    """Make exactly `avail` the molecules with opacity data in the selected mode; the other
    mode's store holds a *different* set which must not influence the split."""
    from taurex.cache import OpacityCache, GlobalCache
    wn, Tg, Pg = fx.WN_GRIDS[3], fx.T_GRIDS[2], fx.P_GRIDS[2]
    decoy = ['CO2', 'CH4'] if 'CO2' not in avail else ['H2O']
    kdir = fx.fresh_dir('c10_ktables')
    xs = fx.table(2, 2, 3, 1e-24, salt='c10')
    kmols = avail if mode == 'ktables' else decoy
    xmols = avail if mode == 'xsec' else decoy
    for m in kmols:
        fx.write_pickle_ktable(os.path.join(kdir, m + '.R1.pickle'), m, wn, Tg, Pg,
                               np.repeat(xs[..., None], 2, axis=-1), [0.5, 0.5])
    GlobalCache()['ktable_path'] = kdir
    for m in xmols:
        OpacityCache().add_opacity(fx.TinyOp(m, wn, Tg, Pg, xs))
    if mode == 'ktables':
        GlobalCache()['opacity_method'] = 'ktables'


def mix_case(case):
    from taurex.data.profiles.chemistry import TaurexChemistry
    from taurex.exceptions import InvalidModelException
    r = core.R(case)
    fx.reset_caches()
    n = case['N']
    fill = list(FILLS[case['fill']])
    nf = len(fill)
    rl = case['ratio']
    ratios = list(RATIOS[rl][:nf - 1])
    avail = list(case['avail'])
    install_opacities(avail, case['mode'])
    if case.get('deactive', 'none') != 'none':
        # molecules switched off by the user (global deactive_molecules): treated as having no opacity data, in both
        # opacity modes alike
        from taurex.cache import GlobalCache
        GlobalCache()['deactive_molecules'] = case['deactive'].split('+')
        avail = [a_ for a_ in avail if a_ not in case['deactive'].split('+')]
    P = pressures(n, 'std')
    T = temperatures(n, case['T'])

    if nf == 1:
        chem = TaurexChemistry(fill_gases=fill[0] if rl == 'float' else fill, ratio=0.5)
    elif nf == 2 and rl == 'float':
        chem = TaurexChemistry(fill_gases=fill, ratio=0.17)
    else:
        chem = TaurexChemistry(fill_gases=fill, ratio=list(ratios))
    slots = [(m, case[m]) for m in SLOTS if case[m] != '-']
    gases = []
    for m, letter in slots:
        g = make_gas(m, letter)
        gases.append(g)
        chem.addGas(g)
    names = fill + [m for m, _ in slots]
    sig_types = '+'.join(sorted(set(l.split(':')[0] for _, l in slots))) or 'no-trace'

    # the trace profiles as the gas objects produce them (their own correctness: profile_case)
    traces = []
    try:
        with np.errstate(all='ignore'):
            for (m, letter), g in zip(slots, gases):
                probe = make_gas(m, letter)
                probe.initialize_profile(n, T, P, None)
                traces.append(np.array(probe.mixProfile, dtype=float))
    except Exception as e:
        r.check(False, 'mixture-no-exception', 'mixture/trace-profile-raised/%s/%s/%s' % (
            type(e).__name__, letter.split(':')[0],
            window_class(n, 10) if letter == 'tl' else 'generic'), exc=repr(e), N=n)
        return r
    klass = rchem.unity_class(traces)
    r.count('unity-class/' + klass)

    exc = None
    try:
        with np.errstate(all='ignore'):
            chem.initialize_chemistry(n, T, P, None)
    except InvalidModelException as e:
        exc = e
    if klass == 'invalid':
        r.check(exc is not None, 'reject-above-unity', 'mixture/accepted-above-unity/nfill=%d' % nf,
                total_max=float(max(rchem.exact_total(traces))),
                mix=None if exc is not None else chem.mixProfile)
        r.observe('rejected' if exc is not None else 'accepted')
        if exc is not None:
            # "rejected rather than producing negative fill": nothing negative is left standing on the object either
            try:
                left = chem.mixProfile
            except Exception:
                left = None
            if left is not None and np.size(left):
                r.check(bool(np.all(np.asarray(left, dtype=float) >= 0)), 'reject-above-unity',
                        'mixture/negative-fill-left-after-rejection/nfill=%d' % nf, left=np.asarray(left, float).min())
        r.nontrivial = True
        return r
    if klass == 'valid':
        if not r.check(exc is None, 'accept-at-or-below-unity', 'mixture/rejected-at-or-below-unity/%s' % (
                'exactly-one' if traces and max(rchem.exact_total(traces)) == 1 else 'below-one'),
                exc=repr(exc), total_max=float(max(rchem.exact_total(traces))) if traces else 0.0):
            return r
    elif exc is not None:
        r.observe('rejected-in-rounding-band')
        return r

    mix = np.asarray(chem.mixProfile, dtype=float)
    want = rchem.fill_mixture(traces, nf, ratios, n)
    tag = 'nfill=%d/%s' % (nf, sig_types)
    if not r.check(mix.shape == want.shape, 'mix-shape', 'mixture/shape/' + tag, got=mix.shape,
                   want=want.shape):
        return r
    r.check(list(chem.gases) == names, 'gas-order', 'mixture/gas-order/' + tag, got=list(chem.gases), want=names)
    r.check(bool(np.all(np.isfinite(mix)) and np.all(mix >= 0)), 'non-negative', 'mixture/negative/' + tag, got=mix)
    r.eq(mix.sum(axis=0), np.ones(n), 'column-sum', 'mixture/column-sum/' + tag, rtol=0, atol=1e-12)
    for k in range(1, nf):
        r.eq(mix[k], ratios[k - 1] * mix[0], 'fill-ratio', 'mixture/fill-ratio/nfill=%d/k=%d/ratio=%s' % (nf, k, rl),
             rtol=1e-9, atol=0, ratio=ratios[k - 1])
    r.eq(mix[:nf], want[:nf], 'fill-value', 'mixture/fill-value/nfill=%d/ratio=%s' % (nf, rl), rtol=1e-9, atol=1e-15)
    r.eq(mix[nf:], want[nf:], 'trace-rows', 'mixture/trace-rows/' + tag, rtol=1e-12) if traces else None
    mu = np.asarray(chem.muProfile, dtype=float)
    if r.check(mu.shape == (n,), 'mu-length', 'mixture/mu-length/' + tag, got=mu.shape):
        r.eq(mu, rchem.mu_profile(names, mix), 'mu-value', 'mixture/mu/' + tag, rtol=1e-9)
        r.eq(mu, rchem.mu_profile(names, want), 'mu-value-ref', 'mixture/mu-ref/' + tag, rtol=1e-9)

    # active / inactive split
    want_act = [g for g in names if g in avail]
    want_inact = [g for g in names if g not in avail]
    act, inact = list(chem.activeGases), list(chem.inactiveGases)
    stag = '%s/n_active=%d' % (case['mode'], len(want_act))
    oksplit = r.check(sorted(act) == sorted(want_act) and sorted(inact) == sorted(want_inact)
                      and len(set(act)) == len(act) and len(set(inact)) == len(inact),
                      'split-sets', 'split/sets/' + stag, active=act, inactive=inact,
                      want_active=want_act, want_inactive=want_inact)
    if oksplit:
        row = dict(zip(names, want))
        for lst, prof, nm in ((act, chem.activeGasMixProfile, 'active'), (inact, chem.inactiveGasMixProfile, 'inactive')):
            if len(lst) == 0:
                r.check(prof is None or np.asarray(prof).size == 0, 'split-empty', 'split/empty-%s/%s' % (nm, stag),
                        got=prof)
                continue
            prof = np.asarray(prof, dtype=float)
            if not r.check(prof.shape == (len(lst), n), 'split-shape', 'split/shape-%s/%s' % (nm, stag),
                           got=prof.shape, want=(len(lst), n)):
                continue
            r.eq(prof, np.vstack([row[g] for g in lst]), 'split-rows', 'split/rows-%s/%s' % (nm, stag),
                 rtol=1e-9, atol=1e-15, order=lst)
        for g in names:
            r.eq(chem.get_gas_mix_profile(g), row[g], 'get-gas-mix-profile', 'split/get_gas_mix_profile/' + stag,
                 rtol=1e-9, atol=1e-15, gas=g)
    r.observe(mix, mu, act, inact)
    r.nontrivial = len(traces) > 0
    return r


def chemfile_case(case):
    """A tabulated composition (one row per layer, one column per gas): gas g has in layer l the value of row l, column g
    - also when the table happens to be square."""
    import os
    from taurex.data.profiles.chemistry import ChemistryFile
    r = core.R(case)
    fx.reset_caches()
    install_opacities(['H2O', 'CH4'], 'xsec')
    n, names = case['N'], list(case['gases'])
    g = fx.rng('c10', 'chemfile', n, len(names))
    tab = g.uniform(0.01, 1.0, size=(n, len(names)))
    tab = tab / tab.sum(axis=1)[:, None]
    path = os.path.join(fx.fresh_dir('c10_chemfile'), 'chem.dat')
    np.savetxt(path, tab)
    try:
        chem = ChemistryFile(gases=list(names), filename=path)
        chem.initialize_chemistry(n, temperatures(n, 'iso1000'), pressures(n, 'std'), None)
        mix = np.asarray(chem.mixProfile, dtype=float)
    except Exception as e:
        r.check(False, 'mixture-no-exception', 'chemfile/raised/%s' % type(e).__name__, exc=repr(e))
        return r
    sq = 'square' if n == len(names) else 'oblong'
    if r.check(mix.shape == (len(names), n), 'mix-shape', 'chemfile/shape/' + sq, got=mix.shape, want=(len(names), n)):
        r.eq(mix, tab.T, 'trace-rows', 'chemfile/rows/' + sq, rtol=1e-12)
        for j, nm in enumerate(names):
            r.eq(chem.get_gas_mix_profile(nm), tab[:, j], 'get-gas-mix-profile', 'chemfile/get_gas_mix_profile/' + sq,
                 rtol=1e-12, gas=nm)
        r.eq(np.asarray(chem.muProfile, float), rchem.mu_profile(names, tab.T), 'mu-value', 'chemfile/mu/' + sq, rtol=1e-9)
    r.observe(mix)
    r.nontrivial = True
    return r



def mix_cases(tier):
    thorough = tier == 'thorough'
    dims = {}
    dims['fill'] = list(range(len(FILLS)))
    dims['ratio'] = ['std', 'one', 'tiny', 'mixed', 'float', 'int']
    for i, m in enumerate(SLOTS):
        # default letter of the first two slots is a real gas, so that the default case is a mixture
        letters = list(GAS_LETTERS)
        if i == 0:
            letters = ['c:1e-3'] + [l for l in letters if l != 'c:1e-3']
        dims[m] = letters
    dims['N'] = [5, 2, 3, 13, 30, 100]
    dims['T'] = ['iso1000', 'dec', 'cold']
    dims['avail'] = AVAIL
    dims['mode'] = ['xsec', 'ktables']
    # (pairs that stand next to each other in the list of available molecules, and all four absorbers)
    dims['deactive'] = ['none', 'H2O', 'CH4+Na', 'H2O+CH4', 'CO+Na', 'H2O+CH4+CO+Na']
    if not thorough:
        cases = core.product_cases(dims, core=['H2O', 'CH4', 'CO'], d=2)
        cases += core.product_cases(dims, core=['avail', 'mode', 'deactive'], d=0)
        cases += [c for c in core.product_cases(dims, core=['fill', 'ratio', 'avail', 'mode'], d=0)
                  if c not in cases[:0]]
        cases += core.product_cases(dims, core=['fill', 'ratio', 'H2O', 'N'], d=0)
        # every fill list x every pair of trace profiles (the pairs decide accept / reject)
        cases += core.product_cases(dims, core=['fill', 'H2O', 'CH4'], d=0)
    else:
        cases = core.product_cases(dims, core=SLOTS, d=2)
        cases += core.product_cases(dims, core=['fill', 'ratio', 'avail', 'mode', 'H2O', 'N'], d=0)
        cases += core.product_cases(dims, core=['fill', 'ratio', 'H2O', 'CH4', 'Na'], d=0)
        cases += core.product_cases(dims, core=['avail', 'mode', 'H2O', 'CH4', 'CO', 'fill'], d=0)
    seen = set()
    out = []
    for c in cases:
        k = repr(sorted(c.items()))
        if k not in seen:
            seen.add(k)
            out.append(c)
    return out, dims


# ---------------------------------------------------------------------------------------------
# history phase: composition parameters updated on one live chemistry/model, every sequence up to
# the depth bound, against a fresh model with the net settings and the mixture invariants
# ---------------------------------------------------------------------------------------------
HIST_ALPHABET = [['He_H2', 0.05], ['He_H2', 1.0], ['N2_H2', 1e-3], ['N2_H2', 0.4], ['H2O', 1e-7], ['H2O', 0.2],
                 ['CH4', 1e-5], ['CH4', 0.5], ['CO', 0.0], ['CO', 0.29], ['T', 700.0]]
HIST_REDUCED = [['He_H2', 0.05], ['He_H2', 1.0], ['H2O', 0.2], ['CH4', 0.5], ['N2_H2', 0.4]]


def hist_build(case, net=None):
    from mc import fixtures as fx, rthist
    from taurex.cache import OpacityCache
    fx.reset_caches()
    for mol in ('H2O', 'CH4'):
        OpacityCache().add_opacity(fx.TinyOp(mol, fx.WN_GRIDS[4], fx.T_GRIDS[3], fx.P_GRIDS[3],
                                             fx.table(3, 3, 4, 1e-27, salt=('c10h', mol))))
    if case.get('defaults'):
        # chemistry built with its documented default fill gases and ratio (nothing passed explicitly)
        from taurex.data.profiles.chemistry import TaurexChemistry, ConstantGas
        from taurex.model import TransmissionModel
        from taurex.contributions import AbsorptionContribution
        from taurex.data.profiles.temperature import Isothermal
        chem = TaurexChemistry()
        for mol, x in (('H2O', 1e-4), ('CH4', 1e-6), ('CO', 1e-3)):
            chem.addGas(ConstantGas(mol, mix_ratio=x))
        m = TransmissionModel(nlayers=case['N'], atm_min_pressure=1e-1, atm_max_pressure=1e6, chemistry=chem,
                              temperature_profile=Isothermal(T=1200.0))
        m.add_contribution(AbsorptionContribution())
        m.build()
        return m
    spec = {'kind': 'transmission', 'N': case['N'], 'T': ['iso', 1200.0],
                           # 'intratio': the ratios are given as whole Python numbers (a list of ints)
                           'fill': [['H2', 'He', 'N2'], [1, 2] if case.get('intratio') else [0.17, 0.01]],
                           'gases': [['H2O', ['const', 1e-4]], ['CH4', ['const', 1e-6]], ['CO', ['const', 1e-3]]],
                           'contribs': ['abs']}
    if net is not None:
        spec, rest = rthist.spec_with_net(spec, net)
        return fx.build_model(spec), rest
    return fx.build_model(spec)


def _mix_eval(r, live, fresh, sig, net=None):
    lc, fc = live.chemistry, fresh.chemistry
    r.check(list(lc.activeGases) == list(fc.activeGases) and list(lc.inactiveGases) == list(fc.inactiveGases),
            'history-gas-lists', 'history-gases/' + sig)
    la, fa = np.asarray(lc.activeGasMixProfile, float), np.asarray(fc.activeGasMixProfile, float)
    li, fi = np.asarray(lc.inactiveGasMixProfile, float), np.asarray(fc.inactiveGasMixProfile, float)
    r.eq(la, fa, 'history-mixture', 'history-active/' + sig, rtol=1e-12, atol=0.0)
    r.eq(li, fi, 'history-mixture', 'history-inactive/' + sig, rtol=1e-12, atol=0.0)
    r.eq(np.asarray(lc.muProfile, float), np.asarray(fc.muProfile, float), 'history-mu', 'history-mu/' + sig, rtol=1e-12)
    tot = la.sum(axis=0) + li.sum(axis=0)
    r.eq(tot, np.ones_like(tot), 'history-sum-to-one', 'history-sum/' + sig, rtol=0.0, atol=1e-12)
    r.check(bool(np.all(la >= 0) and np.all(li >= 0)), 'history-non-negative', 'history-negative/' + sig)
    names = list(lc.inactiveGases)
    if 'H2' in names and 'He' in names:
        h2, he = li[names.index('H2')], li[names.index('He')]
        want = live.fittingParameters['He_H2'][2]()
        r.eq(he / h2, np.full_like(h2, want), 'history-fill-ratio', 'history-fill-ratio/' + sig, rtol=1e-9)
        # ... and the ratio that was asked for (not what the object reports back)
        for key, gas in (('He_H2', 'He'), ('N2_H2', 'N2')):
            if net and key in net and gas in names:
                r.eq(li[names.index(gas)] / h2, np.full_like(h2, float(net[key])), 'history-fill-ratio',
                     'history-fill-ratio-requested/' + sig, rtol=1e-9, requested=net[key])


_mix_eval.wants_net = True


def hist_fn(case):
    from mc import rthist, core as _core
    from taurex.exceptions import InvalidModelException
    r = _core.R(case)
    # histories that drive the traces above one must be rejected, live and fresh alike: skip the comparison then
    tot = {'H2O': 1e-4, 'CH4': 1e-6, 'CO': 1e-3}
    hist = []
    for op in case['hist']:
        if op[0] in tot:
            tot[op[0]] = op[1]
        if sum(tot.values()) > 1.0:
            break
        hist.append(op)
    rthist.run_history(r, hist, lambda: hist_build(case), 'composition', extra_eval=_mix_eval,
                       build_with=(None if case.get('defaults') else (lambda net: hist_build(case, net))), as_numpy=bool(case.get('np')))
    if len(hist) < len(case['hist']):
        # the next update makes the traces exceed one: the live model must reject it as invalid
        live = hist_build(case)
        rthist.evaluate(live)
        for op in hist + [case['hist'][len(hist)]]:
            rthist.apply_op(live, op)
        try:
            rthist.evaluate(live)
            r.check(False, 'history-rejects-above-unity', 'history-no-rejection')
        except InvalidModelException:
            r.check(True, 'history-rejects-above-unity')
            try:
                left = live.chemistry.mixProfile
            except Exception:
                left = None
            if left is not None and np.size(left):
                r.check(bool(np.all(np.asarray(left, dtype=float) >= 0)), 'history-rejects-above-unity',
                        'history-negative-fill-left-after-rejection', left=float(np.asarray(left, float).min()))
    return r


# ---------------------------------------------------------------------------------------------
# species-name phase: every ordered pair of formulas from a name alphabet in one mixture, several mixtures per
# process; the alphabet holds names that differ only by letter case (CO / Co, CS / Cs, NO / No, HF / Hf), nested
# counts and multi-letter elements, so that any name normalisation or process-wide memo of weights collides
# ---------------------------------------------------------------------------------------------
NAMES = ['CO', 'Co', 'CS', 'Cs', 'NO', 'No', 'HF', 'Hf', 'SiO', 'SIO', 'C2H2', 'NH3', 'TiO', 'Na', 'PH3', 'HCl', 'CaH',
         'MgH', 'AlO', 'Ne', 'Ar', 'LiH',
         # bracket groups with a multiplier, before and after other elements, sharing elements with what precedes them
         'C(CH3)4', 'CH3(CH2)2CH3', 'SO2(OH)2', '(CH3)2CO', 'Mg(OH)2', 'Al2(SO4)3',
         # atom counts and group multipliers of ten and more
         'C4H10', 'C10H8', 'C6H12O6', 'C(CH3)12']


def names_case(case):
    from taurex.data.profiles.chemistry import TaurexChemistry, ConstantGas
    from taurex.util.util import get_molecular_weight
    r = core.R(case)
    fx.reset_caches()
    a, b = case['pair']
    n = 3
    P = pressures(n, 'std')
    T = temperatures(n, 'iso1000')
    chem = TaurexChemistry(fill_gases=['H2', 'He'], ratio=0.17)
    chem.addGas(ConstantGas(a, mix_ratio=0.2))
    if b != a:
        chem.addGas(ConstantGas(b, mix_ratio=0.1))
    chem.initialize_chemistry(n, T, P, None)
    names = ['H2', 'He', a] + ([b] if b != a else [])
    mix = np.asarray(chem.mixProfile, dtype=float)
    if r.check(mix.shape == (len(names), n) and list(chem.gases) == names, 'names-shape', 'names/shape',
               got=list(chem.gases), want=names):
        r.eq(np.asarray(chem.muProfile, float), rchem.mu_profile(names, mix), 'mu-value', 'names/mu', rtol=1e-9,
             species=[a, b])
    for g in names:
        r.eq(get_molecular_weight(g), rchem.molecular_mass_kg(g), 'molecular-weight', 'names/weight', rtol=1e-9,
             species=g, after=[a, b])
    r.observe(np.asarray(chem.muProfile, float))
    r.nontrivial = a != b
    return r


def explore(ctx):
    nc = [{'pair': [a, b]} for a in NAMES for b in NAMES]
    ctx.bounds.update(name_pairs=len(nc))
    ctx.run_cases('names_case', nc, phase='names')
    pc, ns = profile_cases(ctx.tier)
    ctx.bounds.update(profile_layer_counts=ns, profile_cases=len(pc))
    ctx.run_cases('profile_case', pc, phase='profile')
    mc_, dims = mix_cases(ctx.tier)
    ctx.bounds.update(mix_cases=len(mc_), mix_dims={k: len(v) for k, v in dims.items()},
                      mix_deviations=2)
    ctx.run_cases('mix_case', mc_, phase='mix')
    GL = ['H2O', 'CH4', 'H2', 'He', 'N2', 'CO2']
    cf = [{'N': n_, 'gases': GL[:k_]} for k_ in (2, 3, 4, 5, 6) for n_ in (2, 3, 4, 5, 6, 7, 10)]
    ctx.run_cases('chemfile_case', cf, phase='tabulated-composition')
    from mc import rthist
    if ctx.tier == 'thorough':
        hs = rthist.histories(HIST_ALPHABET, 3, HIST_REDUCED, 4)
        ns_ = [3, 2]
    else:
        hs = rthist.histories(HIST_ALPHABET, 2, HIST_REDUCED, 3)
        ns_ = [3]
    hcases = [{'N': n, 'hist': h} for n in ns_ for h in hs]
    hcases += [{'N': 3, 'hist': h, 'defaults': True} for h in hs if all(o[0] != 'N2_H2' for o in h) and len(h) <= 2]
    hcases += [{'N': 3, 'hist': h, 'intratio': True} for h in hs if len(h) <= 2]
    ctx.bounds.update(histories=len(hcases), history_depth=3 if ctx.tier == 'thorough' else 2)
    # every single update once more with the value handed over as a numpy float64 scalar
    hcases += [dict(c_, np=True) for c_ in hcases if len(c_['hist']) == 1]
    ctx.run_cases('hist_fn', hcases, phase='histories')
