"""C15 - an input file builds exactly the documented object graph (DESIGN.md section 4, C15).

Engine E1.  The documented interface (mc/docspec.py, transcribed from doc/source/user/taurex/*.rst
and cross-checked against the .rst files of the working tree at run time) is the alphabet; every
case is a generated .par text that goes through the real ParameterParser.read -> generate_*()
(and, for the CLI clause, through taurex.taurex.main() in-process).

phases
  doc      every transcribed selector / key occurs literally in the .rst of the working tree
  sel      selector -> exactly one discovered class, the documented one; object is built
  key      each constructor key x value letter arrives (spy on the class's __init__) typed as
           written; everything else at the signature default
  err      unknown selector / unknown key / key of a sibling selector / documented-but-unknown key
           raise instead of being ignored
  obs      [Observation] keys
  mixin    'mixin+base' composites
  custom   `custom` + generated python file
  aux      [Fitting] (incl. priors), [Derive], [Binning]
  cli      taurex.taurex.main() -i -S -o   vs   the same components built through the library
"""
import contextlib
import importlib
import io
import itertools
import os
import sys

import numpy as np

from mc import core, docspec, fixtures as fx
from mc import docspec_util as du

ID = 'C15'
RULE = ('documented selectors (plugin-only / optional-dependency ones excluded) x constructor keys '
        'of the resolved class x value letters {omitted, default, number, scientific, integer '
        'literal, list of 1/2/3, true/yes/false/no spellings, word, quoted string}: quick = <= 1 key '
        'set per file, thorough = all pairs of keys; error letters per selector; every mixin+base '
        'composite; custom file per section; CLI: model type x binning full product + <= 1 other '
        'deviation (thorough: full product).  A case is non-trivial when a non-default value had '
        'to arrive, an error had to be raised, or the CLI spectrum is non-flat.')
ASSUME = ['configobj, numpy, h5py, numba trusted',
          'the keys of a component section are the keyword arguments of the resolved constructor; '
          'documented key / default / class names that differ from the code are reported as '
          'informational notes, not violations (the property does not say which side is right)',
          'plugin components (ace, BHMie) and samplers whose python package is not installed '
          '(polychord, dypolychord) are out of scope',
          'a missing selector key is not demanded to raise (statement names unknown selector / '
          'unknown key only)',
          'numbers are compared numerically (a documented int may arrive as float)']

SIMPLE = ('Temperature', 'Pressure', 'Planet', 'Star', 'Optimizer', 'Instrument', 'Chemistry')
MIN_CHEM = ('Chemistry', [('chemistry_type', 'taurex')])
# keys handled by the parser itself, not by a constructor
PARSER_KEYS = {'Instrument': [('num_observations', 1, 'int')]}
UNKNOWN = 'zz_unknown_key'
OBS_MODULES = {'TaurexSpectrum': 'taurex.data.spectrum.taurex',
               'ObservedSpectrum': 'taurex.data.spectrum.observed',
               'IraclisSpectrum': 'taurex.data.spectrum.iraclis',
               'ObservedLightCurve': 'taurex.data.spectrum.lightcurve'}


# ----------------------------------------------------------------------------------------------
# shared helpers
# ----------------------------------------------------------------------------------------------
def repo_root():
    return os.environ.get('VERIF_REPO', '/repo')


def tree_for(sec, sel_raw, items):
    S = docspec.SECTIONS[sec]
    head = [] if sel_raw is None else [(S['selkey'], sel_raw)]
    if sec in SIMPLE:
        return [(sec, head + items)]
    if sec == 'Gas':
        return [('Chemistry', [('chemistry_type', 'taurex'), ('H2O', head + items)])]
    if sec == 'Model':
        return [MIN_CHEM, ('Model', head + items)]
    if sec == 'Contribution':
        return [MIN_CHEM, ('Model', [('model_type', 'transmission'), (sel_raw, items)])]
    raise ValueError(sec)


def selector_form(sel, form):
    if form == 'cap':
        return sel[:1].upper() + sel[1:]
    if form == 'upper':
        return sel.upper()
    return sel


def in_scope(sec, sel):
    """False for selectors the documentation itself moves to plugins, and for classes whose
    optional python dependency is absent (unless the class is discovered anyway)."""
    import importlib.util
    spec = docspec.SECTIONS[sec]['selectors'][sel]
    if spec.get('plugin'):
        return False
    req = spec.get('requires')
    if req and importlib.util.find_spec(req) is None:
        return len(du.resolve(docspec.SECTIONS[sec]['family'], sel)) > 0
    return True


def scope():
    out = []
    for sec, S in docspec.SECTIONS.items():
        for sel in S['selectors']:
            if in_scope(sec, sel):
                out.append((sec, sel))
    return out


def klass_of(sec, sel):
    S = docspec.SECTIONS[sec]
    return du.by_name(S['family'], S['selectors'][sel]['cls'])


def key_alphabet(sec, sel):
    """[(key, default, ktype, [(letter, raw, expected)])] for the resolved class's constructor."""
    klass = klass_of(sec, sel)
    if klass is None:
        return []
    spec = docspec.SECTIONS[sec]['selectors'][sel]
    out = []
    for name, default in du.ctor_params(klass.__init__):
        doc = spec['keys'].get(name)
        kt = du.key_type(klass.__name__, name, default, doc[0] if doc else None)
        if kt == du.SKIP:
            continue
        out.append((name, default, kt, du.letters(klass.__name__, name, default, kt)))
    for name, default, kt in PARSER_KEYS.get(sec, []):
        out.append((name, default, kt, du.letters('<parser>', name, default, kt)))
    return out


def base_items(sec, sel, files, override=()):
    """(items, expected) of the keys a well-formed section of this selector always carries."""
    items, exp = [], {}
    for k, raw, want in du.BASEKEYS.get((sec, sel), []):
        if k in override:
            continue
        items.append((k, du.subst(raw, files)))
        exp[k] = du.subst(want, files)
    return items, exp


def generate(pp, sec):
    return getattr(pp, docspec.SECTIONS[sec]['generate'])()


def built_objects(sec, obj):
    """The component objects of the requested section inside what generate_*() returned."""
    if sec == 'Gas':
        return list(getattr(obj, '_gases', []))
    if sec == 'Contribution':
        return list(getattr(obj, 'contribution_list', []))
    if sec == 'Instrument':
        return [obj[0]] if isinstance(obj, tuple) else [obj]
    return [obj]


def scratch():
    d = fx.fresh_dir('c15')
    return d, du.data_files(d)


def begin():
    fx.reset_caches()
    return scratch()


def exc_sig(e):
    return type(e).__name__


# ----------------------------------------------------------------------------------------------
# phase doc: the transcription still matches the .rst files
# ----------------------------------------------------------------------------------------------
def doc_case(case):
    r = core.R(case)
    res = docspec.crosscheck(repo_root())
    for rst, tok, kind, found in res:
        if rst != case['rst']:
            continue
        r.check(found, 'docspec-in-rst', 'docspec-stale/%s/%s/%s' % (rst, kind, tok),
                token=tok, file=rst)
    r.observe(case['rst'], [x[1] for x in res if x[0] == case['rst']])
    return r


# ----------------------------------------------------------------------------------------------
# phase sel: selector -> exactly one class, the documented one
# ----------------------------------------------------------------------------------------------
def sel_case(case):
    r = core.R(case)
    d, files = begin()
    sec, sel, form = case['sec'], case['sel'], case['form']
    S = docspec.SECTIONS[sec]
    spec = S['selectors'][sel]
    tag = '%s/%s' % (sec, sel)
    found = du.resolve(S['family'], sel, reload=True)
    names = sorted(k.__name__ for k in found)
    r.observe(tag, form, names)
    r.nontrivial = True
    if not r.check(len(found) >= 1, 'selector-resolves', 'selector-unresolved/' + tag,
                   selector=sel, family=S['family'],
                   discovered=[k.__name__ for k in du.family(S['family'])]):
        return r
    r.check(len(found) == 1, 'selector-unique', 'selector-ambiguous/' + tag, classes=names)
    r.check(names == [spec['cls']], 'selector-documented-class', 'selector-wrong-class/' + tag,
            got=names, want=spec['cls'])
    # the mixin lists must not claim a plain selector either (a '+' part is looked up there)
    klass = found[0]
    items, exp = base_items(sec, sel, files)
    raw_sel = selector_form(sel, form) if S['selkey'] else sel
    text = du.par_text(tree_for(sec, raw_sel, items))
    with du.Spies() as sp:
        sp.on(klass, label='K')
        try:
            pp = du.parser_for(d, text)
            obj = generate(pp, sec)
            err = None
        except Exception as e:
            obj, err = None, e
    calls = sp.of('K')
    if err is not None and len(calls) == 1 and klass.__name__ in du.BODY_MAY_FAIL:
        r.count('ctor-body-needs-external-data')
        return r
    if not r.check(err is None, 'builds', 'build-raised/%s/%s/%s' % (tag, form, exc_sig(err)),
                   exc=repr(err), text=text):
        return r
    objs = built_objects(sec, obj)
    r.check(len(calls) == 1 and len(objs) == 1 and type(objs[0]) is klass and calls[0][1] is objs[0],
            'instance-of-resolved-class', 'wrong-instance/%s/%s' % (tag, form),
            got=[type(o).__name__ for o in objs], want=klass.__name__, ctor_calls=len(calls))
    return r


# ----------------------------------------------------------------------------------------------
# phase key: values arrive in the constructor
# ----------------------------------------------------------------------------------------------
def check_arrival(r, tag, klass, func, got, want, ktypes, set_letters):
    """got: {param: value} seen by the spy; want: {param: expected} for keys in the file."""
    for name, default in du.ctor_params(func):
        if name not in got:
            continue
        if name in want:
            lt = set_letters.get(name, 'base')
            r.check(du.same_value(got[name], want[name]), 'value-arrives',
                    'value/%s/%s/%s' % (tag, name, lt), key=name, got=du.short(got[name]),
                    got_type=type(got[name]).__name__, want=du.short(want[name]))
        elif name in du.OBJECT_SLOTS:
            continue
        elif default is not du.inspect.Parameter.empty:
            r.check(du.is_default(got[name], default), 'default-otherwise',
                    'default/%s/%s' % (tag, name), key=name, got=du.short(got[name]),
                    default=du.short(default))


def key_case(case):
    r = core.R(case)
    d, files = begin()
    sec, sel = case['sec'], case['sel']
    tag = '%s/%s' % (sec, sel)
    klass = klass_of(sec, sel)
    if klass is None:
        r.check(False, 'selector-resolves', 'selector-unresolved/' + tag)
        return r
    found = du.resolve(docspec.SECTIONS[sec]['family'], sel)
    if found != [klass]:
        # which class the factory picks would depend on set iteration order: not explored further
        r.check(False, 'selector-unique', 'selector-ambiguous/' + tag,
                classes=sorted(k.__name__ for k in found))
        return r
    alpha = dict((k, (dflt, kt, dict((l, (raw, want)) for l, raw, want in ls)))
                 for k, dflt, kt, ls in key_alphabet(sec, sel))
    setl = dict((k, l) for k, l in case['set'])
    for k, l in list(setl.items()):
        comp = du.COMPANION.get((klass.__name__, k))
        if comp and comp not in setl and l in alpha[comp][2]:
            setl[comp] = l
    items, want = base_items(sec, sel, files, override=setl)
    parser_want = {}
    for k, l in sorted(setl.items()):
        raw, exp = alpha[k][2][l]
        items.append((k, du.subst(raw, files)))
        if k in [p[0] for p in PARSER_KEYS.get(sec, [])]:
            parser_want[k] = exp
        else:
            want[k] = du.subst(exp, files)
    text = du.par_text(tree_for(sec, sel, items))
    keys = '+'.join(sorted(setl)) or '-'
    if setl and any(l != 'dflt' for l in setl.values()):
        r.nontrivial = True
    holder = {}

    def build_round(again):
        """One generate_*() on the parser; again=True: a second generation from the same, already used parser (a
        section is read as often as the caller asks: the file, not the history of the parser, decides)."""
        pre = 'again/' if again else ''
        with du.Spies() as sp:
            sp.on(klass, label='K')
            try:
                if not again:
                    holder['pp'] = du.parser_for(d, text)
                obj = generate(holder['pp'], sec)
                err = None
            except Exception as e:
                obj, err = None, e
        calls = sp.of('K')
        r.observe(pre + tag, sorted(setl.items()), [sorted((k, du.short(v)) for k, v in c[2].items()
                                                           if k not in du.OBJECT_SLOTS) for c in calls],
                  type(err).__name__)
        if len(calls) == 0:
            r.check(False, 'reaches-constructor', '%sbuild-raised/%s/%s/%s' % (pre, tag, keys, exc_sig(err)),
                    exc=repr(err), text=text)
            return False
        r.check(len(calls) == 1, 'one-construction', '%sctor-calls/%s' % (pre, tag), n=len(calls))
        got = calls[0][2]
        check_arrival(r, pre + tag, klass, klass.__init__, got, want,
                      dict((k, v[1]) for k, v in alpha.items()), setl)
        if sec == 'Gas':
            r.check(got.get('molecule_name') == 'H2O', 'value-arrives', 'value/%s%s/molecule_name' % (pre, tag),
                    got=got.get('molecule_name'))
        if sec == 'Model':
            chem = got.get('chemistry')
            r.check(type(chem).__name__ == 'TaurexChemistry', 'model-wiring', 'wiring/%s%s/chemistry' % (pre, tag),
                    got=type(chem).__name__)
        if err is not None:
            if klass.__name__ in du.BODY_MAY_FAIL:
                r.count('ctor-body-needs-external-data')
            else:
                # a value the class itself refuses (a zero opacity, no layers): the file path fails exactly as the
                # library call with the arguments that arrived does
                try:
                    klass(**dict(got))
                    lib_err = None
                except Exception as e2:
                    lib_err = e2
                if lib_err is not None and type(lib_err) is type(err) and str(lib_err) == str(err):
                    r.count('ctor-refuses-value-as-the-library-call-does')
                else:
                    r.check(False, 'constructor-accepts', '%sctor-raised/%s/%s/%s' % (pre, tag, keys, exc_sig(err)),
                            exc=repr(err), text=text, library_call=repr(lib_err))
            return False
        objs = built_objects(sec, obj)
        r.check(len(objs) == 1 and type(objs[0]) is klass and calls[0][1] is objs[0],
                'instance-of-resolved-class', '%swrong-instance/%s' % (pre, tag),
                got=[type(o).__name__ for o in objs])
        for k, dflt, kt in PARSER_KEYS.get(sec, []):
            val = obj[1] if isinstance(obj, tuple) and len(obj) > 1 else None
            if k in parser_want:
                r.check(du.same_value(val, parser_want[k]), 'value-arrives',
                        'value/%s%s/%s/%s' % (pre, tag, k, setl[k]), got=du.short(val), want=parser_want[k])
            else:
                r.check(du.is_default(val, dflt), 'default-otherwise', 'default/%s%s/%s' % (pre, tag, k),
                        got=du.short(val), default=dflt)
        return True

    if build_round(False):
        build_round(True)
    # a second input file read afterwards in the same process selects the same component and sets none of the keys:
    # every one of them arrives with the default of the class (what the first file said is not remembered)
    if setl and any(l != 'dflt' for l in setl.values()):
        items2, want2 = base_items(sec, sel, files)
        text2 = du.par_text(tree_for(sec, sel, items2))
        with du.Spies() as sp2:
            sp2.on(klass, label='K')
            try:
                generate(du.parser_for(d, text2), sec)
            except Exception:
                pass
        calls2 = sp2.of('K')
        if r.check(len(calls2) >= 1, 'reaches-constructor', 'second-file/build-raised/%s' % tag, text=text2):
            check_arrival(r, 'second-file/' + tag, klass, klass.__init__, calls2[0][2], want2,
                          dict((k, v[1]) for k, v in alpha.items()), {})
    return r


# ----------------------------------------------------------------------------------------------
# phase err: unknown things are reported
# ----------------------------------------------------------------------------------------------
def first_valid_item(sec, sel, files):
    for k, dflt, kt, ls in key_alphabet(sec, sel):
        if (sec, k) in [(s, p[0]) for s, ps in PARSER_KEYS.items() for p in ps]:
            continue
        for l, raw, want in ls:
            if l != 'dflt' and k not in [b[0] for b in du.BASEKEYS.get((sec, sel), [])]:
                return (k, du.subst(raw, files))
    return None


def err_case(case):
    r = core.R(case)
    d, files = begin()
    sec, sel, kind = case['sec'], case['sel'], case['kind']
    tag = '%s/%s' % (sec, sel)
    items, _ = base_items(sec, sel, files)
    raw_sel = sel
    key = case.get('key')
    if kind == 'unknown_selector':
        raw_sel = 'ZzNoSuch' if sec == 'Contribution' else 'zz_nosuch'
    elif kind == 'unknown_key':
        items = items + [(UNKNOWN, '1')]
    elif kind == 'unknown_key_first':
        items = [(UNKNOWN, 'abc')] + items
    elif kind == 'unknown_key_list':
        items = items + [(UNKNOWN, '1, 2')]
    elif kind == 'unknown_key_after_valid':
        v = first_valid_item(sec, sel, files)
        items = items + ([v] if v else []) + [(UNKNOWN, '1')]
    elif kind in ('foreign_key', 'doc_key_rejected'):
        items = items + [(key, '1')]
    elif kind == 'missing_selector':
        raw_sel = None
    text = du.par_text(tree_for(sec, raw_sel, items))
    try:
        pp = du.parser_for(d, text)
        obj = generate(pp, sec)
        err = None
    except Exception as e:
        obj, err = None, e
    r.observe(tag, kind, key, type(err).__name__)
    r.nontrivial = True
    if kind == 'missing_selector':
        r.checks += 1
        r.count('missing-selector-' + ('raises' if err is not None else 'accepted'))
        return r
    if kind == 'doc_key_rejected':
        r.count('documented-key-not-accepted-by-code')
    r.check(err is not None, 'unknown-is-error',
            'ignored/%s/%s%s' % ('unknown_key' if kind.startswith('unknown_key') else kind, tag,
                                 '/' + key if key else ''),
            text=text, built=[type(o).__name__ for o in built_objects(sec, obj)] if err is None else None)
    return r


# ----------------------------------------------------------------------------------------------
# phase obs: [Observation]
# ----------------------------------------------------------------------------------------------
def obs_case(case):
    r = core.R(case)
    d, files = begin()
    key, kind = case['key'], case['kind']
    clsname = docspec.OBSERVATION['keys'][key]
    klass = du.by_name('observation', clsname)
    if klass is None and clsname in OBS_MODULES:
        # not exported to the class factory; the parser imports it from its module
        try:
            klass = getattr(importlib.import_module(OBS_MODULES[clsname]), clsname)
        except Exception:
            klass = None
    path = files['@obsfile'] if key == 'observed_spectrum' else files['@nofile']
    items = [(key, path)]
    if kind == 'self':
        items = [(key, 'self')]
    elif kind == 'unknown_after':
        items = items + [(UNKNOWN, '1')]
    elif kind == 'unknown_before':
        items = [(UNKNOWN, '1')] + items
    elif kind == 'unknown_alone':
        items = [(UNKNOWN, '1')]
    text = du.par_text([('Observation', items)])
    with du.Spies() as sp:
        if klass is not None:
            sp.on(klass, label='K')
        try:
            obj = du.parser_for(d, text).generate_observation()
            err = None
        except Exception as e:
            obj, err = None, e
    calls = sp.of('K')
    r.observe(key, kind, type(err).__name__, len(calls), type(obj).__name__)
    r.nontrivial = True
    if kind == 'self':
        r.check(err is None and obj == 'self', 'observation-self', 'observation/self', exc=repr(err))
        return r
    if kind.startswith('unknown'):
        r.check(err is not None and len(calls) == 0, 'unknown-is-error',
                'ignored/unknown_key/Observation', text=text, key=key,
                built=type(obj).__name__, exc=repr(err))
        return r
    # kind == 'build'
    if len(calls) == 0 and err is not None:
        # the documented key is not known to the code: reported as an error (not ignored)
        r.checks += 1
        r.count('documented-key-not-accepted-by-code')
        return r
    if not r.check(len(calls) == 1, 'reaches-constructor', 'observation-ignored/' + key,
                   built=type(obj).__name__, exc=repr(err)):
        return r
    r.check(du.same_value(calls[0][2].get('filename'), path), 'value-arrives',
            'value/Observation/%s/filename' % key, got=du.short(calls[0][2]))
    if err is None:
        r.check(type(obj) is klass, 'instance-of-resolved-class', 'wrong-instance/Observation/' + key,
                got=type(obj).__name__)
    else:
        r.check(clsname in du.BODY_MAY_FAIL, 'constructor-accepts',
                'ctor-raised/Observation/%s/%s' % (key, exc_sig(err)), exc=repr(err))
    return r


# ----------------------------------------------------------------------------------------------
# enumeration
# ----------------------------------------------------------------------------------------------
def doc_notes(ctx):
    """Informational: documented key / default / class names that differ from the code."""
    for sec, sel in scope():
        spec = docspec.SECTIONS[sec]['selectors'][sel]
        klass = klass_of(sec, sel)
        if klass is None:
            continue
        params = dict(du.ctor_params(klass.__init__))
        for p in PARSER_KEYS.get(sec, []):
            params[p[0]] = p[1]
        for k, (typ, dflt) in spec['keys'].items():
            if k not in params:
                ctx.notes.append('doc_key_mismatch %s/%s: documented key %r is not a keyword of %s%s'
                                 % (sec, sel, k, klass.__name__, tuple(
                                     p for p in params if p not in du.OBJECT_SLOTS)))
                ctx.counters['doc_key_mismatches'] = ctx.counters.get('doc_key_mismatches', 0) + 1
                continue
            if dflt in (None, '', 'None', '**Required**'):
                continue
            try:
                dv = float(dflt)
            except ValueError:
                continue
            cv = params[k]
            if isinstance(cv, (int, float)) and not isinstance(cv, bool) and float(cv) != dv:
                ctx.notes.append('doc_default_mismatch %s/%s/%s: documented %s, signature %r'
                                 % (sec, sel, k, dflt, cv))
                ctx.counters['doc_default_mismatches'] = \
                    ctx.counters.get('doc_default_mismatches', 0) + 1
        if spec.get('doc_cls') and spec['doc_cls'] != spec['cls']:
            ctx.notes.append('doc_class_mismatch %s/%s: page names class %s, code defines %s'
                             % (sec, sel, spec['doc_cls'], spec['cls']))
    for sec, S in docspec.SECTIONS.items():
        for sel in S['selectors']:
            if not in_scope(sec, sel):
                ctx.notes.append('out of scope: %s %s (%s)' % (sec, sel, 'plugin' if S['selectors'][sel].get(
                    'plugin') else 'python package %s not installed' % S['selectors'][sel].get('requires')))
    ctx.notes = sorted(set(ctx.notes))


def enumerate_basic(ctx):
    sc = scope()
    docs = sorted(set(x[0] for x in docspec.expected_tokens()))
    ctx.run_cases('doc_case', [{'rst': f} for f in docs], phase='doc', serial=True)

    sel_cases = []
    for sec, sel in sc:
        forms = ['asdoc']
        if docspec.SECTIONS[sec]['selkey']:
            forms += ['cap', 'upper']
        for f in forms:
            sel_cases.append({'sec': sec, 'sel': sel, 'form': f})
    ctx.run_cases('sel_case', sel_cases, phase='sel')

    key_cases, err_cases = [], []
    npairs = 0
    for sec, sel in sc:
        alpha = key_alphabet(sec, sel)
        if klass_of(sec, sel) is None:
            continue
        key_cases.append({'sec': sec, 'sel': sel, 'set': []})
        for k, dflt, kt, ls in alpha:
            for l, raw, want in ls:
                key_cases.append({'sec': sec, 'sel': sel, 'set': [[k, l]]})
        if ctx.tier == 'thorough':
            for (k1, _, _, l1), (k2, _, _, l2) in itertools.combinations(alpha, 2):
                a = [x for x in l1 if x[0] != 'dflt']
                b = [x for x in l2 if x[0] != 'dflt']
                coupled = du.COMPANION.get((klass_of(sec, sel).__name__, k1)) == k2
                for x, y in itertools.product(a, b):
                    if coupled and x[0] != y[0]:
                        continue      # only well-formed together with equally many entries
                    key_cases.append({'sec': sec, 'sel': sel, 'set': [[k1, x[0]], [k2, y[0]]]})
                    npairs += 1
        # error letters
        kinds = ['unknown_key', 'unknown_key_first', 'unknown_key_list', 'unknown_key_after_valid',
                 'unknown_selector', 'missing_selector']
        if sec == 'Contribution':
            kinds.remove('missing_selector')
        for kind in kinds:
            err_cases.append({'sec': sec, 'sel': sel, 'kind': kind})
        mine = set(k for k, _, _, _ in alpha) | du.OBJECT_SLOTS | set(
            n for n, _ in du.ctor_params(klass_of(sec, sel).__init__))
        foreign = set()
        for other in docspec.SECTIONS[sec]['selectors']:
            if in_scope(sec, other) and klass_of(sec, other) is not None:
                foreign |= set(k for k, _, _, _ in key_alphabet(sec, other)) - mine
        for k in sorted(foreign):
            err_cases.append({'sec': sec, 'sel': sel, 'kind': 'foreign_key', 'key': k})
        for k in sorted(set(docspec.SECTIONS[sec]['selectors'][sel]['keys']) - mine):
            err_cases.append({'sec': sec, 'sel': sel, 'kind': 'doc_key_rejected', 'key': k})
    ctx.run_cases('key_case', key_cases, phase='key')
    ctx.run_cases('err_case', err_cases, phase='err')

    obs_cases = []
    for key in docspec.OBSERVATION['keys']:
        for kind in ['build', 'unknown_after', 'unknown_before']:
            obs_cases.append({'key': key, 'kind': kind})
    obs_cases.append({'key': 'taurex_spectrum', 'kind': 'self'})
    obs_cases.append({'key': 'observed_spectrum', 'kind': 'unknown_alone'})
    ctx.run_cases('obs_case', obs_cases, phase='obs')
    ctx.bounds.update(selectors=len(sc), key_deviations=2 if ctx.tier == 'thorough' else 1,
                      key_pairs=npairs)



# ----------------------------------------------------------------------------------------------
# phase mixin: 'mixin+base' composites
# ----------------------------------------------------------------------------------------------
def mixin_specs():
    """[(section, mixin keyword, mixin class name, base selector)]"""
    out = []
    for kw, m in list(docspec.MIXINS['mixins'].items()) + list(docspec.MIXINS['undocumented'].items()):
        sec = m['section']
        for sel in docspec.SECTIONS[sec]['selectors']:
            if not in_scope(sec, sel) or klass_of(sec, sel) is None:
                continue
            out.append((sec, kw, m['cls'], sel))
    return out


def mixin_case(case):
    r = core.R(case)
    d, files = begin()
    sec, kw, sel, kind = case['sec'], case['mixin'], case['base'], case['kind']
    S = docspec.SECTIONS[sec]
    tag = '%s/%s+%s' % (sec, kw, sel)
    base = klass_of(sec, sel)
    mcls = du.by_name(S['family'], case['mcls'], mixin=True)
    found = du.resolve(S['family'], kw, mixin=True)
    r.nontrivial = True
    if not r.check(len(found) == 1 and found[0] is mcls and mcls is not None, 'mixin-resolves',
                   'mixin-unresolved/%s/%s' % (sec, kw), got=[k.__name__ for k in found],
                   want=case['mcls']):
        return r
    r.check(len(du.resolve(S['family'], kw)) == 0 and len(du.resolve(S['family'], sel, mixin=True)) == 0,
            'selector-unique', 'selector-ambiguous/mixin-vs-plain/' + tag)
    balpha = dict((k, (dflt, dict((l, (raw, want)) for l, raw, want in ls)))
                  for k, dflt, kt, ls in key_alphabet(sec, sel) if k not in
                  [p[0] for p in PARSER_KEYS.get(sec, [])])
    malpha = {}
    for name, default in du.ctor_params(mcls.__init_mixin__):
        kt = du.key_type(mcls.__name__, name, default)
        if kt != du.SKIP:
            malpha[name] = (default, dict((l, (raw, want)) for l, raw, want in
                                          du.letters(mcls.__name__, name, default, kt)))
    setl = dict(((w, k), l) for w, k, l in case['set'])
    for (w, k), l in list(setl.items()):
        comp = du.COMPANION.get((base.__name__, k)) if w == 'base' else None
        if comp and ('base', comp) not in setl:
            setl[('base', comp)] = l
    items, bwant = base_items(sec, sel, files, override=[k for (w, k) in setl if w == 'base'])
    mwant = {}
    for (w, k), l in sorted(setl.items()):
        raw, exp = (balpha if w == 'base' else malpha)[k][1][l]
        items.append((k, du.subst(raw, files)))
        (bwant if w == 'base' else mwant)[k] = du.subst(exp, files)
    raw_sel = '%s+%s' % (kw, sel)
    if kind == 'unknown_key':
        items.append((UNKNOWN, '1'))
    elif kind == 'unknown_mixin':
        raw_sel = 'zz_nomixin+%s' % sel
    elif kind == 'unknown_base':
        raw_sel = '%s+zz_nobase' % kw
    elif kind == 'reversed':
        raw_sel = '%s+%s' % (sel, kw)
    if sec == 'Chemistry':
        items.append(('TiO', [('gas_type', 'constant'), ('mix_ratio', '1e-7')]))
    text = du.par_text([(sec, [(S['selkey'], raw_sel)] + items)])
    if case.get('primed') and kind == 'keys':
        # the same composite was already built once in this process with every key set to a non-default value:
        # nothing of that build may reach this one
        pitems, _ = base_items(sec, sel, files, override=list(balpha))
        for k, (dflt, ls) in list(balpha.items()) + list(malpha.items()):
            cand = [l for l in sorted(ls) if l != 'dflt']
            if cand:
                pitems.append((k, du.subst(ls[cand[0]][0], files)))
        if sec == 'Chemistry':
            pitems.append(('TiO', [('gas_type', 'constant'), ('mix_ratio', '1e-7')]))
        try:
            generate(du.parser_for(d, du.par_text([(sec, [(S['selkey'], raw_sel)] + pitems)])), sec)
            r.count('primed-build-ok')
        except Exception:
            r.count('primed-build-raised')
    with du.Spies() as sp:
        sp.on(base, label='B')
        sp.on(mcls, '__init_mixin__', label='M')
        try:
            obj = generate(du.parser_for(d, text), sec)
            err = None
        except Exception as e:
            obj, err = None, e
    bc, mc_ = sp.of('B'), sp.of('M')
    r.observe(tag, kind, sorted((w, k, l) for (w, k), l in setl.items()), type(err).__name__,
              [sorted((k, du.short(v)) for k, v in c[2].items()) for c in bc + mc_])
    if kind == 'reversed':
        r.checks += 1
        r.count('reversed-composite-' + ('raises' if err is not None else 'accepted'))
        return r
    if kind != 'keys':
        r.check(err is not None and not bc and not mc_, 'unknown-is-error',
                'ignored/%s/%s' % (kind, tag), text=text, exc=repr(err))
        return r
    documented_invalid = kw in docspec.MIXINS['mixins'] and \
        sel in docspec.MIXINS['mixins'][kw].get('documented_not_with', [])
    if documented_invalid:
        # "Only the free chemical scheme does not work as it is redundant"
        r.checks += 1
        r.count('documented-invalid-composite-' + ('raises' if err is not None else 'accepted'))
        return r
    if err is not None and len(bc) == 1:
        # raised inside the base constructor: the same finding as for the plain selector
        keys = '+'.join(sorted(k for (w, k) in setl if w == 'base')) or '-'
        # (a value the class itself refuses - a zero opacity - is refused by the library call with the arrived arguments
        # in the same words: nothing of the input file's doing)
        try:
            base(**dict(bc[0][2]))
            lib_err = None
        except Exception as e2:
            lib_err = e2
        if lib_err is not None and type(lib_err) is type(err) and str(lib_err) == str(err):
            r.count('ctor-refuses-value-as-the-library-call-does')
            return r
        r.check(False, 'constructor-accepts', 'ctor-raised/%s/%s/%s/%s' % (sec, sel, keys, exc_sig(err)),
                exc=repr(err), text=text, library_call=repr(lib_err))
        return r
    if not r.check(err is None, 'builds', 'build-raised/%s/%s' % (tag, exc_sig(err)), exc=repr(err),
                   text=text):
        return r
    r.check(type(obj).__bases__ == (mcls, base), 'composite-class', 'composite-bases/' + tag,
            got=[b.__name__ for b in type(obj).__bases__])
    if r.check(len(bc) == 1 and len(mc_) == 1 and bc[0][1] is obj and mc_[0][1] is obj,
               'one-construction', 'ctor-calls/' + tag, base_calls=len(bc), mixin_calls=len(mc_)):
        sl = dict((k, l) for (w, k), l in setl.items())
        check_arrival(r, tag + '/base', base, base.__init__, bc[0][2], bwant, {}, sl)
        check_arrival(r, tag + '/mixin', mcls, mcls.__init_mixin__, mc_[0][2], mwant, {}, sl)
    return r


_STACK_PLUGIN = []


def stack_plugin():
    """The two mixins of the developer documentation (doc/source/devel/mixins.rst), registered the way a plugin is."""
    if not _STACK_PLUGIN:
        import types
        from taurex.mixin import TemperatureMixin

        class Doubler(TemperatureMixin):
            def __init_mixin__(self):
                pass

            @property
            def profile(self):
                return super().profile * 2

            @classmethod
            def input_keywords(cls):
                return ['doubler', ]

        class Add50(TemperatureMixin):
            def __init_mixin__(self, amount=50.0):
                self._amount = amount

            @property
            def profile(self):
                return super().profile + self._amount

            @classmethod
            def input_keywords(cls):
                return ['add50', ]
        class ShiftByT(TemperatureMixin):
            """declares a keyword its base declares too (T): the value given in the file is for both"""
            def __init_mixin__(self, T=0.0):
                self._shift = 0.001 * T

            @property
            def profile(self):
                return super().profile + self._shift

            @classmethod
            def input_keywords(cls):
                return ['shiftbyt', ]
        from taurex.mixin import GasMixin

        class ScaleGas(GasMixin):
            def __init_mixin__(self, gas_factor=0.5):
                self._gas_factor = gas_factor

            @property
            def mixProfile(self):
                return super().mixProfile * self._gas_factor

            @classmethod
            def input_keywords(cls):
                return ['scalegas', ]
        mod = types.ModuleType('verif_stack_plugin')
        Doubler.__module__ = Add50.__module__ = ScaleGas.__module__ = ShiftByT.__module__ = mod.__name__
        mod.Doubler, mod.Add50, mod.ScaleGas, mod.ShiftByT = Doubler, Add50, ScaleGas, ShiftByT
        _STACK_PLUGIN.append(mod)
    return _STACK_PLUGIN[0]


def stack_case(case):
    """Several mixins stacked on one base: 'a+b+base' applies b first and a last, as documented ("add 50 then double:
    doubler+add50+isothermal"); every key reaches its owner."""
    from taurex.data import Planet
    r = core.R(case)
    d, files = begin()
    du.factory(reload=True).load_plugin(stack_plugin())
    sel = case['stack']
    if case.get('family') == 'gas':
        # a gas mixin from the plugin on a built-in gas profile, inside a chemistry section
        text = du.par_text([('Chemistry', [('chemistry_type', 'taurex'), ('fill_gases', 'H2,He'), ('ratio', '0.2'),
                                           ('H2O', [('gas_type', sel), ('mix_ratio', '4e-4'), ('gas_factor', '0.25')])])])
        try:
            chem = du.parser_for(d, text).generate_chemistry_profile()
            chem.initialize_chemistry(3, np.full(3, 1000.0), np.array([1e5, 1e3, 1e1]), None)
            got = np.asarray(chem.get_gas_mix_profile('H2O'), dtype=float)
            err = None
        except Exception as e:
            got, err = None, e
        r.observe(sel, got, type(err).__name__)
        r.nontrivial = True
        if r.check(err is None, 'builds', 'stack/raised/gas/%s/%s' % (sel, exc_sig(err)), exc=repr(err), text=text):
            r.eq(got, np.full(3, 1e-4), 'stack-order', 'stack/gas/' + sel, rtol=1e-12)
        du.factory(reload=True)
        return r
    if case.get('family') == 'makefree-file':
        # the documented example: a chemistry read from file made free, with gas sub-sections (one forcing a gas of the
        # file, one injecting a new one) - the same object as building it through the library
        import os
        from taurex.chemistry import ChemistryFile, ConstantGas, TwoLayerGas
        from taurex.mixin import enhance_class, MakeFreeMixin
        tab = np.array([[0.85 - 1e-3 * i, 0.149, 1e-3 * (i + 1)] for i in range(4)])
        cf = os.path.join(d, 'chem_makefree.dat')
        np.savetxt(cf, tab)
        text = du.par_text([('Chemistry', [('chemistry_type', sel), ('filename', cf), ('gases', 'H2, He, H2O'),
                                           ('H2O', [('gas_type', 'constant'), ('mix_ratio', '2.5e-3')]),
                                           ('N2', [('gas_type', 'twolayer'), ('mix_ratio_surface', '1e-4'),
                                                   ('mix_ratio_top', '1e-7'), ('mix_ratio_P', '1e3')])])])
        P_ = np.array([1e5, 1e4, 1e2, 1e0])
        try:
            chem = du.parser_for(d, text).generate_chemistry_profile()
            chem.initialize_chemistry(4, np.full(4, 1000.0), P_, None)
            ref_ = enhance_class(ChemistryFile, MakeFreeMixin, gases=['H2', 'He', 'H2O'], filename=cf)
            ref_.addGas(ConstantGas('H2O', mix_ratio=2.5e-3))
            ref_.addGas(TwoLayerGas('N2', mix_ratio_surface=1e-4, mix_ratio_top=1e-7, mix_ratio_P=1e3))
            ref_.initialize_chemistry(4, np.full(4, 1000.0), P_, None)
            err = None
        except Exception as e:
            err = e
        r.observe(sel, type(err).__name__)
        r.nontrivial = True
        if r.check(err is None, 'builds', 'stack/raised/makefree-file/%s' % exc_sig(err), exc=repr(err), text=text):
            r.check(list(chem.gases) == list(ref_.gases), 'stack-order', 'stack/makefree-file/gases', got=list(chem.gases),
                    want=list(ref_.gases))
            r.check(sorted(chem.fitting_parameters()) == sorted(ref_.fitting_parameters()), 'stack-order',
                    'stack/makefree-file/fitting-parameters', got=sorted(chem.fitting_parameters()),
                    want=sorted(ref_.fitting_parameters()))
            if list(chem.gases) == list(ref_.gases):
                r.eq(np.asarray(chem.mixProfile, float), np.asarray(ref_.mixProfile, float), 'stack-order',
                     'stack/makefree-file/mixture', rtol=1e-12)
        du.factory(reload=True)
        return r
    items = [('profile_type', sel), ('T', '1000.0')]
    if 'tempscalar' in sel:
        items.append(('scale_factor', '3.0'))
    if case.get('amount'):
        items.append(('amount', '70.0'))
    text = du.par_text([('Temperature', items)])
    tag = sel
    try:
        obj = du.parser_for(d, text).generate_temperature_profile()
        obj.initialize_profile(Planet(), 3, np.array([1e5, 1e3, 1e1]))
        prof = np.asarray(obj.profile, dtype=float)
        err = None
    except Exception as e:
        prof, err = None, e
    r.observe(tag, None if prof is None else prof, type(err).__name__)
    r.nontrivial = True
    if not r.check(err is None, 'builds', 'stack/raised/%s/%s' % (tag, exc_sig(err)), exc=repr(err), text=text):
        du.factory(reload=True)
        return r
    want = 1000.0
    for m in reversed(sel.split('+')[:-1]):            # the mixin written next to the base acts first
        want = {'doubler': want * 2, 'add50': want + (70.0 if case.get('amount') else 50.0), 'tempscalar': want * 3.0,
                'shiftbyt': want + 1.0}[m]
    r.eq(prof, np.full(3, want), 'stack-order', 'stack/order/' + tag, rtol=1e-12, text=text)
    names = [b.__name__ for b in type(obj).__bases__]
    r.check(len(names) == len(sel.split('+')), 'composite-class', 'stack/bases/' + tag, got=names)
    du.factory(reload=True)          # the plugin is dropped again: no other case of this process sees it
    return r


def plugin_case(case):
    """A plugin module holding one plain class and one mixin of every component family: after load_plugin each of them
    is listed under its own family and under no other (what the selectors of that family can resolve)."""
    import types
    import taurex.mixin as tm
    from taurex.temperature import TemperatureProfile
    from taurex.pressure import PressureProfile
    from taurex.chemistry import Chemistry, Gas
    from taurex.planet import BasePlanet
    from taurex.stellar import Star
    from taurex.model import ForwardModel
    from taurex.contributions import Contribution
    from taurex.optimizer import Optimizer
    from taurex.instruments import Instrument
    from taurex.spectrum import BaseSpectrum
    from taurex.core.priors import Prior
    r = core.R(case)
    begin()
    bases = {'temperature': (TemperatureProfile, tm.TemperatureMixin), 'pressure': (PressureProfile, tm.PressureMixin),
             'chemistry': (Chemistry, tm.ChemistryMixin), 'gas': (Gas, tm.GasMixin), 'planet': (BasePlanet, tm.PlanetMixin),
             'star': (Star, tm.StarMixin), 'model': (ForwardModel, tm.ForwardModelMixin),
             'contribution': (Contribution, tm.ContributionMixin), 'optimizer': (Optimizer, tm.OptimizerMixin),
             'instrument': (Instrument, tm.InstrumentMixin), 'observation': (BaseSpectrum, tm.ObservationMixin),
             'prior': (Prior, None)}
    mod = types.ModuleType('verif_family_plugin')
    made = {}
    for fam, (plain, mixin) in bases.items():
        for kind, base in (('plain', plain), ('mixin', mixin)):
            if base is None:
                continue
            name = 'Verif%s%s' % (fam.capitalize(), kind.capitalize())
            k = type(name, (base,), {'__module__': mod.__name__})
            setattr(mod, name, k)
            made[(fam, kind)] = k
    cf = du.factory(reload=True)
    cf.load_plugin(mod)
    for (fam, kind), k in sorted(made.items(), key=lambda kv: kv[0]):
        for fam2, (plain_attr, mixin_attr) in sorted(du.FAMILY.items()):
            for kind2, attr in (('plain', plain_attr), ('mixin', mixin_attr)):
                if attr is None:
                    continue
                listed = k in set(getattr(cf, attr))
                want = (fam2 == fam and kind2 == kind)
                r.check(listed == want, 'plugin-family', 'plugin/%s-%s/%s' % (
                    fam, kind, 'not-registered' if want else 'registered-under-%s-%s' % (fam2, kind2)))
    r.observe(sorted('%s-%s' % k for k in made))
    r.nontrivial = True
    du.factory(reload=True)
    return r


def enumerate_mixin(ctx):
    ctx.run_cases('plugin_case', [{'plugin': 'all-families'}], phase='plugin')
    stacks = ['doubler+isothermal', 'add50+isothermal', 'doubler+add50+isothermal', 'add50+doubler+isothermal',
              'tempscalar+add50+isothermal', 'add50+tempscalar+isothermal', 'doubler+tempscalar+add50+isothermal',
              'add50+tempscalar+doubler+isothermal', 'shiftbyt+isothermal', 'doubler+shiftbyt+isothermal',
              'shiftbyt+add50+isothermal']
    sc = [{'stack': s_} for s_ in stacks] + [{'stack': s_, 'amount': True} for s_ in stacks if 'add50' in s_]
    sc.append({'stack': 'scalegas+constant', 'family': 'gas'})
    sc.append({'stack': 'makefree+file', 'family': 'makefree-file'})
    sc.append({'stack': 'makefree+fromfile', 'family': 'makefree-file'})
    ctx.run_cases('stack_case', sc, phase='stack')
    du.factory(reload=True)
    cases = []
    for sec, kw, mcls, sel in mixin_specs():
        c0 = {'sec': sec, 'mixin': kw, 'mcls': mcls, 'base': sel}
        cases.append(dict(c0, kind='keys', set=[]))
        cases.append(dict(c0, kind='keys', set=[], primed=True))
        for kind in ['unknown_key', 'unknown_mixin', 'unknown_base', 'reversed']:
            cases.append(dict(c0, kind=kind, set=[]))
        base = klass_of(sec, sel)
        m = du.by_name(docspec.SECTIONS[sec]['family'], mcls, mixin=True)
        bkeys = [(k, [l for l in ls if l[0] != 'dflt']) for k, dflt, kt, ls in key_alphabet(sec, sel)
                 if k not in [p[0] for p in PARSER_KEYS.get(sec, [])]]
        mkeys = []
        if m is not None:
            for name, default in du.ctor_params(m.__init_mixin__):
                kt = du.key_type(m.__name__, name, default)
                if kt != du.SKIP:
                    mkeys.append((name, [l for l in du.letters(m.__name__, name, default, kt)
                                         if l[0] != 'dflt']))
        nl = None if ctx.tier == 'thorough' else 2
        for k, ls in bkeys:
            for l in ls[:nl]:
                cases.append(dict(c0, kind='keys', set=[['base', k, l[0]]]))
        for k, ls in mkeys:
            for l in ls:
                cases.append(dict(c0, kind='keys', set=[['mixin', k, l[0]]]))
        for (k1, l1), (k2, l2) in itertools.product(bkeys, mkeys):
            for x, y in itertools.product(l1[:nl], l2[:nl]):
                cases.append(dict(c0, kind='keys', set=[['base', k1, x[0]], ['mixin', k2, y[0]]]))
    ctx.run_cases('mixin_case', cases, phase='mixin')
    ctx.bounds['composites'] = len(mixin_specs())


# ----------------------------------------------------------------------------------------------
# phase custom: `custom` + python_file
# ----------------------------------------------------------------------------------------------
CUSTOM = {   # section -> (selector key, import module, base class, extra ctor parameters, super call)
    'Temperature': ('profile_type', 'taurex.temperature', 'TemperatureProfile', '',
                    "super().__init__('VerifCustom')"),
    'Pressure': ('profile_type', 'taurex.pressure', 'PressureProfile', '', "super().__init__('VerifCustom', 3)"),
    'Chemistry': ('chemistry_type', 'taurex.chemistry', 'Chemistry', '', "super().__init__('VerifCustom')"),
    'Gas': ('gas_type', 'taurex.chemistry', 'Gas', "molecule_name='X', ",
            "super().__init__('VerifCustom', molecule_name)"),
    'Planet': ('planet_type', 'taurex.planet', 'Planet', '', 'pass'),
    'Star': ('star_type', 'taurex.stellar', 'Star', '', 'pass'),
    'Model': ('model_type', 'taurex.model', 'ForwardModel',
              'planet=None, star=None, pressure_profile=None, temperature_profile=None, chemistry=None, ',
              "super().__init__('VerifCustom')"),
    'Optimizer': ('optimizer', 'taurex.optimizer', 'Optimizer', 'observed=None, model=None, ', 'pass'),
    'Observation': ('observation', 'taurex.spectrum', 'BaseSpectrum', '', 'pass'),
    'Instrument': ('instrument', 'taurex.instruments', 'Instrument', '', 'pass'),
}
CUSTOM_GEN = {'Temperature': 'generate_temperature_profile', 'Pressure': 'generate_pressure_profile',
              'Chemistry': 'generate_chemistry_profile', 'Gas': 'generate_chemistry_profile',
              'Planet': 'generate_planet', 'Star': 'generate_star', 'Model': 'generate_model',
              'Optimizer': 'generate_optimizer', 'Observation': 'generate_observation',
              'Instrument': 'generate_instrument'}
CUSTOM_KEYS = [   # (key, default source text, default value, raw text in the .par, expected)
    ('base_temp', '1500.0', 1500.0, '512.5', 512.5),
    ('random_scale', '10.0', 10.0, '2.5e-3', 2.5e-3),
    ('flag', 'False', False, 'yes', True),
    ('points', '[]', [], '100.0, 2e2', [100.0, 200.0]),
    ('label', "'abc'", 'abc', 'some_word', 'some_word'),
]
CUSTOM_SRC = '''from %(mod)s import %(base)s


class VerifCustom(%(base)s):

    def __init__(self, %(extra)s%(params)s):
        %(superinit)s
        self.verif_got = dict(%(got)s)
        self.verif_extra = dict(%(extra_got)s)
'''


def custom_source(sec):
    selkey, mod, base, extra, superinit = CUSTOM[sec]
    params = ', '.join('%s=%s' % (k, src) for k, src, _, _, _ in CUSTOM_KEYS)
    got = ', '.join('%s=%s' % (k, k) for k, _, _, _, _ in CUSTOM_KEYS)
    extra_names = [p.split('=')[0].strip() for p in extra.split(',') if p.strip()]
    return CUSTOM_SRC % dict(mod=mod, base=base, extra=extra, params=params, superinit=superinit, got=got,
                             extra_got=', '.join('%s=%s' % (n, n) for n in extra_names))


def custom_case(case):
    r = core.R(case)
    d, files = begin()
    sec, kind = case['sec'], case['kind']
    selkey = CUSTOM[sec][0]
    pyfile = os.path.join(d, 'verif_custom_%s.py' % sec.lower())
    with open(pyfile, 'w') as f:
        f.write(custom_source(sec))
    sel = 'Custom' if kind == 'cap' else 'custom'
    items = [(selkey, sel)]
    if kind != 'no_python_file':
        items.append(('python_file', pyfile))
    want = {}
    for k, src, dflt, raw, exp in CUSTOM_KEYS:
        if kind == 'all' or kind == 'one:' + k:
            items.append((k, raw))
            want[k] = exp
    if kind == 'unknown_key':
        items.append((UNKNOWN, '1'))
    if sec == 'Gas':
        tree = [('Chemistry', [('chemistry_type', 'taurex'), ('H2O', items)])]
    elif sec == 'Model':
        tree = [MIN_CHEM, ('Model', items)]
    else:
        tree = [(sec, items)]
    text = du.par_text(tree)
    try:
        obj = getattr(du.parser_for(d, text), CUSTOM_GEN[sec])()
        err = None
    except Exception as e:
        obj, err = None, e
    tag = 'custom/%s' % sec
    r.nontrivial = True
    r.observe(tag, kind, type(err).__name__, type(obj).__name__)
    if kind in ('unknown_key', 'no_python_file'):
        r.check(err is not None, 'unknown-is-error', 'ignored/%s/%s' % (kind, tag), text=text,
                built=type(obj).__name__)
        return r
    if not r.check(err is None, 'builds', 'build-raised/%s/%s' % (tag, exc_sig(err)), exc=repr(err),
                   text=text):
        return r
    objs = built_objects(sec, obj)
    if not r.check(len(objs) == 1 and type(objs[0]).__name__ == 'VerifCustom' and
                   hasattr(objs[0], 'verif_got'), 'instance-of-resolved-class',
                   'wrong-instance/' + tag, got=[type(o).__name__ for o in objs]):
        return r
    got = objs[0].verif_got
    r.observe(sorted((k, du.short(v)) for k, v in got.items()))
    for k, src, dflt, raw, exp in CUSTOM_KEYS:
        if k in want:
            r.check(du.same_value(got[k], want[k]), 'value-arrives', 'value/%s/%s' % (tag, k),
                    got=du.short(got[k]), got_type=type(got[k]).__name__, want=want[k])
        else:
            r.check(type(got[k]) is type(dflt) and got[k] == dflt, 'default-otherwise',
                    'default/%s/%s' % (tag, k), got=du.short(got[k]), default=dflt)
    if sec == 'Gas':
        r.check(objs[0].verif_extra.get('molecule_name') == 'H2O', 'value-arrives',
                'value/%s/molecule_name' % tag, got=objs[0].verif_extra)
    if sec == 'Model':
        r.check(type(objs[0].verif_extra.get('chemistry')).__name__ == 'TaurexChemistry',
                'model-wiring', 'wiring/%s/chemistry' % tag)
    return r


def enumerate_custom(ctx):
    cases = []
    for sec in CUSTOM:
        kinds = ['defaults', 'all', 'cap', 'unknown_key', 'no_python_file'] + \
            ['one:' + k[0] for k in CUSTOM_KEYS]
        for kind in kinds:
            cases.append({'sec': sec, 'kind': kind})
    ctx.run_cases('custom_case', cases, phase='custom')
    ctx.bounds['custom_sections'] = len(CUSTOM)



# ----------------------------------------------------------------------------------------------
# phase aux: [Fitting] (+ priors), [Derive], [Binning]
# ----------------------------------------------------------------------------------------------
PRIOR_FORMS = [   # (text, class, {arg: expected})
    ('Uniform(bounds=(0.8, 5.0))', 'Uniform', {'bounds': (0.8, 5.0)}),
    ('LogUniform(bounds=(-12, -2))', 'LogUniform', {'bounds': (-12, -2)}),
    ('LogUniform(lin_bounds=(1e-12, 1e-2))', 'LogUniform', {'lin_bounds': (1e-12, 1e-2)}),
    ('Gaussian(mean=1.0,std=0.3)', 'Gaussian', {'mean': 1.0, 'std': 0.3}),
    ('LogGaussian(mean=-4,std=2)', 'LogGaussian', {'mean': -4, 'std': 2}),
    ('LogGaussian(lin_mean=1e-4,std=2)', 'LogGaussian', {'lin_mean': 1e-4, 'std': 2}),
]
FIT_DEFAULT = {'fit': False, 'bounds': None, 'mode': None, 'factor': None, 'prior': None}


def aux_case(case):
    r = core.R(case)
    d, files = begin()
    kind = case['kind']
    r.nontrivial = True
    if kind == 'fit_option':
        opt, raw, want = case['opt'], case['raw'], case['want']
        text = du.par_text([('Fitting', [('P_a:%s' % opt, raw)])])
        got = du.parser_for(d, text).generate_fitting_parameters()
        exp = dict(FIT_DEFAULT)
        exp[opt] = want
        r.observe(kind, opt, raw, repr(got))
        ok = sorted(got) == ['P_a'] and sorted(got['P_a']) == sorted(exp) and all(
            (got['P_a'][k] is None if exp[k] is None else du.same_value(got['P_a'][k], exp[k]))
            for k in exp)
        r.check(ok, 'fitting-option', 'fitting/%s/%s' % (opt, case['letter']), got=repr(got), want=exp)
    elif kind == 'fit_multi':
        text = du.par_text([('Fitting', [('T:fit', 'True'), ('T:bounds', '1200.0,1400.0'),
                                         ('planet_radius:mode', 'log'), ('planet_radius:factor', '0.8, 2.0'),
                                         ('H2O:fit', 'no')])])
        got = du.parser_for(d, text).generate_fitting_parameters()
        exp = {'T': dict(FIT_DEFAULT, fit=True, bounds=[1200.0, 1400.0]),
               'planet_radius': dict(FIT_DEFAULT, mode='log', factor=[0.8, 2.0]),
               'H2O': dict(FIT_DEFAULT)}
        r.observe(kind, repr(got))
        ok = sorted(got) == sorted(exp) and all(
            (got[p][k] is None if exp[p][k] is None else du.same_value(got[p][k], exp[p][k]))
            for p in exp for k in exp[p])
        r.check(ok, 'fitting-option', 'fitting/multi', got=repr(got), want=exp)
    elif kind == 'fit_apply':
        # the [Fitting] section applied to a real optimiser (setup_optimizer) against the same settings made through
        # the optimiser's own methods: names, order, values, boundaries and priors after compilation
        from mc import doubles_retrieval as dr
        dr.install_opacities()
        opts = case['opts']              # {param: {option: letter}}
        RAW = {'fit': {'on': ('True', True), 'off': ('False', False)},
               'bounds': {'b': ('%r, %r', None)}, 'factor': {'f': ('0.5, 3.0', [0.5, 3.0])},
               'mode': {'log': ('log', 'log'), 'linear': ('linear', 'linear'), 'Log': ('Log', 'log')},
               'prior': {'LU': ('"LogUniform(bounds=(-7.0, -1.5))"', None), 'U': ('"Uniform(bounds=(0.6, 1.9))"', None)}}
        BOUNDS = {'T': [700.0, 1900.0], 'planet_radius': [0.7, 2.1], 'H2O': [1e-8, 1e-2], 'clouds_pressure': [1e1, 1e5]}
        START = {'T': 1150.0, 'planet_radius': 1.3, 'H2O': 2e-4, 'clouds_pressure': 3e3}
        items = []
        for pname in sorted(opts):
            for o in ('fit', 'factor', 'bounds', 'mode', 'prior'):
                if o in opts[pname]:
                    raw = RAW[o][opts[pname][o]][0]
                    if o == 'bounds':
                        raw = raw % tuple(BOUNDS[pname])
                    items.append(('%s:%s' % (pname, o), raw))
        text = du.par_text([('Fitting', items)])

        def world():
            pz = dr.build_model('iso')
            for k_, v_ in START.items():
                dr.set_param(pz, k_, v_)
            obs = dr.build_obs('3col-uniform', [0.0109, 0.0108, 0.0110], dr.error_bars('distinct', 3))
            return pz, dr.make_optimizer('nestle', obs, pz.model, fx.fresh_dir('c15_fit'))
        pa, oa = world()
        pb, ob = world()
        try:
            du.parser_for(d, text).setup_optimizer(oa)
            oa.compile_params()
            err = None
        except Exception as e:
            err = e
        from taurex.core.priors import LogUniform, Uniform
        for pname in sorted(opts):
            o = opts[pname]
            if 'fit' in o:
                (ob.enable_fit if o['fit'] == 'on' else ob.disable_fit)(pname)
            else:
                ob.disable_fit(pname)
            if 'factor' in o:
                ob.set_factor_boundary(pname, [0.5, 3.0])
            if 'bounds' in o:
                ob.set_boundary(pname, list(BOUNDS[pname]))
            if 'mode' in o:
                ob.set_mode(pname, o['mode'].lower())
            if 'prior' in o:
                ob.set_prior(pname, LogUniform(bounds=(-7.0, -1.5)) if o['prior'] == 'LU' else Uniform(bounds=(0.6, 1.9)))
        ob.compile_params()
        tag = '+'.join(sorted(set(k_ for v_ in opts.values() for k_ in v_)))
        r.observe(kind, text)
        if not r.check(err is None, 'fitting-applied', 'fitting-apply/raised/%s/%s' % (tag, exc_sig(err)), exc=repr(err),
                       text=text):
            return r
        r.check(list(oa.fit_names) == list(ob.fit_names), 'fitting-applied', 'fitting-apply/names/' + tag,
                got=list(oa.fit_names), want=list(ob.fit_names), text=text)
        if list(oa.fit_names) == list(ob.fit_names):
            r.eq(np.array(oa.fit_values, float), np.array(ob.fit_values, float), 'fitting-applied',
                 'fitting-apply/values/' + tag, rtol=1e-12, text=text)
            r.eq(np.array(oa.fit_boundaries, float), np.array(ob.fit_boundaries, float), 'fitting-applied',
                 'fitting-apply/boundaries/' + tag, rtol=1e-12, text=text, names=list(oa.fit_names))
            for pa_, pb_ in zip(oa.fitting_priors, ob.fitting_priors):
                r.check(type(pa_) is type(pb_) and list(pa_.params()) == list(pb_.params()) if hasattr(pa_, 'params')
                        else type(pa_) is type(pb_), 'fitting-applied', 'fitting-apply/priors/' + tag,
                        got=repr(pa_), want=repr(pb_))
                for u in (0.0, 0.3, 1.0):
                    r.eq(pa_.sample(u), pb_.sample(u), 'fitting-applied', 'fitting-apply/prior-sample/' + tag, rtol=1e-12)
        # the options given for a parameter that is not (yet) fitted are settings all the same: they show when the
        # parameter is switched on later on the live optimiser
        for pname in sorted(opts):
            ta, tb = pa.model.fittingParameters[pname], pb.model.fittingParameters[pname]
            r.check(ta[4] == tb[4] and list(np.ravel(ta[6])) == list(np.ravel(tb[6])), 'fitting-applied',
                    'fitting-apply/stored-settings/' + tag, param=pname, got=[ta[4], list(np.ravel(ta[6]))],
                    want=[tb[4], list(np.ravel(tb[6]))], text=text)
            oa.enable_fit(pname)
            ob.enable_fit(pname)
        oa.compile_params()
        ob.compile_params()
        r.check(list(oa.fit_names) == list(ob.fit_names), 'fitting-applied', 'fitting-apply/names-after-enable/' + tag,
                got=list(oa.fit_names), want=list(ob.fit_names), text=text)
        if list(oa.fit_names) == list(ob.fit_names):
            r.eq(np.array(oa.fit_boundaries, float), np.array(ob.fit_boundaries, float), 'fitting-applied',
                 'fitting-apply/boundaries-after-enable/' + tag, rtol=1e-12, text=text, names=list(oa.fit_names))
            for pa_, pb_ in zip(oa.fitting_priors, ob.fitting_priors):
                r.check(type(pa_) is type(pb_), 'fitting-applied', 'fitting-apply/priors-after-enable/' + tag,
                        got=repr(pa_), want=repr(pb_))
                r.eq(pa_.sample(0.3), pb_.sample(0.3), 'fitting-applied', 'fitting-apply/prior-sample-after-enable/' + tag,
                     rtol=1e-12)
    elif kind == 'prebuilt':
        # generate_model() with some components handed over ready-made: those are used as they are, every other
        # one is still built from its own section of the file (non-default values in every section)
        text = du.par_text([
            ('Chemistry', [('chemistry_type', 'taurex'), ('fill_gases', 'H2,He'), ('ratio', '0.3'),
                           ('H2O', [('gas_type', 'constant'), ('mix_ratio', '2e-5')])]),
            ('Temperature', [('profile_type', 'isothermal'), ('T', '1234.0')]),
            ('Pressure', [('profile_type', 'simple'), ('atm_min_pressure', '1e-2'), ('atm_max_pressure', '1e5'),
                          ('nlayers', '7')]),
            ('Planet', [('planet_type', 'simple'), ('planet_mass', '0.7'), ('planet_radius', '1.4')]),
            ('Star', [('star_type', 'blackbody'), ('temperature', '4321.0'), ('radius', '0.8')]),
            ('Model', [('model_type', 'transmission'), ('Absorption', [])])])
        from taurex.data import Planet
        from taurex.data.stellar import BlackbodyStar
        from taurex.data.profiles.temperature import Isothermal
        from taurex.data.profiles.pressure import SimplePressureProfile
        from taurex.data.profiles.chemistry import TaurexChemistry
        pre = {'planet': Planet(planet_mass=2.2, planet_radius=0.6), 'star': BlackbodyStar(temperature=6000.0, radius=1.5),
               'temperature': Isothermal(T=777.0), 'pressure': SimplePressureProfile(nlayers=4, atm_min_pressure=1.0,
                                                                                      atm_max_pressure=1e4),
               'chemistry': TaurexChemistry(fill_gases=['H2', 'He'], ratio=0.05)}
        given = dict((k, pre[k]) for k in case['given'])
        tag = '+'.join(sorted(case['given'])) or 'none'
        try:
            m = du.parser_for(d, text).generate_model(**given)
            err = None
        except Exception as e:
            m, err = None, e
        r.observe(kind, tag, type(err).__name__)
        if not r.check(err is None and m is not None, 'prebuilt-components', 'prebuilt/raised/%s/%s' % (tag, exc_sig(err)),
                       exc=repr(err)):
            return r
        got = {'planet': m.planet, 'star': m.star, 'temperature': m.temperature, 'pressure': m.pressure,
               'chemistry': m.chemistry}
        facts = {'planet': lambda o: (round(float(o.mass), 9) if o is not None else None),
                 'star': lambda o: (float(o.temperature) if o is not None else None),
                 'temperature': lambda o: (float(o.isoTemperature) if o is not None else None),
                 'pressure': lambda o: (int(o.nLayers) if o is not None else None),
                 'chemistry': lambda o: (float(o.fitting_parameters()['He_H2'][2]()) if o is not None else None)}
        from_file = {'planet': 0.7, 'star': 4321.0, 'temperature': 1234.0, 'pressure': 7, 'chemistry': 0.3}
        for k in sorted(got):
            if k in given:
                r.check(got[k] is given[k], 'prebuilt-components', 'prebuilt/given-not-used/%s/%s' % (k, tag))
            else:
                try:
                    val = facts[k](got[k])
                except Exception as e:
                    val = repr(e)
                r.check(val == from_file[k], 'prebuilt-components', 'prebuilt/section-not-built/%s/given=%s' % (k, tag),
                        got=val, want=from_file[k])
    elif kind == 'prior':
        ptext, clsname, want = PRIOR_FORMS[case['form']]
        name = {'asdoc': clsname, 'lower': clsname.lower(), 'upper': clsname.upper()}[case['case']]
        ptext = name + ptext[len(clsname):]
        tag = '%s/%s' % (clsname, '+'.join(sorted(want)))
        found = [k for k in du.family('prior', reload=True)
                 if name in (k.__name__, k.__name__.lower(), k.__name__.upper())]
        r.check([k.__name__ for k in found] == [clsname], 'selector-unique',
                'prior-resolution/%s/%s' % (clsname, case['case']), got=[k.__name__ for k in found])
        klass = du.by_name('prior', clsname)
        if klass is None:
            return r
        text = du.par_text([('Fitting', [('P_a:fit', 'True'), ('P_a:prior', '"%s"' % ptext)])])
        with du.Spies() as sp:
            sp.on(klass, label='K')
            try:
                got = du.parser_for(d, text).generate_fitting_parameters()
                err = None
            except Exception as e:
                got, err = None, e
        calls = sp.of('K')
        r.observe(kind, ptext, type(err).__name__, [sorted((k, du.short(v)) for k, v in c[2].items())
                                                    for c in calls])
        if not r.check(err is None and len(calls) == 1, 'builds', 'build-raised/prior/%s/%s' % (tag, exc_sig(err)),
                       exc=repr(err), text=text):
            return r
        check_arrival(r, 'prior/' + tag, klass, klass.__init__, calls[0][2], want, {},
                      dict((k, 'doc') for k in want))
        r.check(got['P_a']['prior'] is calls[0][1] and type(calls[0][1]) is klass and got['P_a']['fit'] is True,
                'instance-of-resolved-class', 'wrong-instance/prior/' + clsname)
    elif kind in ('unknown_prior', 'unknown_prior_arg'):
        ptext = 'ZzNoPrior(bounds=(1, 2))' if kind == 'unknown_prior' else 'Uniform(zz_arg=(1, 2))'
        text = du.par_text([('Fitting', [('P_a:prior', '"%s"' % ptext)])])
        try:
            got = du.parser_for(d, text).generate_fitting_parameters()
            err = None
        except Exception as e:
            got, err = None, e
        r.observe(kind, type(err).__name__)
        r.check(err is not None, 'unknown-is-error', 'ignored/%s' % kind, got=repr(got))
    elif kind == 'derive':
        text = du.par_text([('Derive', [('mu:compute', case['raw1']), ('logg:compute', case['raw2'])])])
        got = du.parser_for(d, text).generate_derived_parameters()
        exp = {'mu': {'compute': case['want1']}, 'logg': {'compute': case['want2']}}
        r.observe(kind, repr(got))
        ok = sorted(got) == sorted(exp) and all(
            sorted(got[p]) == ['compute'] and du.same_value(got[p]['compute'], exp[p]['compute'])
            for p in exp)
        r.check(ok, 'derive-option', 'derive/compute', got=repr(got), want=exp)
    elif kind == 'bin_type':
        text = du.par_text([('Binning', [('bin_type', case['raw'])])])
        got = du.parser_for(d, text).generate_binning()
        r.observe(kind, repr(got))
        r.check(got == case['want'], 'binning-type', 'binning/type/%s' % case['want'], got=repr(got))
    elif kind == 'bin_manual':
        a, b, n = case['grid']
        items = [('bin_type', case['bt']), (case['key'], '%r, %r, %d' % (a, b, n))]
        if case['accurate'] is not None:
            items.append(('accurate', case['accurate']))
        text = du.par_text([('Binning', items)])
        got = du.parser_for(d, text).generate_binning()
        want_cls = 'FluxBinner' if case['accurate'] in ('true', 'yes', 'True') else 'SimpleBinner'
        key = case['key']
        tag = 'binning/manual/%s' % key
        if not r.check(isinstance(got, tuple) and len(got) == 2, 'binning-grid', tag + '/shape', got=repr(got)):
            return r
        binner, wn = got
        r.observe(kind, key, case['accurate'], type(binner).__name__, np.asarray(wn, float))
        r.check(type(binner).__name__ == want_cls, 'binning-class', 'binning/class/%s' % want_cls,
                got=type(binner).__name__, accurate=case['accurate'])
        if key == 'wavenumber_grid':
            ref = np.linspace(a, b, n)
        elif key == 'wavelength_grid':
            ref = np.sort(10000.0 / np.linspace(a, b, n))
        elif key == 'log_wavenumber_grid':
            ref = 10 ** np.linspace(np.log10(a), np.log10(b), n)
        elif key == 'log_wavelength_grid':
            ref = np.sort(10000.0 / 10 ** np.linspace(np.log10(a), np.log10(b), n))
        else:
            ref = None
        if ref is not None:
            r.eq(wn, ref, 'binning-grid', tag, rtol=1e-12)
        else:
            # wavelength_res = start, end, R (formula not documented): centres ascending in
            # wavenumber, inside the range up to one bin, neighbouring wavelengths ~ lambda / R apart
            wn = np.asarray(wn, float)
            wl = 10000.0 / wn[::-1]
            ok = wn.size >= 2 and np.all(np.diff(wn) > 0) and wl[0] >= a * (1 - 1e-9) and \
                wl[-2] <= b * (1 + 1e-9) and wl[-1] <= b * (1 + 2.0 / n)
            if ok:
                res = wl[:-1] / np.diff(wl)
                ok = bool(np.all(np.abs(res - n) <= 0.5 * n / 10 + 1.0))
            r.check(bool(ok), 'binning-grid', tag, wl=wl, R=n)
        r.eq(getattr(binner, '_wngrid', None), wn, 'binning-grid', tag + '/binner-grid', rtol=1e-12)
    return r


def enumerate_aux(ctx):
    cases = []
    for l, raw, want in du.BOOL_LETTERS:
        cases.append({'kind': 'fit_option', 'opt': 'fit', 'letter': l, 'raw': raw, 'want': want})
    for opt in ('bounds', 'factor'):
        cases.append({'kind': 'fit_option', 'opt': opt, 'letter': 'list2', 'raw': '1.0, 5.0', 'want': [1.0, 5.0]})
        cases.append({'kind': 'fit_option', 'opt': opt, 'letter': 'list2sci', 'raw': '1e-12,1E-1',
                      'want': [1e-12, 1e-1]})
    for m in ('log', 'linear'):
        cases.append({'kind': 'fit_option', 'opt': 'mode', 'letter': m, 'raw': m, 'want': m})
    cases.append({'kind': 'fit_multi'})
    comps = ['chemistry', 'pressure', 'temperature', 'planet', 'star']
    for k in range(0, 6):
        for sub in itertools.combinations(comps, k):
            cases.append({'kind': 'prebuilt', 'given': list(sub)})
    # every subset of the five options on one parameter (value different from one, so that factors and absolute
    # bounds differ), next to a second fitted parameter; and pairs of option sets on two parameters
    optsets = []
    for fit in ('on', 'off', None):
        for fac in ('f', None):
            for b in ('b', None):
                for mode in ('log', 'linear', 'Log', None):
                    for prior in ('LU', 'U', None):
                        o = dict((k, v) for k, v in (('fit', fit), ('factor', fac), ('bounds', b), ('mode', mode),
                                                     ('prior', prior)) if v is not None)
                        optsets.append(o)
    for o in optsets:
        if o:
            cases.append({'kind': 'fit_apply', 'opts': {'planet_radius': o, 'T': {'fit': 'on', 'bounds': 'b'}}})
    for o in optsets[::7]:
        if o:
            cases.append({'kind': 'fit_apply', 'opts': {'H2O': o, 'clouds_pressure': {'fit': 'on', 'factor': 'f'}}})
    for i in range(len(PRIOR_FORMS)):
        for c in ('asdoc', 'lower', 'upper'):
            cases.append({'kind': 'prior', 'form': i, 'case': c})
    cases.append({'kind': 'unknown_prior'})
    cases.append({'kind': 'unknown_prior_arg'})
    for (l1, r1, w1), (l2, r2, w2) in itertools.product(du.BOOL_LETTERS, du.BOOL_LETTERS[:2]):
        cases.append({'kind': 'derive', 'raw1': r1, 'want1': w1, 'raw2': r2, 'want2': w2})
    for t in docspec.BINNING['bin_types'][:2]:
        for raw in (t, t.capitalize(), t.upper()):
            cases.append({'kind': 'bin_type', 'raw': raw, 'want': t})
    grids = {'wavelength_grid': (0.3, 5.0, 7), 'wavenumber_grid': (400.0, 5000.0, 6),
             'log_wavelength_grid': (0.3, 5.0, 5), 'log_wavenumber_grid': (400.0, 5000.0, 8),
             'wavelength_res': (1.1, 1.7, 50)}
    for key in docspec.BINNING['grid_keys']:
        for acc in (None, 'true', 'false', 'yes', 'no', 'True', 'False'):
            for bt in ('manual', 'Manual'):
                if bt == 'Manual' and acc not in (None, 'true'):
                    continue
                cases.append({'kind': 'bin_manual', 'key': key, 'grid': list(grids[key]), 'accurate': acc,
                              'bt': bt})
    ctx.run_cases('aux_case', cases, phase='aux')



# ----------------------------------------------------------------------------------------------
# phase cli: taurex.taurex.main() vs the library
# ----------------------------------------------------------------------------------------------
CLI_DIMS = {
    'model': ['transmission', 'emission', 'directimage'],
    'binning': ['none', 'native', 'manual_wn', 'manual_wl_acc', 'manual_logwn', 'manual_wn+snr', 'observed'],
    # an observed spectrum next to the model: without a [Binning] section (and with bin_type = observed) the output is
    # binned to the observation, every explicit [Binning] choice wins over it
    # 'self': the run observes itself through the instrument ([Observation] taurex_spectrum = self; needs [Instrument])
    'obs': ['none', 'file3', 'file4', 'self'],
    'temp': ['npoint', 'isothermal', 'guillot'],
    'chem': ['one', 'two', 'ratio_list'],
    'contribs': ['abs', 'abs+ray', 'abs+ray+clouds', 'abs+lee', 'abs+flat', 'none+ray'],
    'layers': [5, 3, 8],
    'form': ['asdoc', 'cap'],
    'interp': ['omitted', 'exp'],
    # where the layering is declared: a [Pressure] section, or keys of [Model] with no [Pressure] section at all
    'press': ['section', 'model-keys'],
}
CLI_WN = np.linspace(800.0, 4000.0, 17)


def cli_values(case):
    g = fx.rng('c15-cli', case['temp'], case['chem'])
    v = {}
    v['T'] = float('%.5g' % g.uniform(900, 1500))
    v['Tsurf'] = float('%.5g' % g.uniform(1300, 1600))
    v['Ttop'] = float('%.5g' % g.uniform(500, 800))
    v['Tmid'] = float('%.5g' % g.uniform(900, 1200))
    v['h2o'] = float('%.4g' % 10 ** g.uniform(-4.5, -3))
    v['ch4'] = float('%.4g' % 10 ** g.uniform(-6, -4))
    v['ratio'] = float('%.4g' % g.uniform(0.1, 0.25))
    v['mass'] = float('%.4g' % g.uniform(0.6, 1.4))
    v['radius'] = float('%.4g' % g.uniform(0.8, 1.3))
    v['tstar'] = float('%.5g' % g.uniform(4500, 6000))
    v['rstar'] = float('%.4g' % g.uniform(0.7, 1.2))
    v['pcloud'] = float('%.4g' % 10 ** g.uniform(2.5, 4))
    v['snr'] = float('%.3g' % g.uniform(5, 30))
    return v


OBS_WL = [3.0, 4.0, 5.5, 7.0, 9.0]
OBS_WLW = [0.4, 0.5, 0.8, 0.9, 1.2]


def cli_obs_rows(case):
    g = fx.rng('c15-obs')
    rows = np.column_stack([OBS_WL, g.uniform(0.01, 0.02, 5), g.uniform(1e-4, 2e-4, 5), OBS_WLW])
    return rows if case['obs'] == 'file4' else rows[:, :3]


def cli_obs_file(case, xdir):
    # next to the opacity directory, not inside it (the cache would try to read it as an opacity)
    path = os.path.join(os.path.dirname(xdir), 'c15_observation_%s.dat' % case['obs'])
    np.savetxt(path, cli_obs_rows(case)[::-1])
    return path


def cli_par(case, v, xdir):
    """The input file (text) of a CLI case."""
    f = (lambda s: selector_form(s, case['form']))
    glob = [('xsec_path', xdir)]
    if case['interp'] != 'omitted':
        glob.append(('xsec_interpolation', case['interp']))
    chem = [('chemistry_type', f('taurex')), ('fill_gases', 'H2,He')]
    chem.append(('ratio', '%r,' % v['ratio'] if case['chem'] == 'ratio_list' else repr(v['ratio'])))
    chem.append(('H2O', [('gas_type', f('constant')), ('mix_ratio', repr(v['h2o']))]))
    if case['chem'] != 'one':
        chem.append(('CH4', [('gas_type', 'constant'), ('mix_ratio', '%.3e' % v['ch4'])]))
    if case['temp'] == 'isothermal':
        temp = [('profile_type', f('isothermal')), ('T', repr(v['T']))]
    elif case['temp'] == 'npoint':
        temp = [('profile_type', f('npoint')), ('T_surface', repr(v['Tsurf'])), ('T_top', repr(v['Ttop'])),
                ('temperature_points', '%r,' % v['Tmid']), ('pressure_points', '1e3,'),
                ('smoothing_window', '2')]
    else:
        temp = [('profile_type', f('guillot2010')), ('T_irr', repr(v['Tsurf'])), ('kappa_v1', '0.004'),
                ('alpha', '0.4')]
    pres = [('profile_type', f('simple')), ('atm_min_pressure', '1e-1'), ('atm_max_pressure', '1e6'),
            ('nlayers', str(case['layers']))]
    planet = [('planet_type', f('simple')), ('planet_mass', repr(v['mass'])), ('planet_radius', repr(v['radius']))]
    star = [('star_type', f('blackbody')), ('temperature', repr(v['tstar'])), ('radius', repr(v['rstar']))]
    model = [('model_type', f(case['model']))]
    if case['model'] != 'transmission':
        model.append(('ngauss', '3'))
    for c in case['contribs'].split('+'):
        if c == 'abs':
            model.append(('Absorption', []))
        elif c == 'ray':
            model.append(('Rayleigh', []))
        elif c == 'clouds':
            model.append(('SimpleClouds', [('clouds_pressure', repr(v['pcloud']))]))
        elif c == 'lee':
            model.append(('LeeMie', [('lee_mie_radius', '0.05'), ('lee_mie_q', '30'),
                                     ('lee_mie_mix_ratio', '1e-9'), ('lee_mie_bottomP', '1e5'),
                                     ('lee_mie_topP', '1e1')]))
        elif c == 'flat':
            model.append(('FlatMie', [('flat_mix_ratio', '1e-9'), ('flat_bottomP', '1e5'),
                                      ('flat_topP', '1e1')]))
    if case.get('press', 'section') == 'model-keys':
        # no [Pressure] section: the layering is given under [Model] (the model then builds its own simple profile)
        model[1:1] = [('atm_min_pressure', '1e-1'), ('atm_max_pressure', '1e6'), ('nlayers', str(case['layers']))]
        tree = [('Global', glob), ('Chemistry', chem), ('Temperature', temp),
                ('Planet', planet), ('Star', star), ('Model', model)]
    else:
        tree = [('Global', glob), ('Chemistry', chem), ('Temperature', temp), ('Pressure', pres),
                ('Planet', planet), ('Star', star), ('Model', model)]
    b = case['binning']
    if case.get('obs', 'none') == 'self':
        tree.append(('Observation', [('taurex_spectrum', 'self')]))
    elif case.get('obs', 'none') != 'none':
        tree.append(('Observation', [('observed_spectrum', cli_obs_file(case, xdir))]))
    if b == 'native':
        tree.append(('Binning', [('bin_type', 'native')]))
    elif b == 'observed':
        tree.append(('Binning', [('bin_type', 'observed')]))
    elif b.startswith('manual_wn'):
        tree.append(('Binning', [('bin_type', 'manual'), ('wavenumber_grid', '1000, 3800, 6')]))
    elif b == 'manual_wl_acc':
        tree.append(('Binning', [('bin_type', 'manual'), ('wavelength_grid', '2.7, 9.5, 5'), ('accurate', 'true')]))
    elif b == 'manual_logwl':
        tree.append(('Binning', [('bin_type', 'manual'), ('log_wavelength_grid', '2.6, 11.0, 6')]))
    elif b == 'manual_logwn':
        tree.append(('Binning', [('bin_type', 'manual'), ('log_wavenumber_grid', '900, 3900, 7'),
                                 ('accurate', 'False')]))
    if b.endswith('+snr'):
        tree.append(('Instrument', [('instrument', 'snr'), ('SNR', repr(v['snr'])), ('num_observations', '4')]))
    return du.par_text(tree)


def cli_library(case, v, xdir):
    """The same components assembled through the library API.  Returns (wl, spectrum, error,
    native wn, native flux)."""
    import math
    from taurex.cache import OpacityCache
    from taurex.chemistry import TaurexChemistry, ConstantGas
    from taurex.temperature import Isothermal, NPoint, Guillot2010
    from taurex.pressure import SimplePressureProfile
    from taurex.planet import Planet
    from taurex.stellar import BlackbodyStar
    from taurex.model import TransmissionModel, EmissionModel, DirectImageModel
    from taurex.contributions import AbsorptionContribution, RayleighContribution, \
        SimpleCloudsContribution, LeeMieContribution, FlatMieContribution
    from taurex.binning import SimpleBinner, FluxBinner
    fx.reset_caches()
    OpacityCache().set_opacity_path(xdir)
    if case['interp'] != 'omitted':
        OpacityCache().set_interpolation(case['interp'])
    chem = TaurexChemistry(fill_gases=['H2', 'He'],
                           ratio=[v['ratio']] if case['chem'] == 'ratio_list' else v['ratio'])
    chem.addGas(ConstantGas('H2O', mix_ratio=v['h2o']))
    if case['chem'] != 'one':
        chem.addGas(ConstantGas('CH4', mix_ratio=float('%.3e' % v['ch4'])))
    if case['temp'] == 'isothermal':
        temp = Isothermal(T=v['T'])
    elif case['temp'] == 'npoint':
        temp = NPoint(T_surface=v['Tsurf'], T_top=v['Ttop'], temperature_points=[v['Tmid']],
                      pressure_points=[1e3], smoothing_window=2)
    else:
        temp = Guillot2010(T_irr=v['Tsurf'], kappa_v1=0.004, alpha=0.4)
    pres = SimplePressureProfile(nlayers=case['layers'], atm_min_pressure=1e-1, atm_max_pressure=1e6)
    planet = Planet(planet_mass=v['mass'], planet_radius=v['radius'])
    star = BlackbodyStar(temperature=v['tstar'], radius=v['rstar'])
    kw = dict(planet=planet, star=star, pressure_profile=pres, temperature_profile=temp, chemistry=chem)
    if case.get('press', 'section') == 'model-keys':
        kw = dict(planet=planet, star=star, temperature_profile=temp, chemistry=chem, nlayers=case['layers'],
                  atm_min_pressure=1e-1, atm_max_pressure=1e6)
    if case['model'] == 'transmission':
        model = TransmissionModel(**kw)
    elif case['model'] == 'emission':
        model = EmissionModel(ngauss=3, **kw)
    else:
        model = DirectImageModel(ngauss=3, **kw)
    for c in case['contribs'].split('+'):
        if c == 'abs':
            model.add_contribution(AbsorptionContribution())
        elif c == 'ray':
            model.add_contribution(RayleighContribution())
        elif c == 'clouds':
            model.add_contribution(SimpleCloudsContribution(clouds_pressure=v['pcloud']))
        elif c == 'lee':
            model.add_contribution(LeeMieContribution(lee_mie_radius=0.05, lee_mie_q=30, lee_mie_mix_ratio=1e-9,
                                                      lee_mie_bottomP=1e5, lee_mie_topP=1e1))
        elif c == 'flat':
            model.add_contribution(FlatMieContribution(flat_mix_ratio=1e-9, flat_bottomP=1e5, flat_topP=1e1))
    model.build()
    res = model.model()
    wn, flux = np.array(res[0], float), np.array(res[1], float)
    b = case['binning']
    err = None
    obs = case.get('obs', 'none')
    if b == 'native' or (b == 'none' and obs == 'none'):
        owl, ospec = 10000.0 / wn, flux
    elif b in ('none', 'observed'):
        from taurex.data.spectrum.observed import ObservedSpectrum
        o = ObservedSpectrum(cli_obs_file(case, xdir))
        binned = o.create_binner().bindown(wn, flux)
        owl, ospec = 10000.0 / np.array(o.wavenumberGrid, float), np.array(binned[1], float)
    else:
        if b.startswith('manual_wn'):
            grid, cls = np.linspace(1000.0, 3800.0, 6), SimpleBinner
        elif b == 'manual_wl_acc':
            grid, cls = np.sort(10000.0 / np.linspace(2.7, 9.5, 5)), FluxBinner
        else:
            grid, cls = 10 ** np.linspace(math.log10(900.0), math.log10(3900.0), 7), SimpleBinner
        binned = cls(grid).bindown(wn, flux)
        owl, ospec = 10000.0 / grid, np.array(binned[1], float)
        if b.endswith('+snr'):
            # documented: noise from the forward-model spectrum and the signal-to-noise ratio
            err = np.ones(ospec.shape) * (ospec.max() - ospec.min()) / v['snr'] / math.sqrt(4)
    return owl, ospec, err, wn, flux


def cli_self_expect(wn, flux):
    """taurex_spectrum = self with the manual_wn+snr letter: the instrument's bins (centres and widths of the manual
    binner) become the observation; the stored binned spectrum is the overlap mean over exactly those bins."""
    from taurex.binning import SimpleBinner, FluxBinner
    grid = np.linspace(1000.0, 3800.0, 6)
    widths = np.asarray(SimpleBinner(grid).bindown(wn, flux)[3], float)
    return grid, widths, np.asarray(FluxBinner(grid, widths).bindown(wn, flux)[1], float)


def cli_case(case):
    r = core.R(case)
    fx.reset_caches()
    xdir = fx.fresh_dir('c15_xsec')
    odir = fx.fresh_dir('c15_out')
    g = fx.rng('c15-xsec')
    T, P = [200.0, 900.0, 2500.0], [1e-2, 3e1, 1e7]
    for i, m in enumerate(('H2O', 'CH4')):
        x = 10 ** g.uniform(-27.5, -23.5, size=(3, 3, CLI_WN.size)) * 1e4
        fx.write_pickle_xsec(os.path.join(xdir, m + '.pickle'), m, CLI_WN, T, P, x)
    v = cli_values(case)
    text = cli_par(case, v, xdir)
    par = du.write_par(odir, text)
    sfile, hfile = os.path.join(odir, 'out.dat'), os.path.join(odir, 'out.h5')
    tag = '%s/%s' % (case['model'], case['binning'] + ('' if case.get('obs', 'none') == 'none' else '+obs'))
    if case['binning'] == 'observed' and case.get('obs', 'none') == 'none':
        return r        # the program stops with a message: nothing to compare
    if case.get('obs') == 'self' and not case['binning'].endswith('+snr'):
        return r        # 'self' needs an instrument (documented): only the instrument letter is enumerated with it
    # library first, then the program, each from reset caches
    owl, ospec, oerr, nwn, nflux = cli_library(case, v, xdir)
    fx.reset_caches()
    du.factory(reload=True)
    from taurex import taurex as prog
    old = sys.argv
    sys.argv = ['taurex', '-i', par, '-S', sfile, '-o', hfile]
    try:
        with contextlib.redirect_stdout(io.StringIO()):
            prog.main()
        err = None
    except (Exception, SystemExit) as e:
        err = e
    finally:
        sys.argv = old
    import logging
    logging.disable(logging.CRITICAL)
    if not r.check(err is None and os.path.isfile(sfile) and os.path.isfile(hfile), 'cli-runs',
                   'cli-failed/%s/%s' % (tag, exc_sig(err)), exc=repr(err), text=text):
        return r
    out = np.atleast_2d(np.loadtxt(sfile))
    r.observe(tag, out[:, :3])
    r.nontrivial = bool(np.ptp(nflux) > 1e-9 * np.max(np.abs(nflux)))
    r.check(bool(np.all(np.isfinite(out))) and bool(np.all(np.isfinite(ospec))), 'finite', 'cli-nonfinite/' + tag)
    if r.check(out.shape == (owl.size, 4), 'cli-shape', 'cli-shape/' + tag, got=out.shape, want=(owl.size, 4)):
        r.eq(out[:, 0], owl, 'cli-wavelength', 'cli-wavelength/' + tag, rtol=1e-12)
        r.eq(out[:, 1], ospec, 'cli-spectrum', 'cli-spectrum/' + tag, rtol=1e-12)
        r.eq(out[:, 2], oerr if oerr is not None else np.zeros(owl.size), 'cli-error', 'cli-error/' + tag,
             rtol=1e-12)
    import h5py
    with h5py.File(hfile, 'r') as f:
        sp = f['Output']['Spectra']
        r.eq(sp['native_wngrid'][...], nwn, 'hdf5-native', 'hdf5-native-grid/' + tag, rtol=1e-12)
        r.eq(sp['native_spectrum'][...], nflux, 'hdf5-native', 'hdf5-native/' + tag, rtol=1e-12)
        if case.get('obs') == 'self':
            sg, swid, sbin = cli_self_expect(nwn, nflux)
            r.eq(sp['binned_wngrid'][...], sg, 'hdf5-binned', 'hdf5-self-grid/' + tag, rtol=1e-12)
            r.eq(sp['binned_wnwidth'][...], swid, 'hdf5-binned', 'hdf5-self-width/' + tag, rtol=1e-9)
            r.eq(sp['binned_spectrum'][...], sbin, 'hdf5-binned', 'hdf5-self-binned/' + tag, rtol=1e-9)
            if r.check('Observed' in f, 'hdf5-observed', 'hdf5-no-observed/' + tag):
                r.eq(f['Observed']['binwidths'][...], swid, 'hdf5-observed', 'hdf5-self-observed-width/' + tag, rtol=1e-9)
                r.eq(f['Observed']['wlgrid'][...], 10000.0 / sg, 'hdf5-observed', 'hdf5-self-observed-grid/' + tag, rtol=1e-12)
        elif not (case['binning'] == 'native' or (case['binning'] == 'none' and case.get('obs', 'none') == 'none')):
            r.eq(sp['binned_spectrum'][...], ospec, 'hdf5-binned', 'hdf5-binned/' + tag, rtol=1e-12)
            r.eq(10000.0 / sp['binned_wngrid'][...], owl, 'hdf5-binned', 'hdf5-binned-grid/' + tag, rtol=1e-12)
        if case['binning'].endswith('+snr'):
            r.eq(sp['instrument_spectrum'][...], ospec, 'hdf5-instrument', 'hdf5-instrument/' + tag, rtol=1e-12)
            r.eq(sp['instrument_noise'][...], oerr, 'hdf5-instrument', 'hdf5-instrument-noise/' + tag, rtol=1e-12)
        r.check('ModelParameters' in f, 'hdf5-model', 'hdf5-no-model/' + tag)
        if case.get('obs', 'none') not in ('none', 'self'):
            rows = cli_obs_rows(case)
            if r.check('Observed' in f, 'hdf5-observed', 'hdf5-no-observed/' + tag):
                og = f['Observed']
                order = np.argsort(10000.0 / rows[:, 0])
                r.eq(og['wlgrid'][...], rows[order, 0], 'hdf5-observed', 'hdf5-observed-grid/' + tag, rtol=1e-12)
                r.eq(og['spectrum'][...], rows[order, 1], 'hdf5-observed', 'hdf5-observed-spectrum/' + tag, rtol=1e-12)
                r.eq(og['errorbars'][...], rows[order, 2], 'hdf5-observed', 'hdf5-observed-error/' + tag, rtol=1e-12)
    return r


def enumerate_cli(ctx):
    full = ctx.tier == 'thorough'
    if full:
        dims = dict(CLI_DIMS)
        cases = core.product_cases(dims, core=['model', 'binning', 'temp', 'contribs'], d=2)
        cases += [c for c in core.product_cases(dims, core=['model', 'binning', 'obs'], d=1) if c not in cases]
    else:
        cases = core.product_cases(CLI_DIMS, core=['model', 'binning'], d=1)
        cases += [c for c in core.product_cases(CLI_DIMS, core=['binning', 'obs'], d=0) if c not in cases]
    ctx.run_cases('cli_case', cases, phase='cli', chunk=2)
    ctx.bounds['cli'] = 'model x binning x temp x contribs full + 2 deviations' if full else \
        'model x binning full + 1 deviation'


def explore(ctx):
    doc_notes(ctx)
    enumerate_basic(ctx)
    enumerate_mixin(ctx)
    enumerate_custom(ctx)
    enumerate_aux(ctx)
    enumerate_cli(ctx)
