"""C19 - clouds and hazes act only inside their declared pressure range."""
import itertools
import math
import numpy as np

from mc import core, fixtures as fx, rthist
from mc.ref import rt

ID = 'C19'
RULE = ('histories: one live model, every sequence (depth 2, thorough 3; depth 3/4 over a sub-alphabet) of cloud / haze / '
        'temperature / pressure-range updates, evaluated after each and compared with a fresh model.  clouds: full product layers x pressure range x cloud-top letter (above max / on each level / on each '
        'layer pressure / between / below min) x companion absorber; hazes (FlatMie, LeeMie): full product layers x '
        'pressure range x top letter x bottom letter (unset, on a level, on a layer centre, inside a layer, outside '
        'above/below the range; all combinations incl. inverted and equal) x magnitude x particle letters.  Every '
        'case builds a fresh TransmissionModel and checks the per-layer opacity of the contribution and the model '
        'transmittance layer by layer.  Non-trivial = the window/cloud top cuts the atmosphere (some layers affected, '
        'some not).')
ASSUME = ['standard log-spaced pressure grid (SimplePressureProfile)', 'numba/numpy trusted',
          'layer is "wholly outside" when its level interval does not intersect the window (touching counts as partial)']

WN = fx.WN_GRIDS[4]
TG = fx.T_GRIDS[3]
PG = fx.P_GRIDS[3]
NS = [5, 2, 3, 6, 13]
PRANGES = [[1e6, 1e-1], [1e5, 1e1]]
BOUNDS = ['unset', 'level1', 'levelmid', 'centre', 'inside', 'top-level', 'bottom-level', 'above-range', 'below-range']


def levels_of(N, prange):
    pmax, pmin = prange
    return 10 ** np.linspace(math.log10(pmax), math.log10(pmin), N + 1)


def bound_value(letter, N, prange):
    lev = levels_of(N, prange)
    if letter == 'unset':
        return -1
    if letter == 'level1':
        return float(lev[1])
    if letter == 'levelmid':
        return float(lev[(N + 1) // 2])
    if letter == 'centre':
        k = N // 2
        return float(math.sqrt(lev[k] * lev[k + 1]))
    if letter == 'inside':
        k = max(N // 2 - 1, 0)
        return float(lev[k] ** 0.3 * lev[k + 1] ** 0.7)
    if letter == 'top-level':
        return float(lev[-1])
    if letter == 'bottom-level':
        return float(lev[0])
    if letter == 'above-range':
        return float(lev[0] * 50.0)
    if letter == 'below-range':
        return float(lev[-1] / 50.0)
    raise ValueError(letter)


def install(mag=1e-27):
    from taurex.cache import OpacityCache
    t = fx.table(3, 3, 4, mag, salt=('c19', 'H2O'))
    OpacityCache().add_opacity(fx.TinyOp('H2O', WN, TG, PG, t))


def base_spec(case, contribs):
    return {'kind': 'transmission', 'N': case['N'], 'prange': case['prange'], 'T': ['dec'],
            'gases': [['H2O', ['const', 1e-4]]], 'contribs': contribs, 'path': case.get('path', 'old')}


# ---------------------------------------------------------------------------------------------
def clouds_fn(case):
    r = core.R(case)
    N, prange = case['N'], case['prange']
    lev = levels_of(N, prange)
    layerP = np.sqrt(lev[:-1] * lev[1:])
    let = case['cloud']
    other = ['abs'] if case['with_abs'] else []
    fx.reset_caches()
    install()
    m0 = fx.build_model(base_spec(case, other))
    g0, d0, t0, _ = m0.model()
    modelP = np.asarray(m0.pressureProfile, float)      # the model's own layer pressures (bit-exact letters)
    if let == 'above':
        pc = float(lev[0] * 10)
    elif let == 'below':
        pc = float(lev[-1] / 10)
    elif let.startswith('level'):
        pc = float(lev[int(let[5:])])
    elif let.startswith('layer'):
        pc = float(modelP[int(let[5:])])
    else:
        k = int(let[7:])
        pc = float(layerP[k] ** 0.5 * lev[k + 1] ** 0.5)
    fx.reset_caches()
    install()
    if case.get('late'):
        # the deck is added to the already built and evaluated model (it then stands after the other sources)
        m = fx.build_model(base_spec(case, other))
        m.model()
        m.add_contribution(fx.make_contrib(['clouds', pc]))
    else:
        m = fx.build_model(base_spec(case, other + [['clouds', pc]]))
    g, d, t, _ = m.model()
    P = np.asarray(m.pressureProfile, float)
    r.eq(P, layerP, 'layer-pressures', 'setup/layer-pressure', rtol=1e-12)
    cl = [c for c in m.contribution_list if type(c).__name__ == 'SimpleCloudsContribution'][0]
    comps = list(cl.prepare_each(m, np.asarray(g)))
    r.check(len(comps) == 1, 'clouds-one-component', 'clouds/components')
    sig = np.asarray(comps[0][1], float)
    opaque = P >= pc          # at or below the cloud top (exactly-equal letter included)
    t = np.asarray(t, float)
    t0 = np.asarray(t0, float)
    r.check(bool(np.all(np.isinf(sig[opaque])) and np.all(sig[~opaque] == 0)), 'clouds-sigma',
            'clouds/sigma/%s' % let.rstrip('0123456789'), sigma=sig[:, 0], opaque=opaque)
    if case.get('late'):
        # the deck stands after the gas absorption: a layer the gas alone has already taken beyond tau = 10 at every
        # wavenumber may skip it (the licensed cut-off), so "opaque" means no more than exp(-10) here
        r.check(bool(np.all(t[opaque] <= math.exp(-10) * (1 + 1e-9))), 'clouds-opaque-below',
                'clouds/opaque-late/%s' % let.rstrip('0123456789'), trans=t[:, 0], opaque=opaque)
    else:
        r.check(bool(np.all(t[opaque] == 0)), 'clouds-opaque-below', 'clouds/opaque/%s' % let.rstrip('0123456789'),
                trans=t[:, 0], opaque=opaque)
    r.eq(t[~opaque], t0[~opaque], 'clouds-untouched-above', 'clouds/untouched/%s' % let.rstrip('0123456789'),
         rtol=1e-13)
    zb = np.asarray(m.altitude_boundaries, float)
    dz = np.asarray(m.deltaz, float)
    tref = t0.copy()
    tref[opaque] = math.exp(-10) * (1 + 1e-9) if case.get('late') else 0.0      # late: within the licensed cut-off
    dmin = rt.transit_depth(tref, m.planet.fullRadius, m.star.radius, zb[:-1], dz)
    r.check(bool(np.all(np.asarray(d) >= dmin * (1 - 1e-12))), 'clouds-depth-bound', 'clouds/depth',
            got=d, bound=dmin)
    r.check(bool(np.all(np.isfinite(d))), 'finite', 'clouds/finite')
    r.nontrivial = bool(opaque.any() and (~opaque).any())
    r.observe(d, t)
    return r


# ---------------------------------------------------------------------------------------------
# nested windows: a haze declared between two pressures lies inside a haze declared over a wider range, so no layer
# gets more extinction from the narrower declaration than from the wider one (a consequence of "only inside the
# declared range, with the declared magnitude", whatever share a partly covered layer is given); in particular a
# window of no width, and one that is a small part of a single layer, stay below every window that contains them
# ---------------------------------------------------------------------------------------------
def nest_fn(case):
    r = core.R(case)
    N, prange, kind = case['N'], case['prange'], case['kind']
    lev = levels_of(N, prange)
    llev = np.log10(lev)
    pts = [float(lev[0] * 30.0), float(lev[-1] / 30.0)] + [float(v) for v in lev]
    for k in range(N):
        for f in (0.2, 0.5, 0.8):
            pts.append(float(10 ** (llev[k] + f * (llev[k + 1] - llev[k]))))
    pts = sorted(set(pts))
    wins = [(a, b) for i, a in enumerate(pts) for b in pts[i:]]          # top pressure a <= bottom pressure b
    sigs = {}
    for (a, b) in wins:
        if kind == 'flat':
            contrib = ['flat', {'flat_mix_ratio': 1e-10, 'flat_topP': a, 'flat_bottomP': b}]
        else:
            contrib = ['lee', {'lee_mie_mix_ratio': 1e-10, 'lee_mie_topP': a, 'lee_mie_bottomP': b,
                               'lee_mie_radius': 0.05, 'lee_mie_q': 40.0}]
        fx.reset_caches()
        install()
        m = fx.build_model(base_spec(case, [contrib]))
        try:
            m.model()
        except Exception as e:
            r.check(False, 'no-exception', 'exception/%s/nested/%s' % (type(e).__name__, kind), exc=repr(e), window=[a, b])
            continue
        hz = [c for c in m.contribution_list if type(c).__name__ in ('FlatMieContribution', 'LeeMieContribution')][0]
        sigs[(a, b)] = np.asarray(hz.sigma_xsec, float)[:, 0].copy()
    npairs = 0
    for (a, b), s_in in sigs.items():
        for (c, d), s_out in sigs.items():
            if c <= a and b <= d and (a, b) != (c, d):
                npairs += 1
                ok = bool(np.all(s_in <= s_out * (1 + 1e-9) + 1e-300))
                if not ok:
                    same_layer = bool(np.searchsorted(-lev, -a, side='left') == np.searchsorted(-lev, -b, side='left'))
                    cls = 'no-width' if a == b else 'inside-one-layer' if (same_layer and a not in lev and b not in lev) \
                        else 'outside-the-grid' if (b < lev[-1] or a > lev[0]) else 'other'
                    r.check(False, 'nested-windows', 'nested/%s/%s' % (kind, cls), narrow=[a, b], wide=[c, d],
                            narrow_sigma=s_in, wide_sigma=s_out, levels=lev)
    r.count('nested-pairs', npairs)
    r.check(True, 'nested-windows')
    # adjoining windows: a haze between a and b next to one of the same magnitude between b and c is the haze between a
    # and c (optical depths add, each acts only inside its own range) - so a window of no width adds nothing, and the
    # share given to a partly covered layer is additive over its parts.  (For the all-or-nothing Lee haze, whose layers
    # are in or out by their own pressure, the shared bound b must not be exactly a layer pressure.)
    centres = set(float(10 ** (llev[k] + 0.5 * (llev[k + 1] - llev[k]))) for k in range(N))
    full = max((float(v_.max()) for v_ in sigs.values()), default=0.0)
    ntrip = 0
    for i, a in enumerate(pts):
        for j in range(i, len(pts)):
            b = pts[j]
            if kind == 'lee' and b in centres:
                continue
            for c in pts[j:]:
                if (a, b) in sigs and (b, c) in sigs and (a, c) in sigs:
                    ntrip += 1
                    tot = sigs[(a, b)] + sigs[(b, c)]
                    if not np.allclose(sigs[(a, c)], tot, rtol=1e-9, atol=1e-9 * full):
                        cls = 'no-width' if (a == b or b == c) else 'parts-of-a-layer'
                        r.check(False, 'adjoining-windows', 'adjoining/%s/%s' % (kind, cls), a=a, b=b, c=c,
                                whole=sigs[(a, c)], parts=[sigs[(a, b)], sigs[(b, c)]], levels=lev)
    r.count('adjoining-triples', ntrip)
    r.check(True, 'adjoining-windows')
    r.observe(sorted((k_, v_.tolist()) for k_, v_ in sigs.items()))
    r.nontrivial = npairs > 0
    return r


# ---------------------------------------------------------------------------------------------
def lee_sigma(wn, a_um, q):
    lam = 10000.0 / np.asarray(wn, float)
    x = 2.0 * math.pi * a_um / lam
    qext = 5.0 / (q * x ** (-4.0) + x ** 0.2)
    return qext * math.pi * (a_um * 1e-6) ** 2


def haze_fn(case):
    r = core.R(case)
    N, prange = case['N'], case['prange']
    lev = levels_of(N, prange)
    top = bound_value(case['top'], N, prange)
    bot = bound_value(case['bottom'], N, prange)
    kind = case['kind']
    mix = case['mix']
    if kind == 'flat':
        contrib = ['flat', {'flat_mix_ratio': mix, 'flat_topP': top, 'flat_bottomP': bot}]
        full = np.full(len(WN), mix)
    else:
        contrib = ['lee', {'lee_mie_mix_ratio': mix, 'lee_mie_topP': top, 'lee_mie_bottomP': bot,
                           'lee_mie_radius': case['radius'], 'lee_mie_q': case['q']}]
        full = lee_sigma(WN, case['radius'], case['q']) * mix
    fx.reset_caches()
    install()
    other = ['abs'] if case['with_abs'] else []
    spec_ = base_spec(case, other + [contrib])
    if case.get('pgrid') == 'uneven' and N >= 2:
        # layer pressures tabulated with alternating narrow and wide steps (0.3 and 1.1 dex): layers of very different
        # thickness in log pressure; the levels are then the model's own
        steps = np.where(np.arange(N - 1) % 2 == 0, 0.3, 1.1)
        spec_['parray'] = np.array(prange[0] * 10 ** (-np.concatenate([[0.15], 0.15 + np.cumsum(steps)])), dtype=float)
    m = fx.build_model(spec_)
    if case.get('pgrid') == 'uneven' and N >= 2:
        lev = np.asarray(m.pressure.pressure_profile_levels, dtype=float)
        if lev[0] < lev[-1]:
            lev = lev[::-1]
    tag = '%s/top=%s,bottom=%s%s' % (kind, case['top'], case['bottom'], ',uneven-grid' if case.get('pgrid') == 'uneven' else '')
    try:
        g, d, t, _ = m.model()
    except Exception as e:
        r.check(False, 'no-exception', 'exception/%s/%s' % (type(e).__name__, tag), exc=repr(e), top=top, bottom=bot)
        return r
    hz = [c for c in m.contribution_list if type(c).__name__ in ('FlatMieContribution', 'LeeMieContribution')][0]
    sig = np.asarray(hz.sigma_xsec, float)
    if not r.check(sig.shape == (N, len(WN)), 'sigma-shape', 'shape/' + kind, got=sig.shape):
        return r
    r.check(bool(np.all(np.isfinite(sig))), 'sigma-finite', 'nan/' + tag, sigma=sig[:, 0], top=top, bottom=bot)
    r.check(bool(np.all(np.isfinite(d))), 'depth-finite', 'nan-depth/' + tag)
    top_eff = top if top > 0 else float(lev[-1])
    bot_eff = bot if bot > 0 else float(lev[0])
    lo, hi = min(top_eff, bot_eff), max(top_eff, bot_eff)
    ordered = top_eff <= bot_eff
    n_in = n_out = 0
    for l in range(N):
        pmaxl, pminl = lev[l], lev[l + 1]
        eps = 1e-12
        if pmaxl < lo * (1 - eps) or pminl > hi * (1 + eps):
            n_out += 1
            r.check(bool(np.all(sig[l] == 0)), 'outside-window-zero', 'outside/' + tag, layer=l, sigma=sig[l],
                    window=[lo, hi], layer_levels=[pminl, pmaxl])
        elif pminl >= lo * (1 - eps) and pmaxl <= hi * (1 + eps) and ordered and hi > lo:
            n_in += 1
            r.eq(sig[l], full, 'inside-window-full', 'inside/' + tag, layer=l, window=[lo, hi],
                 layer_levels=[pminl, pmaxl], rtol=1e-9)
        else:
            with np.errstate(all='ignore'):
                ok = np.all(sig[l] >= 0) and np.all(sig[l] <= full * (1 + 1e-9))
            r.check(bool(ok), 'partial-window-range', 'partial/' + tag, layer=l, sigma=sig[l], full=full)
    t = np.asarray(t, float)
    r.check(bool(np.all(t >= 0) and np.all(t <= 1)), 'transmittance-range', 'trans-range/' + kind)
    # the haze alone, through both per-source entry points: the slant integral of exactly the per-layer extinction
    # judged above (same layers, same order), and that extinction is still what the source holds afterwards
    if np.all(np.isfinite(sig)):
        dens = np.asarray(m.densityProfile, float)
        segs, _, _ = rt.chord_segments(case.get('path', 'old'), m.planet.fullRadius,
                                       np.asarray(m.altitude_boundaries, float), np.asarray(m.deltaz, float))
        T_alone = np.exp(-rt.slant_tau(sig, dens, segs))
        try:
            _, cd = m.model_contrib()
            _, fd = m.model_full_contrib()
        except Exception as e:
            r.check(False, 'no-exception', 'exception/%s/per-source/%s' % (type(e).__name__, tag), exc=repr(e))
            return r
        if r.check(hz.name in cd and hz.name in fd and len(fd[hz.name]) == 1, 'haze-alone', 'alone-names/' + kind,
                   got=[sorted(cd), sorted(fd)]):
            r.eq(np.asarray(cd[hz.name][1], float), T_alone, 'haze-alone', 'alone/contrib/' + tag, rtol=1e-9, atol=1e-15)
            r.eq(np.asarray(fd[hz.name][0][2], float), T_alone, 'haze-alone', 'alone/component/' + tag, rtol=1e-9,
                 atol=1e-15)
        r.eq(np.asarray(hz.sigma_xsec, float), sig, 'haze-alone', 'alone/sigma-after/' + tag, rtol=0, atol=0)
    r.nontrivial = n_in > 0 and n_out > 0
    r.observe(sig, d)
    return r


# ---------------------------------------------------------------------------------------------
# history phase: cloud / haze parameters moved on one live model (a retrieval does exactly this)
# ---------------------------------------------------------------------------------------------
HIST_ALPHABET = [['clouds_pressure', 1e1], ['clouds_pressure', 1e3], ['clouds_pressure', 1e5], ['clouds_pressure', 1e8],
                 ['flat_topP', 1e0], ['flat_topP', 1e3], ['flat_topP', -1], ['flat_bottomP', 1e2], ['flat_bottomP', 1e5],
                 ['flat_bottomP', -1], ['flat_mix_ratio', 1e-33], ['flat_mix_ratio', 1e-29],
                 ['lee_mie_topP', 1e0], ['lee_mie_topP', 1e3], ['lee_mie_bottomP', 1e2], ['lee_mie_bottomP', 1e5],
                 ['lee_mie_mix_ratio', 1e-16], ['lee_mie_mix_ratio', 1e-9], ['lee_mie_radius', 0.3], ['lee_mie_q', 5.0],
                 ['T', 700.0], ['atm_max_pressure', 1e5], ['atm_max_pressure', 1e7], ['atm_min_pressure', 1e-3],
                 ['atm_min_pressure', 1e1]]
# requested spectral windows of equal length at both ends of the native grid, and the full grid again
HIST_ALPHABET += [['__window__', [1000.0, 2000.0]], ['__window__', [3000.0, 4000.0]], ['__window__', None]]
# ['H2O', 1.5]: a mixing ratio above one - the model is rejected, and the history goes on from there
HIST_REDUCED = [['H2O', 1.5], ['clouds_pressure', 1e1], ['clouds_pressure', 1e5], ['flat_topP', 1e0], ['flat_topP', -1],
                ['flat_bottomP', 1e2], ['lee_mie_topP', 1e3], ['lee_mie_bottomP', 1e2], ['atm_max_pressure', 1e7],
                ['atm_min_pressure', 1e-3]]


def hist_build(case, net=None):
    fx.reset_caches()
    install()
    flat = {'flat_mix_ratio': 1e-31}
    lee = {'lee_mie_mix_ratio': 1e-12, 'lee_mie_radius': 0.05, 'lee_mie_q': 40}
    if case.get('inv'):
        # both hazes are constructed with their bounds the wrong way round (top below bottom), then single bounds move
        flat.update(flat_topP=2e4, flat_bottomP=5e1)
        lee.update(lee_mie_topP=2e4, lee_mie_bottomP=5e1)
    cloud = 1e2
    if net is not None:
        # net settings of the cloud / haze parameters go into the constructors
        for k_ in list(net):
            if k_.startswith('flat_'):
                flat[k_] = net.pop(k_)
            elif k_.startswith('lee_mie_'):
                lee[k_] = net.pop(k_)
            elif k_ == 'clouds_pressure':
                cloud = net.pop(k_)
    spec = base_spec({'N': case['N'], 'prange': [1e6, 1e-1], 'path': 'old'},
                     ['abs', ['clouds', cloud], ['flat', flat], ['lee', lee]])
    spec['T'] = ['iso', 1000.0]
    return fx.build_model(spec)


def _haze_sigma(r, live, fresh, sig):
    for a, b in zip(live.contribution_list, fresh.contribution_list):
        if a.sigma_xsec is not None and b.sigma_xsec is not None:
            r.eq(np.asarray(a.sigma_xsec, float), np.asarray(b.sigma_xsec, float), 'history-contribution-opacity',
                 'history-sigma/%s/%s' % (type(a).__name__, sig), rtol=1e-12, atol=0.0)


def hist_fn(case):
    r = core.R(case)
    def build_with(net):
        m_ = hist_build(case, net)
        return m_, net
    rthist.run_history(r, case['hist'], lambda: hist_build(case), 'clouds-hazes', extra_eval=_haze_sigma, build_with=build_with, as_numpy=bool(case.get('np')), entry=case.get('entry', 'model'))
    return r


def intgrid_fn(case):
    """The same tabulated pressures handed over as an integer array and as a float array: every cloud / haze acts on the
    same layers with the same strength (and the whole model gives the same transmittance)."""
    r = core.R(case)
    P = [1000000, 100000, 10000, 1000, 100, 10][:case['N']]
    outs = []
    for dt in (np.int64, np.float64):
        fx.reset_caches()
        install()
        spec = base_spec({'N': case['N'], 'prange': [1e6, 1e-1], 'path': 'old'}, case['contribs'])
        spec['parray'] = np.array(P, dtype=dt)
        spec['T'] = ['iso', 1100.0]
        try:
            m = fx.build_model(spec)
            g, d, t, _ = m.model()
        except Exception as e:
            r.check(False, 'no-exception', 'intgrid/raised/%s/%s' % (type(e).__name__, dt.__name__), exc=repr(e))
            return r
        outs.append((np.asarray(d, float), np.asarray(t, float),
                     [(type(c).__name__, np.array(c.sigma_xsec, dtype=float)) for c in m.contribution_list]))
    (d1, t1, s1), (d2, t2, s2) = outs
    r.eq(t1, t2, 'integer-pressure-grid', 'intgrid/transmittance', rtol=1e-12, atol=1e-300)
    r.eq(d1, d2, 'integer-pressure-grid', 'intgrid/depth', rtol=1e-12)
    for (n1, a), (n2, b) in zip(s1, s2):
        with np.errstate(all='ignore'):
            same = a.shape == b.shape and bool(np.all((a == b) | (np.abs(a - b) <= 1e-12 * np.abs(b))))
        r.check(same, 'integer-pressure-grid', 'intgrid/sigma/' + n1, got=a[:, 0], want=b[:, 0])
    r.observe(d1)
    r.nontrivial = True
    return r


def explore(ctx):
    thorough = ctx.tier == 'thorough'
    ig = []
    for N in (6, 3, 2):
        for cb in (['abs', ['clouds', 1e3]], ['abs', ['flat', {'flat_mix_ratio': 1e-30}]],
                   ['abs', ['flat', {'flat_mix_ratio': 1e-30, 'flat_topP': 1e2, 'flat_bottomP': 1e5}]],
                   ['abs', ['lee', {'lee_mie_mix_ratio': 1e-11, 'lee_mie_radius': 0.05, 'lee_mie_q': 40}]],
                   ['abs', ['lee', {'lee_mie_mix_ratio': 1e-11, 'lee_mie_radius': 0.05, 'lee_mie_q': 40,
                                    'lee_mie_topP': 1e2, 'lee_mie_bottomP': 1e5}]],
                   ['abs', 'ray', ['clouds', 1e4], ['flat', {'flat_mix_ratio': 1e-30}],
                    ['lee', {'lee_mie_mix_ratio': 1e-11, 'lee_mie_radius': 0.05, 'lee_mie_q': 40}]]):
            ig.append({'N': N, 'contribs': cb})
    ctx.run_cases('intgrid_fn', ig, phase='intgrid')
    ccases = []
    for N, pr, wa in itertools.product(NS, PRANGES, [True, False]):
        letters = ['above', 'below'] + ['level%d' % k for k in range(N + 1)] + ['layer%d' % k for k in range(N)] + \
            ['between%d' % k for k in range(N)]
        for let in letters:
            for path in (['old', 'new'] if thorough else ['old']):
                ccases.append({'N': N, 'prange': pr, 'cloud': let, 'with_abs': wa, 'path': path})
                if wa and path == 'old':
                    ccases.append({'N': N, 'prange': pr, 'cloud': let, 'with_abs': wa, 'path': path, 'late': True})
    ctx.run_cases('clouds_fn', ccases, phase='clouds')
    hcases = []
    ns = (NS if 1 in NS else NS + [1]) if thorough else [5, 2, 3, 13, 1]
    mixes = [1e-10, 1e-30, 1.0] if thorough else [1e-10, 1.0]
    for N, pr, top, bot in itertools.product(ns, PRANGES, BOUNDS, BOUNDS):
        for mix in mixes:
            hcases.append({'kind': 'flat', 'N': N, 'prange': pr, 'top': top, 'bottom': bot, 'mix': mix,
                           'with_abs': mix == 1e-10})
        for mix, (rad, q) in itertools.product(mixes[:2], [(0.05, 40.0), (1.0, 2.0)] if thorough else [(0.05, 40.0)]):
            hcases.append({'kind': 'lee', 'N': N, 'prange': pr, 'top': top, 'bottom': bot, 'mix': mix,
                           'radius': rad, 'q': q, 'with_abs': mix == 1e-10})
    hcases += [dict(c_, pgrid='uneven') for c_ in hcases if c_['kind'] == 'flat' and c_['N'] in (3, 5) and c_['mix'] == 1e-10]
    ctx.run_cases('haze_fn', hcases, phase='hazes')
    nc = [{'kind': k_, 'N': n_, 'prange': pr} for k_ in ('flat', 'lee') for n_ in ((1, 2, 3, 5) if thorough else (1, 3))
          for pr in PRANGES[:(len(PRANGES) if thorough else 1)]]
    ctx.run_cases('nest_fn', nc, phase='nested-windows', chunk=1)
    if thorough:
        hs = rthist.histories(HIST_ALPHABET, 3, HIST_REDUCED, 4)
    else:
        hs = rthist.histories(HIST_ALPHABET, 2, HIST_REDUCED, 3)
    hist_cases = [{'N': n, 'hist': h} for n in ((5, 3) if thorough else (5,)) for h in hs]
    hist_cases += [{'N': 5, 'hist': h, 'inv': True} for h in hs
                   if len(h) <= (3 if thorough else 2) and all(o[0].startswith(('flat_', 'lee_mie_')) for o in h)]
    # every single update once more with the value handed over as a numpy float64 scalar
    hist_cases += [dict(c_, np=True) for c_ in hist_cases if len(c_['hist']) == 1]
    # ... and with the first evaluation after the update going through model_full_contrib / model_contrib
    hist_cases += [dict(c_, entry=e_) for c_ in hist_cases if len(c_['hist']) == 1 and not c_.get('np') for e_ in ('full', 'contrib')]
    ctx.run_cases('hist_fn', hist_cases, phase='histories')
    ctx.bounds.update(history_depth=3 if thorough else 2, history_depth_reduced=4 if thorough else 3,
                      histories=len(hist_cases))
    ctx.bounds.update(layers=ns, bound_letters=len(BOUNDS), clouds_cases=len(ccases), haze_cases=len(hcases))
