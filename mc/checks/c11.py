"""C11 - vertical structure is hydrostatic, ordered and one value per layer (DESIGN.md section 4, C11).

Engine E1.  A case builds a real Transmission/Emission model from (layer count, pressure range,
planet, temperature letter, molecular-weight letter, pressure source), calls build() (and
initialize_profiles() a second time, the path model() takes), and compares every exposed per-layer
quantity, the dictionary of generate_profiles() and the HDF5 group written by store_profiles()
with mc/ref/hydro.py, by length *and* by value (index i must refer to layer i).
"""
import os

import numpy as np

from mc import core, fixtures as fx
from mc.ref import hydro as rhydro
from mc.ref import chem as rchem

ID = 'C11'
RULE = ('full product of layer count x pressure range x planet (M,R) x temperature letter x '
        'molecular-weight letter x pressure source (simple / array / file letters) x model '
        '(thorough); quick: full product of layer count x pressure source x planet x weight letter '
        'plus <=2 deviations over the rest.  Non-trivial: N >= 2 and at least one of T, mu, g varies '
        'with height (it always does for g).')
ASSUME = ['numpy / h5py trusted; constants G, KBOLTZ, AMU, MJUP, RJUP from taurex.constants',
          'array / file pressure sources: N >= 2 (levels of a single tabulated layer are undefined); the '
          'levels the source derives are taken as given when they are strictly decreasing (statement: "for any '
          'decreasing levels"), a tabulated profile whose derived levels are not decreasing is only counted',
          'temperature and molecular-weight profiles are inputs here (C12 / C10 decide them)',
          'planet/temperature/weight letters for which the reference integration itself overflows (unbound '
          'atmosphere, g -> 0) are compared by value only (strict increase is not demanded of infinities)']

NS = [5, 1, 2, 3, 10, 100]
PRANGES = {'std': (1e-4, 1e6), 'twelve': (1e-6, 1e6), 'short': (1e-1, 1e5), 'narrow': (1e2, 1e3)}
PLANETS = {'jup': (1.0, 1.0), 'neptune': (0.054, 0.35), 'heavy': (10.0, 1.2), 'earth': (0.00315, 0.0892),
           'puffy': (0.3, 1.8)}
TLETTERS = ['iso1500', 'dec', 'inv', 'cold', 'int-dec']     # int-dec: whole numbers handed over as Python ints
MULETTERS = ['const', 'varying', 'heavy']
PSOURCES = ['simple', 'array-grid', 'array-mild', 'array-wild', 'array-reverse', 'file-pa', 'file-bar-col1',
            'file-reverse', 'file-bar-reverse', 'array-edge',
            # pressure in the second column of a file without header lines / in the first column below two header lines
            'file-col1-nohead', 'file-col0-head2']
MODELS = ['transmission', 'emission']
PER_LAYER = ['temp_profile', 'density_profile', 'scaleheight_profile', 'altitude_profile',
             'gravity_profile', 'pressure_profile', 'mu_profile']


def temperature_values(n, letter):
    x = np.linspace(0.0, 1.0, n) if n > 1 else np.zeros(1)
    if letter == 'iso1500':
        return None
    if letter == 'cold':
        return np.full(n, 150.0) + 0 * x
    if letter == 'dec':
        return 2000.0 - 1300.0 * x
    if letter == 'inv':
        return 700.0 + 1500.0 * x ** 2
    if letter == 'int-dec':
        return [2000 - (1300 // max(n - 1, 1)) * k for k in range(n)]
    raise ValueError(letter)


def tabulated_pressures(n, prange, letter):
    """Strictly decreasing layer pressures (Pa), surface first."""
    pmin, pmax = PRANGES[prange]
    grid = rhydro.layer_pressure(rhydro.simple_levels(n, pmin, pmax))
    if letter in ('array-grid', 'array-reverse', 'file-pa', 'file-bar-col1', 'file-reverse', 'file-bar-reverse',
                  'file-col1-nohead', 'file-col0-head2'):
        return grid
    lg = np.log10(grid)
    if letter == 'array-edge':
        # evenly spaced in log P except for the two outermost steps, which are four times smaller (a finely sampled
        # top and bottom; beyond a factor five the levels the unchanged derivation gives are no longer ordered)
        steps = np.ones(n - 1)
        steps[0] = steps[-1] = 0.25
        steps = steps / steps.sum() * (lg[0] - lg[-1])
        return 10 ** (lg[0] - np.concatenate([[0.0], np.cumsum(steps)]))
    r = fx.rng('c11', letter, n)
    if letter == 'array-mild':      # consecutive log-steps differ by at most a factor ~2
        steps = r.uniform(1.0, 2.0, size=n - 1)
    else:                           # 'array-wild': log-steps spanning a factor 30
        steps = 10 ** r.uniform(0.0, 1.5, size=n - 1)
        steps[::2] = 1.0
    steps = steps / steps.sum() * (lg[0] - lg[-1])
    out = lg[0] - np.concatenate([[0.0], np.cumsum(steps)])
    return 10 ** out


def build_model(case):
    from taurex.data import Planet
    from taurex.data.stellar import BlackbodyStar
    from taurex.data.profiles.temperature import Isothermal
    from taurex.data.profiles.temperature.temparray import TemperatureArray
    from taurex.data.profiles.pressure import SimplePressureProfile
    from taurex.data.profiles.pressure.arraypressure import ArrayPressureProfile
    from taurex.data.profiles.pressure.filepressure import FilePressureProfile
    from taurex.data.profiles.chemistry import TaurexChemistry, ConstantGas
    from taurex.data.profiles.chemistry.gas.arraygas import ArrayGas
    from taurex.model import TransmissionModel, EmissionModel
    from taurex.cache import OpacityCache

    n = case['N']
    pmin, pmax = PRANGES[case['prange']]
    M, R = PLANETS[case['planet']]
    OpacityCache().add_opacity(fx.TinyOp('H2O', fx.WN_GRIDS[3], fx.T_GRIDS[2], fx.P_GRIDS[2],
                                         fx.table(2, 2, 3, 1e-24, salt='c11')))
    src = case['psource']
    given = None
    if src == 'simple':
        press = SimplePressureProfile(n, pmin, pmax)
    else:
        given = tabulated_pressures(n, case['prange'], src)
        if src.startswith('array'):
            if src == 'array-reverse':
                press = ArrayPressureProfile(np.array(given[::-1]), reverse=True)
            else:
                press = ArrayPressureProfile(np.array(given))
        else:
            d = fx.fresh_dir('c11_files')
            path = os.path.join(d, 'pressure.dat')
            with open(path, 'w') as f:
                if src == 'file-pa':
                    for p in given:
                        f.write('%.17e\n' % p)
                elif src == 'file-bar-col1':
                    f.write('# index pressure[bar]\n')
                    for i, p in enumerate(given):
                        f.write('%d %.17e\n' % (i, p / 1e5))
                elif src == 'file-bar-reverse':        # top-down file in bar
                    for p in given[::-1]:
                        f.write('%.17e\n' % (p / 1e5))
                elif src == 'file-col1-nohead':
                    for i, p in enumerate(given):
                        f.write('%d %.17e\n' % (i, p))
                elif src == 'file-col0-head2':
                    f.write('# pressure[Pa] index\n# second header line\n')
                    for i, p in enumerate(given):
                        f.write('%.17e %d\n' % (p, i))
                else:
                    for p in given[::-1]:
                        f.write('%.17e\n' % p)
            if src == 'file-pa':
                press = FilePressureProfile(path)
            elif src == 'file-bar-col1':
                press = FilePressureProfile(path, usecols=1, skiprows=1, units='bar')
            elif src == 'file-bar-reverse':
                press = FilePressureProfile(path, units='bar', reverse=True)
            elif src == 'file-col1-nohead':
                press = FilePressureProfile(path, usecols=1, skiprows=0)
            elif src == 'file-col0-head2':
                press = FilePressureProfile(path, usecols=0, skiprows=2)
            else:
                press = FilePressureProfile(path, reverse=True)
    tv = temperature_values(n, case['T'])
    tvia = case.get('Tvia', 'plain')
    if tv is None:
        temp = Isothermal(1500.0)
    elif tvia == 'plain' or n < 2:
        temp = TemperatureArray(tp_array=list(tv))
    else:
        # the temperatures come with their own pressure points (here: exactly the layer pressures, so that every layer
        # must get its own tabulated value), listed from the surface up or - 'points-reverse' - from the top down
        pp = np.asarray(given if given is not None else
                        rhydro.layer_pressure(rhydro.simple_levels(n, pmin, pmax)), dtype=float)
        if tvia == 'points':
            temp = TemperatureArray(tp_array=list(tv), p_points=list(pp))
        else:
            temp = TemperatureArray(tp_array=list(tv)[::-1], p_points=list(pp)[::-1], reverse=True)
    tv = None if tv is None else np.asarray(tv, dtype=float)
    mu = case['mu']
    if mu == 'const':
        chem = TaurexChemistry(fill_gases=['H2', 'He'], ratio=0.17)
        chem.addGas(ConstantGas('H2O', 1e-3))
    elif mu == 'varying':
        chem = TaurexChemistry(fill_gases=['H2', 'He'], ratio=0.17)
        chem.addGas(ArrayGas('H2O', [0.6, 1e-2, 1e-5]))
        chem.addGas(ConstantGas('CO2', 1e-2))
    else:
        chem = TaurexChemistry(fill_gases=['N2', 'CO2'], ratio=0.5)
        chem.addGas(ConstantGas('H2O', 1e-2))
    klass = TransmissionModel if case['model'] == 'transmission' else EmissionModel
    tm = klass(planet=Planet(planet_mass=M, planet_radius=R), star=BlackbodyStar(),
               pressure_profile=press, temperature_profile=temp, chemistry=chem)
    return tm, given, tv


def case_fn(case):
    from taurex.constants import MJUP, RJUP
    r = core.R(case)
    fx.reset_caches()
    n = case['N']
    src = case['psource']
    pmin, pmax = PRANGES[case['prange']]
    M, R = PLANETS[case['planet']]
    with np.errstate(all='ignore'):
        tm, given, tv = build_model(case)
        tm.build()
        tm.initialize_profiles()      # what model() does before every evaluation
    kind = 'simple' if src == 'simple' else src.split('-')[0]

    # ---- pressure grid ------------------------------------------------------------------
    levels = np.asarray(tm.pressure.pressure_profile_levels, dtype=float)
    P = np.asarray(tm.pressureProfile, dtype=float)
    if not r.check(levels.shape == (n + 1,) and P.shape == (n,), 'pressure-lengths',
                   'pressure/%s/lengths' % kind, levels=levels.shape, layers=P.shape, N=n):
        return r
    decreasing = bool(np.all(np.diff(levels) < 0))
    if src == 'simple':
        r.check(decreasing, 'levels-decreasing', 'pressure/simple/levels-not-decreasing', levels=levels)
        r.eq(levels, rhydro.simple_levels(n, pmin, pmax), 'levels-log-spaced', 'pressure/simple/levels-value',
             rtol=1e-9)
        r.eq(P, rhydro.layer_pressure(levels), 'layer-geometric-mean', 'pressure/simple/geometric-mean',
             rtol=1e-12)
    else:
        r.eq(P, given, 'tabulated-pressure-aligned', 'pressure/%s/not-aligned' % src, rtol=1e-12)
        if src == 'array-wild':
            r.count('wild-array-levels-%s' % ('decreasing' if decreasing else 'not-decreasing'))
        else:
            r.check(decreasing, 'levels-decreasing', 'pressure/%s/levels-not-decreasing' % kind, levels=levels)
    if not decreasing:
        r.observe('levels-not-decreasing', levels)
        return r

    # ---- inputs of the hydrostatic relation ---------------------------------------------------
    T = np.asarray(tm.temperatureProfile, dtype=float)
    mu = np.asarray(tm.chemistry.muProfile, dtype=float)
    ok = r.check(T.shape == (n,), 'length', 'length/temperatureProfile', got=T.shape, N=n)
    ok &= r.check(mu.shape == (n,), 'length', 'length/muProfile', got=mu.shape, N=n)
    if not ok:
        return r
    if tv is not None:
        r.eq(T, tv, 'temperature-aligned', 'aligned/temperatureProfile/%s' % case.get('Tvia', 'plain'), rtol=1e-9)
    names = list(tm.chemistry.gases)
    r.eq(mu, rchem.mu_profile(names, np.asarray(tm.chemistry.mixProfile, dtype=float)), 'mu-aligned',
         'aligned/muProfile', rtol=1e-9)

    z, H, g, dz = rhydro.hydrostatic(levels, T, mu, M * MJUP, R * RJUP)
    dens = rhydro.number_density(P, T)
    # the planet's own integration, in every length unit it offers (the default is metres)
    for unit, fac in (('m', 1.0), ('km', 1e-3), ('cm', 1e2)):
        with np.errstate(all='ignore'):
            out = tm.planet.calculate_scale_properties(T, levels, mu, length_units=unit) if unit != 'm' else \
                tm.planet.calculate_scale_properties(T, levels, mu)
        for nm_, a_, w_ in zip(('z', 'H', 'g', 'dz'), out, (z, H, g, dz)):
            a_ = np.asarray(a_, dtype=float)
            if r.check(a_.shape == w_.shape, 'length', 'scale-properties/length/%s/%s' % (nm_, unit), got=a_.shape,
                       want=w_.shape):
                r.eq(a_, w_ * fac, 'value', 'scale-properties/value/%s/%s' % (nm_, unit), rtol=1e-9, atol=0)
    want = {'altitude_boundaries': z, 'altitudeProfile': z[:-1], 'deltaz': dz, 'gravity_profile': g,
            'scaleheight_profile': H, 'densityProfile': dens}
    got = {}
    for name, w in want.items():
        a = getattr(tm, name)
        a = None if a is None else np.asarray(a, dtype=float)
        got[name] = a
        if r.check(a is not None and a.shape == w.shape, 'length', 'length/%s' % name,
                   got=None if a is None else a.shape, want=w.shape, N=n):
            r.eq(a, w, 'value', 'value/%s' % name, rtol=1e-9, atol=0)
        elif a is not None and a.ndim == 1 and 0 < a.shape[0] < w.shape[0]:
            # which layers survived?  (reported only; the violation is the length)
            r.count('truncated/%s/%s' % (name, 'head-kept' if core.close(a, w[:a.shape[0]], 1e-9) else
                                         'tail-kept' if core.close(a, w[-a.shape[0]:], 1e-9) else 'other'))
    zb = got['altitude_boundaries']
    if zb is not None and zb.shape == (n + 1,):
        r.check(zb[0] == 0.0, 'altitude-starts-at-zero', 'altitude/surface-not-zero', got=zb[0])
        if np.all(np.isfinite(z)) and np.all(np.diff(z) > 0):
            r.check(bool(np.all(np.diff(zb) > 0)), 'altitude-strictly-increasing', 'altitude/not-increasing', got=zb)
        else:
            # unbound atmosphere (scale height diverges as g -> 0): the integration overflows in the
            # reference too; outside the value lattice, values are still compared (inf == inf)
            r.count('unbound-atmosphere-overflow')

    # ---- generate_profiles() -----------------------------------------------------------------
    prof = tm.generate_profiles()
    act = np.asarray(tm.chemistry.activeGasMixProfile, dtype=float)
    inact = np.asarray(tm.chemistry.inactiveGasMixProfile, dtype=float)
    row = dict(zip(names, np.asarray(tm.chemistry.mixProfile, dtype=float)))
    wantp = {'temp_profile': T, 'density_profile': dens, 'scaleheight_profile': H, 'altitude_profile': z[:-1],
             'gravity_profile': g, 'pressure_profile': P, 'mu_profile': mu,
             'active_mix_profile': np.vstack([row[m] for m in tm.chemistry.activeGases]),
             'inactive_mix_profile': np.vstack([row[m] for m in tm.chemistry.inactiveGases])}
    compare_profiles(r, 'profiles-dict', prof, wantp, n)

    # ---- store_profiles() -> HDF5 -> read back ------------------------------------------------
    import h5py
    from taurex.output.hdf5 import HDF5Output
    from taurex.util.output import store_profiles
    d = fx.fresh_dir('c11_out')
    path = os.path.join(d, 'out.h5')
    with HDF5Output(path) as o:
        grp = o.create_group('Profiles')
        store_profiles(grp, tm)
    stored = {}
    with h5py.File(path, 'r') as f:
        for k in f['Profiles']:
            stored[k] = f['Profiles'][k][()]
    wants = dict(wantp)
    wants.pop('mu_profile')
    compare_profiles(r, 'stored', stored, wants, n)

    r.observe(levels, P, zb, got['gravity_profile'], got['scaleheight_profile'], got['densityProfile'])
    r.nontrivial = n >= 2
    return r


def compare_profiles(r, where, have, want, n):
    for k, w in want.items():
        if not r.check(k in have and have[k] is not None, 'present', '%s/missing/%s' % (where, k)):
            continue
        a = np.asarray(have[k], dtype=float)
        if r.check(a.shape == w.shape, 'length', '%s/length/%s' % (where, k), got=a.shape, want=w.shape, N=n):
            r.eq(a, w, 'value', '%s/value/%s' % (where, k), rtol=1e-9, atol=0)
    for k in have:
        # anything else that claims to be a per-layer profile must have a layer axis of length N
        if k in want or have[k] is None:
            continue
        a = np.asarray(have[k])
        if k.endswith('_profile') and a.ndim >= 1:
            r.check(a.shape[-1] == n, 'length', '%s/length/%s' % (where, k), got=a.shape, N=n)


# ---------------------------------------------------------------------------------------------
# history phase: structure parameters updated on one live model (what a retrieval does), every
# sequence up to the depth bound, against a fresh model with the net settings and the reference
# ---------------------------------------------------------------------------------------------
HIST_ALPHABET = [['planet_radius', 0.6], ['planet_radius', 1.5], ['planet_mass', 0.4], ['planet_mass', 2.5],
                 ['T', 600.0], ['T', 2100.0], ['atm_max_pressure', 1e5], ['atm_max_pressure', 1e7],
                 ['atm_min_pressure', 1e-3], ['atm_min_pressure', 1e0], ['H2O', 1e-6], ['H2O', 0.3], ['He_H2', 0.5],
                 # mass and radius written together, to a pair with exactly the surface gravity of the start, and to
                 # temperature / weight pairs with the same surface scale height
                 ['__multi__', [['planet_mass', 4.0], ['planet_radius', 2.0]]],
                 ['__multi__', [['planet_mass', 0.25], ['planet_radius', 0.5]]],
                 ['__multi__', [['T', 2400.0], ['planet_mass', 2.0]]],
                 # the pressure range moved to one that does not overlap the old one, either bound first (the object
                 # passes through an inverted range between the two writes; only the final pair counts)
                 ['__multi__', [['atm_min_pressure', 1e7], ['atm_max_pressure', 1e9]]],
                 ['__multi__', [['atm_max_pressure', 1e9], ['atm_min_pressure', 1e7]]],
                 ['__multi__', [['atm_max_pressure', 1e-3], ['atm_min_pressure', 1e-6]]],
                 ['__multi__', [['atm_min_pressure', 1e-6], ['atm_max_pressure', 1e-3]]]]
HIST_REDUCED = [['planet_radius', 0.6], ['planet_radius', 1.5], ['planet_mass', 0.4], ['T', 600.0], ['H2O', 0.3],
                ['atm_max_pressure', 1e5]]
STRUCT_ATTRS = ['pressureProfile', 'temperatureProfile', 'densityProfile', 'altitudeProfile', 'gravity_profile',
                'scaleheight_profile', 'deltaz', 'altitude_boundaries']


def hist_build(case, net=None):
    from mc import fixtures as fx, rthist
    from taurex.cache import OpacityCache
    fx.reset_caches()
    OpacityCache().add_opacity(fx.TinyOp('H2O', fx.WN_GRIDS[4], fx.T_GRIDS[3], fx.P_GRIDS[3],
                                         fx.table(3, 3, 4, 1e-27, salt=('c11', 'H2O'))))
    spec = {'kind': case['kind'], 'N': case['N'], 'T': ['iso', 1200.0],
                           'gases': [['H2O', ['const', 1e-4]]], 'contribs': ['abs'], 'ngauss': 2}
    if net is not None:
        spec, rest = rthist.spec_with_net(spec, net)
        return fx.build_model(spec), rest
    return fx.build_model(spec)


def _struct_eval(r, live, fresh, sig):
    from mc.ref import hydro
    from taurex.constants import KBOLTZ, G
    for a in STRUCT_ATTRS:
        r.eq(np.asarray(getattr(live, a), float), np.asarray(getattr(fresh, a), float), 'history-structure',
             'history-structure/%s/%s' % (a, sig), rtol=1e-12, atol=0.0)
    # and against first principles on the live object: g_i = G M / (R + z_i)^2, H_i = k T_i / (mu_i g_i)
    z = np.asarray(live.altitudeProfile, float)
    g_ref = G * live.planet.fullMass / (live.planet.fullRadius + z) ** 2
    r.eq(np.asarray(live.gravity_profile, float), g_ref, 'history-gravity-inverse-square',
         'history-gravity/' + sig, rtol=1e-9)
    H_ref = KBOLTZ * np.asarray(live.temperatureProfile, float) / (np.asarray(live.chemistry.muProfile, float) * g_ref)
    r.eq(np.asarray(live.scaleheight_profile, float), H_ref, 'history-scaleheight', 'history-scaleheight/' + sig,
         rtol=1e-9)
    r.eq(np.asarray(live.densityProfile, float), np.asarray(live.pressureProfile, float) /
         (KBOLTZ * np.asarray(live.temperatureProfile, float)), 'history-density', 'history-density/' + sig, rtol=1e-12)


def hist_fn(case):
    from mc import rthist
    r = core.R(case)
    rthist.run_history(r, case['hist'], lambda: hist_build(case), 'structure/' + case['kind'], extra_eval=_struct_eval, build_with=lambda net: hist_build(case, net), as_numpy=bool(case.get('np')),
                       entry=case.get('entry', 'model'))
    return r


def explore(ctx):
    dims = {'N': NS, 'psource': PSOURCES, 'planet': list(PLANETS), 'mu': MULETTERS, 'prange': list(PRANGES),
            'T': TLETTERS, 'model': MODELS, 'Tvia': ['plain', 'points', 'points-reverse']}
    if ctx.tier == 'thorough':
        dims['N'] = NS + [4, 7, 13, 30, 57]
        cases = core.product_cases(dims, full=True)
    else:
        cases = core.product_cases(dims, core=['N', 'psource', 'planet', 'mu'], d=2)
    cases = [c for c in cases if not (c['N'] < 2 and c['psource'] != 'simple')]
    ctx.bounds.update(layer_counts=dims['N'], cases=len(cases), deviations='full' if ctx.tier == 'thorough' else 2)
    ctx.run_cases('case_fn', cases, phase='inputs')
    from mc import rthist
    if ctx.tier == 'thorough':
        hs = [h for h in rthist.histories(HIST_ALPHABET, 3, HIST_REDUCED, 4) if rthist.range_ordered(h)]
        cfgs = [('transmission', 4), ('emission', 3), ('transmission', 1)]
    else:
        hs = [h for h in rthist.histories(HIST_ALPHABET, 2, HIST_REDUCED, 3) if rthist.range_ordered(h)]
        cfgs = [('transmission', 4), ('emission', 3)]
    hcases = [{'kind': k, 'N': n, 'hist': h} for (k, n) in cfgs for h in hs]
    ctx.bounds.update(histories=len(hcases), history_depth=3 if ctx.tier == 'thorough' else 2)
    # every single update once more with the value handed over as a numpy float64 scalar
    hcases += [dict(c_, np=True) for c_ in hcases if len(c_['hist']) == 1]
    # ... and with the first evaluation after the update going through model_full_contrib / model_contrib
    hcases += [dict(c_, entry=e_) for c_ in hcases if len(c_['hist']) == 1 and not c_.get('np') for e_ in ('full', 'contrib')]
    ctx.run_cases('hist_fn', hcases, phase='histories')
