"""Writers for every opacity / k-table / CIA container TauREx reads (DESIGN.md 2.9, C14).

All writers take ONE logical table in SI-like "physical" form and encode it the way the format's
documentation says the container stores it; the unit conversions below are written from the
format descriptions, not from the readers:

    cross-sections  tab = {'wn': [nW] cm-1 ascending, 'T': [nT] K, 'P': [nP] Pa,
                           'x': [nP, nT, nW] m^2 / molecule}
    k-tables        the same with 'x': [nP, nT, nW, nG] and 'weights': [nG]
    CIA             {'wn': [nW], 'T': [nT], 'x': [nT, nW] m^5 / molecule^2}
    HITRAN CIA      a list of blocks {'wn': [n] , 'rows': {T: [n] m^5}} (per-temperature wavenumber
                    ranges: a block lists only the temperatures at which it was measured)

    container                      pressure            cross-section      spectral axis
    TauREx2 pickle (.pickle)       bar                 cm^2               wavenumber cm-1
    HDF5 (.h5/.hdf5)               attrs['units']      cm^2               wavenumber cm-1
    Exo-Transmit (.dat)            bar (*)             m^2                wavelength m, ascending
    pickle / HDF5 k-table          bar / attrs         cm^2               bin centres cm-1
    CIA pickle (.db)               -                   m^5 (TauREx2: SI)  wavenumber cm-1
    HITRAN (.cia)                  -                   cm^5 molecule^-2   wavenumber cm-1

(*) as read by taurex/opacity/exotransmit.py (second header line times 1e5).

Nothing here imports taurex.
"""
import pickle

import numpy as np

# Pa per unit, from the SI brochure / CODATA definitions (independent of astropy)
PA_PER_UNIT = {
    'Pa': 1.0,
    'bar': 1.0e5,
    'mbar': 1.0e2,
    'atm': 101325.0,
    'hPa': 1.0e2,
    'kPa': 1.0e3,
    'Ba': 0.1,             # barye, dyn cm-2
    'torr': 101325.0 / 760.0,
}

CM2_PER_M2 = 1.0e4
CM5_PER_M5 = 1.0e10


def _f(a):
    return np.array(a, dtype=float)


# ----------------------------------------------------------------------------------------------
# cross-sections
# ----------------------------------------------------------------------------------------------
class _Py2Pickler(pickle._Pickler):
    """Protocol-2 pickles as Python 2 wrote them: byte strings (the raw data of numpy arrays) go out as 8-bit STRING
    opcodes.  Python 3 reads those as text: with the default ASCII codec it raises UnicodeDecodeError on the first byte
    above 127, with encoding='latin1' it gets the bytes back (the documented way to read such files)."""

    def save_bytes(self, obj):
        import struct
        n = len(obj)
        if n < 256:
            self.write(pickle.SHORT_BINSTRING + struct.pack('<B', n) + obj)
        else:
            self.write(pickle.BINSTRING + struct.pack('<i', n) + obj)
        self.memoize(obj)

    dispatch = dict(pickle._Pickler.dispatch)
    dispatch[bytes] = save_bytes


def write_pickle_xsec(path, tab, name='H2O', py2=False):
    d = {'name': name, 'wno': _f(tab['wn']), 't': _f(tab['T']),
         'p': _f(tab['P']) / PA_PER_UNIT['bar'], 'xsecarr': _f(tab['x']) * CM2_PER_M2}
    with open(path, 'wb') as f:
        if py2:
            _Py2Pickler(f, protocol=2).dump(d)
        else:
            pickle.dump(d, f)
    return path


def _h5_name(fd, name, style):
    import h5py
    if style == 'str':
        fd.create_dataset('mol_name', data=name)
    elif style == 'bytes':
        fd.create_dataset('mol_name', data=np.bytes_(name.encode()))
    elif style == 'array':
        fd.create_dataset('mol_name', data=np.array([name.encode()], dtype='S%d' % max(1, len(name))))
    elif style == 'vlen-array':
        fd.create_dataset('mol_name', data=np.array([name], dtype=object),
                          dtype=h5py.string_dtype())
    else:
        raise ValueError(style)


def write_hdf5_xsec(path, tab, name='H2O', unit='bar', name_style='str', doi=None):
    import h5py
    with h5py.File(path, 'w') as fd:
        fd.create_dataset('bin_edges', data=_f(tab['wn']))
        fd.create_dataset('t', data=_f(tab['T']))
        p = fd.create_dataset('p', data=_f(tab['P']) / PA_PER_UNIT[unit])
        p.attrs['units'] = unit
        fd.create_dataset('xsecarr', data=_f(tab['x']) * CM2_PER_M2)
        _h5_name(fd, name, name_style)
        fd.create_dataset('key_iso_ll', data='verif')
        if doi is not None:
            fd.create_dataset('DOI', data=np.array([doi.encode()]))
    return path


def write_exotransmit(path, tab, order='wavelength'):
    """Exo-Transmit opacity file: line 1 temperatures, line 2 pressures, then for every
    wavelength (metres, ascending = descending wavenumber) one line with the wavelength followed
    by nP lines 'P  sigma(T_1) ... sigma(T_nT)' in m^2."""
    wn = _f(tab['wn'])
    T = _f(tab['T'])
    P = _f(tab['P']) / PA_PER_UNIT['bar']
    x = _f(tab['x'])
    idx = list(range(len(wn)))
    if order == 'wavelength':
        idx = sorted(idx, key=lambda i: -wn[i])
    with open(path, 'w') as f:
        f.write(' '.join('%.17e' % t for t in T) + '\n')
        f.write(' '.join('%.17e' % p for p in P) + '\n')
        for i in idx:
            lam = 1.0e-2 / wn[i]           # wavenumber in cm-1 -> wavelength in m
            f.write('%.17e\n' % lam)
            for j in range(len(P)):
                f.write('%.17e ' % P[j] + ' '.join('%.17e' % v for v in x[j, :, i]) + '\n')
    return path


# ----------------------------------------------------------------------------------------------
# k-tables
# ----------------------------------------------------------------------------------------------
def _edges(wn):
    wn = _f(wn)
    mid = 0.5 * (wn[1:] + wn[:-1])
    return np.concatenate([[wn[0] - (mid[0] - wn[0])], mid, [wn[-1] + (wn[-1] - mid[-1])]])


def write_pickle_ktable(path, tab, name='H2O'):
    w = _f(tab['weights'])
    d = {'name': name, 'bin_centers': _f(tab['wn']), 'bin_edges': _edges(tab['wn']),
         'ngauss': len(w), 't': _f(tab['T']), 'p': _f(tab['P']) / PA_PER_UNIT['bar'],
         'kcoeff': _f(tab['x']) * CM2_PER_M2, 'weights': w, 'samples': np.cumsum(w) - 0.5 * w,
         'resolution': 1.0, 'method': 'verif'}
    with open(path, 'wb') as f:
        pickle.dump(d, f)
    return path


def write_hdf5_ktable(path, tab, unit='bar', name='H2O', kdtype=None):
    import h5py
    w = _f(tab['weights'])
    with h5py.File(path, 'w') as fd:
        fd.create_dataset('bin_centers', data=_f(tab['wn']))
        fd.create_dataset('bin_edges', data=_edges(tab['wn']))
        fd.create_dataset('ngauss', data=len(w))
        fd.create_dataset('t', data=_f(tab['T']))
        p = fd.create_dataset('p', data=_f(tab['P']) / PA_PER_UNIT[unit])
        p.attrs['units'] = unit
        kc = _f(tab['x']) * CM2_PER_M2
        fd.create_dataset('kcoeff', data=kc if kdtype is None else kc.astype(kdtype))      # e.g. single precision
        fd.create_dataset('weights', data=w)
        fd.create_dataset('samples', data=np.cumsum(w) - 0.5 * w)
        fd.create_dataset('mol_name', data=name)
    return path


# ----------------------------------------------------------------------------------------------
# collision-induced absorption
# ----------------------------------------------------------------------------------------------
def write_pickle_cia(path, tab):
    d = {'wno': _f(tab['wn']), 't': _f(tab['T']), 'xsecarr': _f(tab['x']), 'comments': 'verif'}
    with open(path, 'wb') as f:
        pickle.dump(d, f)
    return path


def write_hitran_cia(path, pair, blocks, order='block', third_column=False):
    """HITRAN CIA format (Richard et al. 2012, Karman et al. 2019): every (block, temperature)
    set has a 100-character header - chemical symbol (20), first and last wavenumber (2x10),
    number of points (7), temperature (7), maximum value (10), resolution (6), comment (27),
    reference (3) - followed by 'wavenumber  value' lines in cm^5 molecule^-2.
    order: 'block' (all temperatures of block 1, then block 2, ...), 'temperature' (all blocks of
    the lowest temperature first), 'reverse' (descending temperatures inside a block),
    'block-reverse' (highest-wavenumber block first)."""
    sets = []
    for bi, b in enumerate(blocks):
        for T in sorted(b['rows']):
            sets.append((bi, float(T)))
    if order == 'temperature':
        sets.sort(key=lambda s: (s[1], s[0]))
    elif order == 'reverse':
        sets.sort(key=lambda s: (s[0], -s[1]))
    elif order == 'block-reverse':
        sets.sort(key=lambda s: (-s[0], s[1]))
    with open(path, 'w') as f:
        for bi, T in sets:
            b = blocks[bi]
            wn = _f(b['wn'])
            sig = _f(b['rows'][T]) * CM5_PER_M5
            f.write('%20s%10.4f%10.4f%7d%7.1f%10.3E%6s%27s%3d\n' % (
                pair, wn[0], wn[-1], len(wn), T, max(sig.max(), 0.0), ' -.999', 'verif', 1))
            for w_, s_ in zip(wn, sig):
                if third_column:        # the optional uncertainty column of the HITRAN format
                    f.write('%10.4f %.16E %.3E\n' % (w_, s_, abs(s_) * 0.1))
                else:
                    f.write('%10.4f %.16E\n' % (w_, s_))
    return path
