"""Helpers of C15: .par text generation, constructor spies, value letters, class-family lookup.

The spy is a function generated with *exactly* the signature (names, order, default objects) of
the constructor it replaces, because TauREx's factory inspects `klass.__init__` with
inspect.getfullargspec (which does not follow __wrapped__).
"""
import inspect
import os

import numpy as np

from mc import fixtures as fx

# ClassFactory list (plain, mixin) per family name of docspec
FAMILY = {
    'temperature': ('temperatureKlasses', 'temperatureMixinKlasses'),
    'pressure': ('pressureKlasses', 'pressureMixinKlasses'),
    'chemistry': ('chemistryKlasses', 'chemistryMixinKlasses'),
    'gas': ('gasKlasses', 'gasMixinKlasses'),
    'planet': ('planetKlasses', 'planetMixinKlasses'),
    'star': ('starKlasses', 'starMixinKlasses'),
    'model': ('modelKlasses', 'modelMixinKlasses'),
    'contribution': ('contributionKlasses', 'contributionMixinKlasses'),
    'optimizer': ('optimizerKlasses', 'optimizerMixinKlasses'),
    'instrument': ('instrumentKlasses', 'instrumentMixinKlasses'),
    'observation': ('observationKlasses', 'observationMixinKlasses'),
    'prior': ('priorKlasses', None),
}


# ----------------------------------------------------------------------------------------------
# class families
# ----------------------------------------------------------------------------------------------
def factory(reload=False):
    from taurex.parameter.classfactory import ClassFactory
    cf = ClassFactory()
    if reload:
        cf.extension_paths = []
        cf.reload_plugins()
    return cf


def family(fam, mixin=False, reload=False):
    """Discovered classes of a family, in an order that does not depend on set iteration."""
    name = FAMILY[fam][1 if mixin else 0]
    ks = list(getattr(factory(reload), name))
    ks.sort(key=lambda c: (c.__module__, c.__name__))
    return ks


def keywords_of(klass):
    try:
        return list(klass.input_keywords())
    except (NotImplementedError, AttributeError):
        return []


def resolve(fam, selector, mixin=False, reload=False):
    """All discovered classes of the family that list the selector keyword."""
    return [k for k in family(fam, mixin, reload) if selector in keywords_of(k)]


def by_name(fam, clsname, mixin=False):
    ks = [k for k in family(fam, mixin) if k.__name__ == clsname]
    return ks[0] if len(ks) == 1 else None


# ----------------------------------------------------------------------------------------------
# constructor spy
# ----------------------------------------------------------------------------------------------
class Unsupported(Exception):
    pass


def ctor_params(func):
    """[(name, default)] of the keyword parameters (everything after self); default is
    inspect.Parameter.empty for required ones."""
    out = []
    ps = list(inspect.signature(func).parameters.values())
    for p in ps[1:]:
        if p.kind is not inspect.Parameter.POSITIONAL_OR_KEYWORD:
            raise Unsupported('%s: parameter kind %s' % (func, p.kind))
        out.append((p.name, p.default))
    return out


def make_spy(func, rec, label):
    ps = list(inspect.signature(func).parameters.values())
    ns = {'__orig': func, '__rec': rec, '__label': label}
    decl, call, items = [], [], []
    for i, p in enumerate(ps):
        if p.kind is not inspect.Parameter.POSITIONAL_OR_KEYWORD:
            raise Unsupported('%s: parameter kind %s' % (func, p.kind))
        if p.default is inspect.Parameter.empty:
            decl.append(p.name)
        else:
            ns['__d%d' % i] = p.default
            decl.append('%s=__d%d' % (p.name, i))
        if i == 0:
            call.append(p.name)
        else:
            call.append('%s=%s' % (p.name, p.name))
            items.append('%r: %s' % (p.name, p.name))
    name = getattr(func, '__name__', '__init__')
    src = ('def %s(%s):\n'
           '    __rec.append((__label, %s, {%s}))\n'
           '    return __orig(%s)\n') % (name, ', '.join(decl), ps[0].name, ', '.join(items),
                                         ', '.join(call))
    exec(compile(src, '<c15-spy>', 'exec'), ns)
    f = ns[name]
    f.__qualname__ = getattr(func, '__qualname__', name)
    return f


class Spies(object):
    """with Spies() as s: s.on(klass) ... ; s.calls = [(label, self_obj, {param: value})]"""

    def __init__(self):
        self.calls = []
        self._undo = []

    def on(self, klass, attr='__init__', label=None):
        func = getattr(klass, attr)
        own = attr in klass.__dict__
        old = klass.__dict__.get(attr)
        setattr(klass, attr, make_spy(func, self.calls, label or (klass.__name__ + '.' + attr)))
        self._undo.append((klass, attr, own, old))

    def of(self, label):
        return [c for c in self.calls if c[0] == label]

    def __enter__(self):
        return self

    def __exit__(self, *a):
        for klass, attr, own, old in reversed(self._undo):
            if own:
                setattr(klass, attr, old)
            else:
                delattr(klass, attr)
        self._undo = []
        return False


# ----------------------------------------------------------------------------------------------
# .par text
# ----------------------------------------------------------------------------------------------
def par_text(tree):
    """tree: [(section, [(key, raw) | (subsection, [(key, raw), ...]), ...]), ...]"""
    out = []
    for sec, items in tree:
        out.append('[%s]' % sec)
        subs = []
        for k, v in items:
            if isinstance(v, list):
                subs.append((k, v))
            else:
                out.append('%s = %s' % (k, v))
        for sub, kv in subs:
            out.append('    [[%s]]' % sub)
            for k, v in kv:
                out.append('    %s = %s' % (k, v))
        out.append('')
    return '\n'.join(out) + '\n'


def write_par(dirname, text, name='in.par'):
    p = os.path.join(dirname, name)
    with open(p, 'w') as f:
        f.write(text)
    return p


def parser_for(dirname, text, name='in.par'):
    from taurex.parameter import ParameterParser
    pp = ParameterParser()
    pp.read(write_par(dirname, text, name))
    return pp


def data_files(dirname, nlayers=3):
    """Small data files some components read in their constructor."""
    t = os.path.join(dirname, 't.dat')
    with open(t, 'w') as f:
        f.write('# T P\n# header\n')
        for T, P in [(1500.0, 1e6), (1300.0, 1e4), (1000.0, 1e2), (800.0, 1.0), (700.0, 1e-2)]:
            f.write('%r %r\n' % (T, P))
    c = os.path.join(dirname, 'chem.dat')
    np.savetxt(c, np.array([[1e-4, 1e-5]] * nlayers))
    o = os.path.join(dirname, 'obs.dat')
    np.savetxt(o, np.array([[1.0, 0.010, 0.001], [2.0, 0.011, 0.001], [3.0, 0.012, 0.001]]))
    d = os.path.join(dirname, 'datadir')
    os.makedirs(d, exist_ok=True)
    return {'@tfile': t, '@cfile': c, '@obsfile': o, '@dir': d,
            '@nofile': os.path.join(dirname, 'does_not_exist.bin')}


# ----------------------------------------------------------------------------------------------
# key types and value letters
# ----------------------------------------------------------------------------------------------
SKIP = 'skip'
KEYTYPE = {   # keys whose default does not reveal the type (None / object slots)
    ('NPoint', 'P_surface'): 'float', ('NPoint', 'P_top'): 'float',
    ('Rodgers2000', 'covariance_matrix'): SKIP,
    ('TemperatureFile', 'filename'): 'path', ('TemperatureFile', 'press_col'): 'int',
    ('TemperatureFile', 'delimiter'): 'str',
    ('ChemistryFile', 'gases'): 'list_str', ('ChemistryFile', 'filename'): 'path',
    ('TaurexChemistry', 'ratio'): 'float|list', ('TaurexChemistry', 'fill_gases'): 'str|list',
    ('TaurexChemistry', 'derived_ratios'): 'list_str',
    ('Planet', 'planet_sma'): 'float',
    ('PhoenixStar', 'phoenix_path'): 'path', ('PhoenixStar', 'retro_version_file'): 'str',
    ('MultiNestOptimizer', 'multi_nest_path'): 'path',
    ('MultiNestOptimizer', 'num_params_cluster'): 'int',
    ('CIAContribution', 'cia_pairs'): 'list_str',
    ('SNRInstrument', 'binner'): SKIP,
}
OBJECT_SLOTS = {'planet', 'star', 'pressure_profile', 'temperature_profile', 'chemistry',
                'observed', 'model', 'molecule_name', 'observation', 'binner'}

# keys every well-formed section of that selector needs for the constructor to run at all
BASEKEYS = {   # (key, raw text, expected python value)
    ('Temperature', 'file'): [('filename', '@tfile', '@tfile')],
    ('Chemistry', 'file'): [('filename', '@cfile', '@cfile'), ('gases', 'H2O,CH4', ['H2O', 'CH4'])],
    ('Star', 'phoenix'): [('phoenix_path', '@dir', '@dir')],
    ('Optimizer', 'multinest'): [('multi_nest_path', '@dir', '@dir')],
}
# keys that are only well-formed together (same number of entries): setting one sets the other
COMPANION = {('NPoint', 'temperature_points'): 'pressure_points',
             ('NPoint', 'pressure_points'): 'temperature_points'}
# constructors that need external data files which are not shipped: a failure *inside* the
# constructor body is tolerated there (the spy has already recorded what arrived)
BODY_MAY_FAIL = {'PhoenixStar', 'TaurexSpectrum', 'IraclisSpectrum', 'ObservedLightCurve'}

# semantically valid non-default letters for keys whose constructor interprets the value
VALUES = {
    ('TemperatureFile', 'skiprows'): [('int', '2', 2)],
    ('TemperatureFile', 'temp_col'): [('int', '1', 1)],
    ('TemperatureFile', 'press_col'): [('int', '1', 1)],
    ('TemperatureFile', 'temp_units'): [('dflt', 'K', 'K'), ('word', 'mK', 'mK')],
    ('TemperatureFile', 'press_units'): [('dflt', 'Pa', 'Pa'), ('word', 'bar', 'bar')],
    ('TemperatureFile', 'delimiter'): [('quoted', '" "', ' ')],
    ('TemperatureFile', 'filename'): [('path', '@tfile', '@tfile')],
    ('ChemistryFile', 'filename'): [('path', '@cfile', '@cfile')],
    ('ChemistryFile', 'gases'): [('list2', 'H2O,CH4', ['H2O', 'CH4']),
                                 ('list2sp', 'CO2, CO', ['CO2', 'CO']),
                                 # molecule names that look like booleans / numbers must stay strings
                                 ('list3no', 'H2O, NO, CO', ['H2O', 'NO', 'CO'])],
    ('PhoenixStar', 'phoenix_path'): [('path', '@dir', '@dir')],
    ('MultiNestOptimizer', 'multi_nest_path'): [('path', '@dir', '@dir')],
    ('MultiNestOptimizer', 'sampling_efficiency'): [('dflt', 'parameter', 'parameter'),
                                                    ('word', 'model', 'model')],
    ('NestleOptimizer', 'method'): [('dflt', 'multi', 'multi'), ('word', 'single', 'single')],
    ('CIAContribution', 'cia_pairs'): [('list2', 'H2-He,He-He', ['H2-He', 'He-He']),
                                       ('list1', 'H2-H2,', ['H2-H2'])],
    ('TaurexChemistry', 'fill_gases'): [('str', 'H2', 'H2'), ('list2', 'H2,He', ['H2', 'He']),
                                        ('list2c', 'H2,He,', ['H2', 'He']),
                                        ('list2sp', 'H2, N2', ['H2', 'N2']),
                                        ('list2no', 'N2, NO', ['N2', 'NO'])],
    # one ratio per fill gas after the first (two fill gases by default)
    ('TaurexChemistry', 'ratio'): [('dflt', '0.17567', 0.17567), ('num', '0.0625', 0.0625),
                                   ('sci', '4.8962e-2', 4.8962e-2), ('sciE', '1.5E-01', 0.15),
                                   ('list1', '0.125,', [0.125])],
    ('TaurexChemistry', 'derived_ratios'): [('list1', 'C/O,', ['C/O'])],
}


def key_type(clsname, key, default, doc_type=None):
    if key in OBJECT_SLOTS:
        return SKIP
    t = KEYTYPE.get((clsname, key))
    if t:
        return t
    if isinstance(default, bool):
        return 'bool'
    if isinstance(default, int):
        return 'float' if doc_type == 'float' else 'int'
    if isinstance(default, float):
        return 'float'
    if isinstance(default, str):
        return 'str'
    if isinstance(default, (list, tuple)):
        if len(default) and all(isinstance(x, str) for x in default):
            return 'list_str'
        return 'list_float'
    if default is None:
        if doc_type in ('int', 'float', 'str', 'bool'):
            return doc_type
        if doc_type == 'list':
            return 'list_float'
        return 'float'
    return SKIP


BOOL_LETTERS = [('true', 'true', True), ('false', 'false', False), ('yes', 'yes', True),
                ('no', 'no', False), ('True', 'True', True), ('False', 'False', False)]


def _num(default, salt):
    r = fx.rng('c15', *salt)
    base = 1.0
    if isinstance(default, (int, float)) and not isinstance(default, bool) and default not in (0, -1):
        base = abs(float(default))
    return float('%.6g' % (base * r.uniform(0.3, 0.9)))


def letters(clsname, key, default, ktype, salt=()):
    """[(letter name, raw text, expected python value)] - non-'omitted' letters of a key."""
    if (clsname, key) in VALUES:
        return list(VALUES[(clsname, key)])
    s = (clsname, key) + tuple(salt)
    out = []
    isnum = isinstance(default, (int, float)) and not isinstance(default, bool)
    if ktype == 'float' or ktype == 'float|list':
        if isnum:
            out.append(('dflt', repr(default), float(default)))
        v = _num(default, s)
        out.append(('num', repr(v), v))
        raw = '%.3e' % (v * 1.5)
        out.append(('sci', raw, float(raw)))
        raw = '%.2E' % (v * 0.5)
        out.append(('sciE', raw, float(raw)))
        out.append(('intlit', '3', 3.0))
        out.append(('zero', '0', 0.0))          # a legal value that is false in a truth test
        out.append(('zerof', '0.0', 0.0))
        if isnum and default < 0:
            out.append(('neg', '-2.5', -2.5))
    if ktype == 'int':
        if isnum:
            out.append(('dflt', repr(int(default)), int(default)))
        n = (int(default) if isnum else 1) + 2
        out.append(('int', str(n), n))
        out.append(('zero', '0', 0))
    if ktype == 'bool':
        out.extend(BOOL_LETTERS)
    if ktype in ('list_float', 'float|list'):
        a, b = _num(700.0, s + ('a',)), _num(40.0, s + ('b',))
        out.append(('list1', '%r,' % a, [a]))
        out.append(('list2', '%r, %r' % (a, b), [a, b]))
        out.append(('list3sci', '1.5e3,2e2,7.25E1', [1500.0, 200.0, 72.5]))
    if ktype == 'list_str':
        out.append(('list1', 'H2O,', ['H2O']))
        out.append(('list2', 'H2O,CH4', ['H2O', 'CH4']))
    if ktype == 'str':
        if isinstance(default, str) and default and ' ' not in default:
            out.append(('dflt', default, default))
        out.append(('word', 'abc_1', 'abc_1'))
        out.append(('quoted', '"two words"', 'two words'))
    if ktype == 'path':
        out.append(('path', '@nofile', '@nofile'))
    return out


def subst(raw, files):
    if isinstance(raw, str) and raw in files:
        return files[raw]
    return raw


# ----------------------------------------------------------------------------------------------
# typed comparison of what arrived with what the file said
# ----------------------------------------------------------------------------------------------
def same_value(got, want):
    """True iff `got` is `want` with the documented typing: bool as bool, str as str, numbers
    numerically equal (int/float, not bool), lists as list of the same."""
    if isinstance(want, bool):
        return type(got) is bool and got == want
    if isinstance(want, str):
        return isinstance(got, str) and got == want
    if isinstance(want, (int, float)):
        return (isinstance(got, (int, float, np.integer, np.floating)) and
                not isinstance(got, (bool, np.bool_)) and float(got) == float(want))
    if isinstance(want, (list, tuple)):
        return (isinstance(got, (list, tuple)) and len(got) == len(want) and
                all(same_value(g, w) for g, w in zip(got, want)))
    if want is None:
        return got is None
    return False


def is_default(got, default):
    if got is default:
        return True
    if type(got) is not type(default):
        return False
    try:
        return bool(got == default)
    except Exception:
        return False


def short(v):
    s = repr(v)
    return s if len(s) < 80 else s[:77] + '...'
