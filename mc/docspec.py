"""The documented input-file interface of TauREx 3, transcribed BY HAND from
/repo/doc/source/user/taurex/*.rst (C15, DESIGN.md section 4).

Nothing in this module imports or calls TauREx.  It is the oracle side of C15: which selector
keyword is documented for which section, which component class the documentation (or, where the
.rst gives no ``Class:`` line, the plain meaning of the keyword) names for it, and which keys with
which type / default the keyword tables list.  `crosscheck()` verifies at run time that every
transcribed selector and key still occurs literally (as an .rst ``literal``) in the corresponding
file of the working tree, so that the transcription cannot silently drift away from the docs.

Conventions
-----------
SECTIONS[name] = {
   rst       : file below doc/source/user/taurex
   selkey    : the key that selects the component ('profile_type', ...); None = no selector
   family    : name of the ClassFactory list the selector is looked up in (see c15.FAMILY)
   generate  : ParameterParser method that builds the component
   selectors : { keyword : {cls: expected class __name__, doc_cls: name printed in the .rst or None,
                            keys: {documented key: (documented type, documented default text)},
                            requires: optional python module the class needs (optional dependency),
                            plugin: True when the docs themselves move it to a plugin} }
   custom    : True when the .rst documents `<selkey> = custom`
}
Documented types: 'float' 'int' 'bool' 'str' 'list' 'str|list' 'float|list'.
"""
import os
import re

RST_DIR = os.path.join('doc', 'source', 'user', 'taurex')


def _k(**kw):
    return kw


_STAR_KEYS = {'temperature': ('float', '5000'), 'radius': ('float', '1.0'), 'mass': ('float', '1.0'),
              'distance': ('float', '1.0'), 'metallicity': ('float', '1.0'),
              'magnitudeK': ('float', '10.0')}
_GUILLOT_KEYS = {'T_irr': ('float', '1500'), 'kappa_ir': ('float', '0.01'),
                 'kappa_v1': ('float', '0.005'), 'kappa_v2': ('float', '0.005'),
                 'alpha': ('float', '0.5')}
_PRESS_KEYS = {'atm_min_pressure': ('float', '1e0'), 'atm_max_pressure': ('float', '1e6'),
               'nlayers': ('int', '100')}
_PLANET_KEYS = {'planet_mass': ('float', '1.0'), 'planet_radius': ('float', '1.0'),
                'planet_distance': ('float', '1.0'), 'impact_param': ('float', '0.5'),
                'orbital_period': ('float', '2.0'), 'albedo': ('float', '0.3'),
                'transit_time': ('float', '3000.0')}
_TAUREX_KEYS = {'fill_gases': ('str|list', 'H2,He,'), 'ratio': ('float|list', '0.749')}
_CLOUD_KEYS = {'clouds_pressure': ('float', None)}

SECTIONS = {
    'Temperature': _k(
        rst='temperature.rst', selkey='profile_type', family='temperature',
        generate='generate_temperature_profile', custom=True,
        selectors={
            'isothermal': _k(cls='Isothermal', doc_cls='Isothermal', keys={'T': ('float', '1500')}),
            'guillot2010': _k(cls='Guillot2010', doc_cls='Guillot2010', keys=_GUILLOT_KEYS),
            # the section text of the profile itself says ``profile_type = guillot``
            'guillot': _k(cls='Guillot2010', doc_cls='Guillot2010', keys=_GUILLOT_KEYS),
            'npoint': _k(cls='NPoint', doc_cls='NPoint', keys={
                'T_surface': ('float', '1500'), 'T_top': ('float', '200'),
                'P_surface': ('float', '-1'), 'P_top': ('float', '-1'),
                'temperature_points': ('list', ''), 'pressure_points': ('list', ''),
                'smoothing_window': ('int', '10')}),
            'rodgers': _k(cls='Rodgers2000', doc_cls='Rodgers2000', keys={
                'temperature_layers': ('list', 'None'), 'correlation_length': ('float', '5.0')}),
            'file': _k(cls='TemperatureFile', doc_cls='TemperatureFile', keys={
                'filename': ('str', 'None'), 'skiprows': ('int', '0'), 'temp_col': ('int', '0'),
                'press_col': ('int', 'None'), 'temp_units': ('str', 'K'),
                'press_units': ('str', 'Pa'), 'delimiter': ('str', 'None'),
                'reverse': ('bool', 'None')}),
        }),
    'Pressure': _k(
        rst='pressure.rst', selkey='profile_type', family='pressure',
        generate='generate_pressure_profile', custom=True,
        selectors={
            'simple': _k(cls='SimplePressureProfile', doc_cls='SimplePressureProfile', keys=_PRESS_KEYS),
            'hydrostatic': _k(cls='SimplePressureProfile', doc_cls='SimplePressureProfile',
                              keys=_PRESS_KEYS),
        }),
    'Chemistry': _k(
        rst='chemistry.rst', selkey='chemistry_type', family='chemistry',
        generate='generate_chemistry_profile', custom=True,
        selectors={
            'taurex': _k(cls='TaurexChemistry', doc_cls='TaurexChemistry', keys=_TAUREX_KEYS),
            'free': _k(cls='TaurexChemistry', doc_cls='TaurexChemistry', keys=_TAUREX_KEYS),
            'file': _k(cls='ChemistryFile', doc_cls=None, keys={
                'filename': ('str', 'None'), 'gases': ('list', 'None')}),
            # "Since version 3.1 this has been removed from the base TauREx package"
            'ace': _k(cls='ACEChemistry', doc_cls='ACEChemistry', plugin=True, keys={
                'metallicity': ('float', '1.0'), 'co_ratio': ('float', '0.54951')}),
            'equilibrium': _k(cls='ACEChemistry', doc_cls='ACEChemistry', plugin=True, keys={}),
        }),
    'Gas': _k(   # [[Molecule]] sub-sections of [Chemistry]
        rst='chemistry.rst', selkey='gas_type', family='gas',
        generate='generate_chemistry_profile', custom=False,
        selectors={
            'constant': _k(cls='ConstantGas', doc_cls='ConstantGas', keys={'mix_ratio': ('float', '1e-4')}),
            'twopoint': _k(cls='TwoPointGas', doc_cls='TwoPointGas', keys={
                # only in the commented-out part of the page; listed for the doc cross-check only
            }),
            'twolayer': _k(cls='TwoLayerGas', doc_cls='TwoLayerGas', keys={
                'mix_ratio_surface': ('float', '1e-4'), 'mix_ratio_top': ('float', '1e-8'),
                'mix_ratio_P': ('float', '1e3'), 'mix_ratio_smoothing': ('int', '10')}),
        }),
    'Planet': _k(
        rst='planet.rst', selkey='planet_type', family='planet',
        generate='generate_planet', custom=True,
        selectors={'simple': _k(cls='Planet', doc_cls='Planet', keys=_PLANET_KEYS)}),
    'Star': _k(
        rst='star.rst', selkey='star_type', family='star',
        generate='generate_star', custom=True,
        selectors={
            'blackbody': _k(cls='BlackbodyStar', doc_cls='BlackbodyStar', keys=_STAR_KEYS),
            'phoenix': _k(cls='PhoenixStar', doc_cls='PhoenixStar',
                          keys=dict(_STAR_KEYS, phoenix_path=('str', '**Required**'))),
        }),
    'Model': _k(
        rst='models.rst', selkey='model_type', family='model',
        generate='generate_model', custom=True,
        selectors={
            # models.rst gives no Class: lines; the names are the plain meaning of the keyword
            'transmission': _k(cls='TransmissionModel', doc_cls=None, keys={}),
            'emission': _k(cls='EmissionModel', doc_cls=None, keys={'ngauss': ('int', '4')}),
            'directimage': _k(cls='DirectImageModel', doc_cls=None, keys={'ngauss': ('int', '4')}),
        }),
    'Contribution': _k(   # [[Name]] sub-sections of [Model]; the sub-section name is the selector
        rst='models.rst', selkey=None, family='contribution',
        generate='generate_model', custom=False,
        selectors={
            'Absorption': _k(cls='AbsorptionContribution', doc_cls=None, keys={}),
            'CIA': _k(cls='CIAContribution', doc_cls=None, keys={'cia_pairs': ('list', None)}),
            'Rayleigh': _k(cls='RayleighContribution', doc_cls=None, keys={}),
            'SimpleClouds': _k(cls='SimpleCloudsContribution', doc_cls=None, keys=_CLOUD_KEYS),
            'ThickClouds': _k(cls='SimpleCloudsContribution', doc_cls=None, keys=_CLOUD_KEYS),
            'LeeMie': _k(cls='LeeMieContribution', doc_cls=None, keys={
                'lee_mie_radius': ('float', None), 'lee_mie_q': ('float', None),
                'lee_mie_mix_ratio': ('float', None), 'lee_mie_bottomP': ('float', None),
                'lee_mie_topP': ('float', None)}),
            'FlatMie': _k(cls='FlatMieContribution', doc_cls=None, keys={
                'flat_mix_ratio': ('float', None), 'flat_bottomP': ('float', None),
                'flat_topP': ('float', None)}),
            # CHANGELOG / installation page: BH Mie lives in a plugin since 3.1
            'BHMie': _k(cls='BHMieContribution', doc_cls=None, plugin=True, keys={
                'bh_particle_radius': ('float', None), 'bh_cloud_mix': ('float', None),
                'bh_clouds_bottomP': ('float', None), 'bh_clouds_topP': ('float', None),
                'mie_path': ('str', None), 'mie_type': ('str', None)}),
        }),
    'Optimizer': _k(
        rst='optimizer.rst', selkey='optimizer', family='optimizer',
        generate='generate_optimizer', custom=True,
        selectors={
            'nestle': _k(cls='NestleOptimizer', doc_cls='NestleOptimizer', keys={}),
            'multinest': _k(cls='MultiNestOptimizer', doc_cls='MultiNestOptimizer', keys={},
                            requires='pymultinest'),
            'polychord': _k(cls='PolyChordOptimizer', doc_cls='PolyChordOptimizer', keys={},
                            requires='pypolychord'),
            'dypolychord': _k(cls='dyPolyChordOptimizer', doc_cls='dyPolyChordOptimizer', keys={},
                              requires='dyPolyChord'),
        }),
    'Instrument': _k(
        rst='instrument.rst', selkey='instrument', family='instrument',
        generate='generate_instrument', custom=True,
        selectors={
            # the page prints the class as taurex.instruments.snr.SNR; the module defines
            # SNRInstrument (stale class name in the docs, informational)
            'snr': _k(cls='SNRInstrument', doc_cls='SNR', keys={
                'SNR': ('float', None), 'num_observation': ('int', None)}),
        }),
}

# [Observation]: no selector; one of these keys, each "accepts a string path to a file"
OBSERVATION = _k(
    rst='observation.rst',
    keys={
        'observed_spectrum': 'ObservedSpectrum',
        'observed_lightcurve': 'ObservedLightCurve',
        'iraclis_spectrum': 'IraclisSpectrum',
        'taurex_spectrum': 'TaurexSpectrum',      # or the word ``self``
    })

# [Binning]
BINNING = _k(
    rst='binning.rst',
    bin_types=['native', 'observed', 'manual'],
    grid_keys=['wavelength_grid', 'wavenumber_grid', 'log_wavelength_grid', 'log_wavenumber_grid',
               'wavelength_res'],
    other_keys=['accurate'])

# [Fitting] / [Derive]
FITTING = _k(
    rst='fitting.rst',
    options={'fit': 'bool', 'bounds': 'list', 'factor': 'list', 'mode': 'str', 'prior': 'prior'},
    # prior name -> (class, documented arguments)
    priors={
        'Uniform': ('Uniform', ['bounds']),
        'LogUniform': ('LogUniform', ['bounds', 'lin_bounds']),
        'Gaussian': ('Gaussian', ['mean', 'std']),
        'LogGaussian': ('LogGaussian', ['mean', 'std', 'lin_mean']),
    })
DERIVE = _k(rst='derived.rst', options={'compute': 'bool'})

# mixins.rst / inputfile.rst: `mixin+base` composites
MIXINS = _k(
    rst='mixins.rst',
    mixins={'makefree': _k(section='Chemistry', cls='MakeFreeMixin', documented_with=['file', 'ace'],
                           documented_not_with=['free', 'taurex'])},
    # tempscalar exists in taurex/mixin/mixins.py but has no page; it is exercised because the
    # quantifier of C15 includes every '+' selector; not part of the .rst cross-check
    undocumented={'tempscalar': _k(section='Temperature', cls='TempScaler')})

CUSTOM = _k(rst='custom.rst', tokens=['custom', 'python_file', 'base_temp', 'random_scale'])

GLOBAL = _k(rst='global.rst', keys=['xsec_path', 'xsec_interpolation', 'cia_path', 'ktable_path',
                                    'opacity_method'])


# ----------------------------------------------------------------------------------------------
# run-time cross-check against the .rst files of the working tree
# ----------------------------------------------------------------------------------------------
def _literals(text):
    """The set of ``literal`` tokens of an .rst text, plus the words of `key = value` literals
    and of ``[[Name]]`` headers."""
    out = set()
    for lit in re.findall(r'``([^`]+)``', text):
        lit = lit.strip()
        out.add(lit)
        m = re.match(r'^\[+([A-Za-z0-9_]+)\]+$', lit)
        if m:
            out.add(m.group(1))
        if '=' in lit:
            k, v = lit.split('=', 1)
            out.add(k.strip())
            out.add(v.strip())
    return out


def read_rst(repo, name):
    with open(os.path.join(repo, RST_DIR, name), encoding='utf-8') as f:
        return f.read()


def expected_tokens():
    """[(rst file, token, kind)] of everything transcribed above."""
    out = []
    for sname, sec in SECTIONS.items():
        if sec['selkey']:
            out.append((sec['rst'], sec['selkey'], 'selector-key'))
        if sec.get('custom'):
            out.append((sec['rst'], 'custom', 'selector'))
        for sel, spec in sec['selectors'].items():
            out.append((sec['rst'], sel, 'selector'))
            for key in spec['keys']:
                out.append((sec['rst'], key, 'key'))
    for key in OBSERVATION['keys']:
        out.append((OBSERVATION['rst'], key, 'key'))
    for t in BINNING['bin_types'] + BINNING['grid_keys'] + BINNING['other_keys']:
        out.append((BINNING['rst'], t, 'key'))
    for t in FITTING['options']:
        out.append((FITTING['rst'], t, 'key'))
    for t in DERIVE['options']:
        out.append((DERIVE['rst'], t, 'key'))
    for t in MIXINS['mixins']:
        out.append((MIXINS['rst'], t, 'selector'))
    for t in CUSTOM['tokens']:
        out.append((CUSTOM['rst'], t, 'key'))
    for t in GLOBAL['keys']:
        out.append((GLOBAL['rst'], t, 'key'))
    # de-duplicate, keep order
    seen, res = set(), []
    for e in out:
        if e[:2] not in seen:
            seen.add(e[:2])
            res.append(e)
    return res


def crosscheck(repo):
    """Returns [(rst, token, kind, found)] for every transcribed token.  Prior names occur in
    fitting.rst only inside quoted examples ("Uniform(bounds=...)"), they are searched as plain
    words."""
    cache = {}
    res = []
    for rst, tok, kind in expected_tokens():
        if rst not in cache:
            txt = read_rst(repo, rst)
            cache[rst] = (txt, _literals(txt))
        txt, lits = cache[rst]
        res.append((rst, tok, kind, tok in lits))
    txt = read_rst(repo, FITTING['rst'])
    for name, (cls, args) in FITTING['priors'].items():
        res.append((FITTING['rst'], name, 'prior', re.search(r'"%s\(' % re.escape(name), txt) is not None))
        for a in args:
            res.append((FITTING['rst'], name + ':' + a, 'prior-arg',
                        re.search(r'\b%s\s*=' % re.escape(a), txt) is not None))
    return res
