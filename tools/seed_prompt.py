"""tools/seed_prompt.py <ID> [n] : prints the prompt for a fresh mutant-writing sub-agent (property text only)."""
import json, sys
pid = sys.argv[1]
n = int(sys.argv[2]) if len(sys.argv) > 2 else 2
wave = sys.argv[3] if len(sys.argv) > 3 else ''
p = [json.loads(l) for l in open('/verif/properties.jsonl') if json.loads(l)['id'] == pid][0]
wt = '/tmp/seed%s_%s' % (wave, pid)
EXTRA = ''
if wave:
    EXTRA = ('The suite is already known to be strong against single-site arithmetic slips that show on freshly built objects with\n'
             'ordinary inputs.  So for BOTH changes choose defects that need one of: (i) a multi-step SEQUENCE of calls on live objects\n'
             '(parameter updates between evaluations, re-compilation, write-then-reload, cache or buffer reuse, state left behind by an\n'
             'earlier call or by an exception); (ii) an unusual-but-legal COMBINATION of two options or inputs; (iii) two cooperating sites\n'
             'that each look fine alone; (iv) boundary values (first/last layer, exactly equal values, one-element or empty collections,\n'
             'values exactly on a grid node or bin edge).\n')
if wave and wave >= '3':
    EXTRA += ('The suite is ALSO already known to catch these mechanisms, so do not use them: a cache / memo keyed on a summary of an array\n'
              '(length, first and last value, shape) or on only part of the inputs; a scratch buffer reused between evaluations and not\n'
              'cleared; a value frozen at construction or first use that a later setter does not refresh; in-place modification of an\n'
              'input or of an array owned by another object; a comparison that uses a tolerance instead of equality (or min instead of\n'
              'max); dictionary re-ordering by pop/insert; a dropped lower()/strip() normalisation.  Look for something of a different\n'
              'nature: a wrong branch taken only for a rare-but-legal input class, an index or slice that is off only at one end, a\n'
              'unit / log-vs-linear / wavelength-vs-wavenumber confusion on a secondary code path, an argument forwarded to the wrong\n'
              'callee or dropped on one of several call sites, a default that differs between two entry points, an error path that\n'
              'leaves an object half-updated, a loop that stops early or skips the last element, a sort that is not stable or is applied\n'
              'to only some of several aligned arrays, an accumulation in the wrong dtype or with a misplaced normalisation.\n')
if wave and wave >= '5':
    EXTRA += ('Also already caught: inputs handed over with an unusual type or container (integer arrays, Python ints, numpy scalars,\n'
              'lists / tuples instead of arrays), requests in descending or shuffled order, sources or components added after build(),\n'
              'options that only matter when something is switched on later.  Good hunting grounds that remain: code paths taken only for\n'
              'particular *combinations* of three or more settings; arithmetic that is only wrong for extreme-but-legal magnitudes\n'
              '(very small / very large ratios, pressures, temperatures, counts); off-by-one at exactly one boundary of a loop over\n'
              'layers, bins, samples, ranks or quadrature points; sign / direction conventions (ascending vs descending, top vs bottom);\n'
              'places where two code paths that should agree (cross-sections vs k-tables, nestle vs multinest vs polychord,\n'
              'transmission vs emission vs direct image, text vs HDF5, model() vs model_contrib()) have drifted apart.\n')
if wave and wave >= '7':
    EXTRA += ('Also already caught by now: comparisons that are off only at an exactly-equal boundary value (> vs >=, a value exactly on\n'
              'a node / edge / cut-off), state leaking between calls in one process (mutable default arguments, lru_cache / class-level\n'
              'memos, module-level dictionaries), components left in their default / empty configuration, a key or argument whose legal\n'
              'value is falsy (0, False, empty), two objects of the same class in one model, file names / formulas with unusual but legal\n'
              'symbols, more than nine of something, crashes inside compiled kernels.  What may remain: wrong behaviour that shows only\n'
              'AFTER an error or a rejected model (what state is left behind and what the next, valid, call returns); quantities that are\n'
              'derived from several parameters and are refreshed when only some of them change; code that is only reached for particular\n'
              'RELATIONS between inputs (a trace gas that is also a fill gas, a cloud top above the model top, an observation wider than\n'
              'the opacity tables, a prior narrower than machine precision, more ranks than samples); asymmetric handling of the two ends\n'
              'of a range; results that are right for every layer / bin / sample but one chosen by position (the middle one, the second,\n'
              'the last but one); unit or convention changes in what is WRITTEN or REPORTED rather than in what is computed.\n'
              'Do not assert in your demo that taurex is imported from a particular path (the demo will be run against other checkouts).\n')
if wave and wave >= '8':
    EXTRA += ('Also already caught by now: state left behind by a rejected model or a failed write, values read twice in a row,\n'
              'parameters repaired after having been invalid, stars smaller than planets, very hot stars, observation bins sharing a\n'
              'centre, non-contiguous array views, Python-2 pickles, many MPI ranks, NaN elements, the mpi wrapper module itself,\n'
              'user-defined prior / mixin / contribution classes, what the optimizer writes about itself.  Think about what a\n'
              'maintainer would plausibly break while REFACTORING for speed or clarity: vectorising a loop (broadcasting along the\n'
              'wrong axis when two dimensions happen to be equal in the tests), replacing a loop by a cumulative sum (off by one\n'
              'element, or inclusive vs exclusive), merging two similar functions (one of them had a subtle extra step), hoisting a\n'
              'computation out of a loop although it depends on the loop variable in one branch, changing a default argument,\n'
              'converting units at a different place (twice, or not at all, on one path), switching between in-place and copying\n'
              'operations, early returns that skip a final normalisation or bookkeeping step.  Prefer defects that are numerically\n'
              'SMALL but systematic (a few parts in 1e4-1e6) over gross ones, as long as they clearly violate the statement.\n')
if wave and wave >= '4':
    import glob, os
    prev = []
    for d in sorted(glob.glob('/verif/seeded/%s_*' % pid)):
        try:
            m = json.load(open(os.path.join(d, 'meta.json')))
            prev.append('  - ' + ' '.join((m.get('summary') or '').split())[:260].replace('{', '{{').replace('}', '}}'))
        except Exception:
            pass
    if prev:
        EXTRA += ('Earlier rounds already produced the following changes for this property; all of them are caught.  Do NOT repeat them\n'
                  'or close variants of them - pick other functions, other code paths, other mechanisms:\n' + '\n'.join(prev) + '\n')
print('''You are testing how well a verification suite protects a Python code base.  The code base is TauREx 3
(exoplanet atmospheric retrieval code).  You have your own scratch git worktree of it at {wt} (a detached checkout; work ONLY there;
never touch /repo or /verif, never read anything under /verif).  Run Python with /venv/bin/python; to make it import YOUR worktree run
from inside the worktree (`cd {wt} && /venv/bin/python -m pytest ...`) or set `PYTHONPATH={wt}` for scripts - check
`python -c "import taurex; print(taurex.__file__)"` shows {wt}.  There is no network.

The property under test (this is all you get about the suite):

  id: {id}
  title: {title}
  statement: {statement}
  holds for: {q}
  code it is anchored in: {files}

TASK: produce {n} DIFFERENT realistic source changes (bugs a developer could plausibly introduce: an off-by-one, a swapped
index, a dropped factor, a stale cached value, a wrong comparison, a mishandled corner case, state leaking between calls, two
sites that each look fine alone ...) to the TauREx sources in your worktree, each of which BREAKS THE PROPERTY ABOVE while
  (a) the package still imports, and
  (b) the repository's existing test-suite still passes exactly as before: run `cd {wt} && /venv/bin/python -m pytest -q -p no:cacheprovider
      --timeout=900 tests/<relevant dirs>` on the unchanged worktree first to learn which tests pass there (several tests fail or
      error on the unchanged tree already - those do not count), then with your change; the set of passing tests must not shrink.
%(extra)sPrefer changes that need something SPECIFIC to manifest - a particular input region, layer count, ordering, sequence of calls,
unusual-but-legal argument, or a particular combination of options - rather than ones any ordinary run would expose at once.
Do not just delete functionality, do not add `if input == X` special-casing on a magic value, and do not change test files or docs.
Make the {n} changes independent (different mechanism / different place), each as its own patch against the unchanged worktree.

For each change k = 1..{n} deliver, in directory {wt}_out/ (create it):
  - patch_k.diff       : `git diff` of ONLY that change against the unchanged worktree (apply with `git apply`)
  - demo_k.py          : a small stand-alone program (plain asserts, no pytest needed; it may build tiny in-memory inputs; keep it
                         under ~80 lines) that exits 0 on the unchanged worktree and exits non-zero (failed assert) with the change
                         applied, demonstrating the property violation through the public API.  Run it both ways yourself:
                         `cd {wt} && PYTHONPATH={wt} /venv/bin/python {wt}_out/demo_k.py`
  - meta_k.json        : {{"property": "{id}", "summary": "...what was changed...", "needs": "...what specific input / sequence /
                         configuration is needed for the violation to show...", "tests_run": "...the pytest command and its pass/fail
                         counts before and after...", "files": [...]}}
Leave the worktree itself clean (git checkout -- .) when you finish.  Final message: a short list of the {n} changes and what each
needs in order to manifest.
NEVER use `git stash` (the stash is shared between all worktrees of the repository): to switch between the unchanged and the
changed tree use `git diff > file; git checkout -- .; git apply file`.'''.replace('%(extra)s', EXTRA).format(wt=wt, id=p['id'], title=p['title'], statement=p['statement'], q=p['quantifier']['text'],
                                       files=', '.join(p['anchors']['files']), n=n))
