#!/bin/bash
# tools/applyfix.sh <diff> <commit message>  : apply a proposed fix to /repo and commit it
set -e
P=$(realpath "$1"); git -C /repo apply --check "$P"
git -C /repo apply "$P"
git -C /repo commit -qam "$2"
git -C /repo log --oneline | head -1
