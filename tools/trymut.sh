#!/bin/bash
# trymut.sh <seeded-dir-or-out-patch> <check...> : apply patch in a scratch worktree, run checks quick, remove.
P=$1; shift
WT=/tmp/try_$$
git -C /repo worktree add --detach $WT HEAD -q || exit 9
(cd $WT && git apply $P) || { git -C /repo worktree remove --force $WT; exit 3; }
for c in "$@"; do
  OUT=$(cd /verif && VERIF_REPO=$WT /venv/bin/python -m mc.run $c --tier quick --no-evidence --workers 8 2>&1)
  echo "$c: $(echo "$OUT" | grep -c '^VIOLATION') violation lines; $(echo "$OUT" | grep -E "^$c tier" | cut -c1-170)"
  echo "$OUT" | grep "signature=" | head -${NSIG:-3} | cut -c1-${SIGW:-260}
  echo "$OUT" | grep "HARNESS" | head -2 | cut -c1-400
done
git -C /repo worktree remove --force $WT
