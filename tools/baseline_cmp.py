"""Compare a pytest junit xml with the stable_pass list of /root/.vp/BASELINE.json.
usage: python baseline_cmp.py <junit.xml>"""
import json
import sys
import xml.etree.ElementTree as ET

base = json.load(open('/root/.vp/BASELINE.json'))
stable = set(base['stable_pass'])
root = ET.parse(sys.argv[1]).getroot()
passed, failed = set(), set()
for tc in root.iter('testcase'):
    name = '%s::%s' % (tc.get('classname'), tc.get('name'))
    bad = any(ch.tag in ('failure', 'error', 'skipped') for ch in tc)
    (failed if bad else passed).add(name)
missing = sorted(stable - passed)
print('passed=%d failed=%d stable=%d stable_not_passing=%d' % (len(passed), len(failed), len(stable), len(missing)))
for m in missing:
    print('  NOT PASSING:', m)
newly = sorted(passed - stable)
print('passing but not in stable list: %d' % len(newly))
sys.exit(1 if missing else 0)
